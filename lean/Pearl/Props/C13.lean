import Pearl.Proofs.WorkerLemmas
import Pearl.Proofs.WorkerTimed
/-
C13 — background maintenance stays alive: rotation continues and close terminates.

Every statement is a schema in the error policy `p : ErrorPolicy` of the worker loop
(`processMsgWith p`, `runWorkerWith p`):

* `ErrorPolicy.panic`          = `processMsg` / `runWorker`           = the loop before /repo 33c2a77
                                                                        (`process_msg(msg).await?`, `panic!`);
* `ErrorPolicy.logAndContinue` = `processMsgFixed` / `runWorkerFixed` = the loop since /repo 33c2a77
                                                                        (the code as it is now).

`CURRENT` (end of the file) names the policy the shipped code implements; the main theorems
`worker_total`, `overflow_switches`, `no_switch_below_limit`, `dumps_complete`, `close_terminates` are stated
about it.  The theorems that hold for every policy are proved once for `p` (`*_with`); `worker_total` holds only
for `logAndContinue` and is refuted for `panic` (`worker_total_refuted_before_fix`, kept as the recorded
witness of the defect).
-/
namespace Pearl
namespace C13

open Worker

/-! ## statement schemas -/

/-- the worker survives every message sequence -/
def WorkerTotal (p : ErrorPolicy) : Prop :=
  ∀ (lim : Limits) (st : WState) (msgs : List Msg), st.alive = true → (runWorkerWith p lim st msgs).alive = true

/-- a `TryUpdateActiveBlob` message that arrives at a live worker -/
abbrev tryUpdate : Msg := .op .tryUpdateActiveBlob none
abbrev tryDump : Msg := .op .tryDumpBlobIndexes none

/-! ## the `?`-propagating loop (before the repair): `worker_total` is false -/

/-- a storage without an active blob (e.g. right after `init_lazy`, or after `try_close_active_blob`) -/
def noActive : WState := { store := {} }

/-- a storage right after `init`: one empty active blob -/
def fresh : WState := { store := ({} : Store).createActive }

def lim2 : Limits := { maxCount := 2, maxSize := 1000 }

/-- `worker_total` for the `?`-propagating loop, i.e. `∀ st msgs, st.alive → (runWorker st msgs).alive`, is refuted:
    `close_active_blob_in_background()` on a storage without an active blob kills the worker
    (`Inner::close_active_blob` returns `ActiveBlobDoesntExist`, `?` in `process_msg`, `?` in `tick`,
    `panic!` in `run`). -/
theorem worker_total_refuted_before_fix :
    ¬ (∀ (lim : Limits) (st : WState) (msgs : List Msg), st.alive = true → (runWorker lim st msgs).alive = true) := by
  intro h
  have := h lim2 noActive [.op .closeActiveBlob none] rfl
  exact absurd this (by decide)

theorem worker_total_refuted_before_fix' : ¬ WorkerTotal .panic := worker_total_refuted_before_fix

/-- the same with `create_active_blob_in_background()` on a freshly initialised storage (which has an
    active blob): `ActiveBlobExists` -/
theorem worker_dies_on_create_before_fix :
    (runWorker lim2 fresh [.op .createActiveBlob none]).alive = false := by decide

/-- the same with `restore_active_blob_in_background()` while an active blob exists: `ActiveBlobExists` -/
theorem worker_dies_on_restore_before_fix :
    (runWorker lim2 fresh [.op .restoreActiveBlob none]).alive = false := by decide

/-- … and with nothing to restore: `Uninitialized` -/
theorem worker_dies_on_restore_empty_before_fix :
    (runWorker lim2 noActive [.op .restoreActiveBlob none]).alive = false := by decide

/-- the three failing arms are exactly the ones that kill the worker -/
theorem worker_dies_iff_error_before_fix (lim : Limits) (st : WState) (m : Msg) (ha : st.alive = true) :
    (processMsg lim st m).alive = false ↔ ∃ e, processE lim st m = .error e := by
  constructor
  · intro h
    cases he : processE lim st m with
    | error e => exact ⟨e, rfl⟩
    | ok w' =>
      have h1 : processMsg lim st m = w' := processMsgWith_ok .panic lim st w' m ha he
      have h2 := processE_alive he
      rw [h1, h2, ha] at h
      cases h
  · rintro ⟨e, he⟩
    exact processMsgWith_panic_error lim st m e ha he

/-- a full active blob -/
def fullBlob : Blob :=
  { id := 0, recs := [{ key := 1, ts := 1, del := false, mt := none, data := ⟨3, 0⟩ },
                      { key := 2, ts := 2, del := false, mt := none, data := ⟨3, 0⟩ }] }

def fullSt : WState := { store := { active := some fullBlob, nextId := 1 } }

/-- consequence: rotation stops.  One stray `create_active_blob_in_background()` and the full active blob
    is never replaced, whatever is sent afterwards. -/
theorem rotation_stops_before_fix :
    (runWorker lim2 fullSt [.op .createActiveBlob none, tryUpdate]).store.active = some fullBlob := by decide

/-- … and stays stopped for every later message sequence -/
theorem rotation_stops_forever_before_fix (msgs : List Msg) :
    (runWorker lim2 fullSt (.op .createActiveBlob none :: msgs)).store.active = some fullBlob := by
  show (runWorkerWith .panic lim2 (processMsgWith .panic lim2 fullSt (.op .createActiveBlob none)) msgs).store.active = _
  rw [runWorkerWith_dead _ _ _ _ (by decide)]
  decide

/-! ## the repaired loop (the code as it is now) -/

/-- C13/1: the worker survives every message sequence -/
theorem worker_total_fixed : WorkerTotal .logAndContinue := by
  intro lim st msgs
  induction msgs generalizing st with
  | nil => intro h; exact h
  | cons m ms ih =>
    intro h
    rw [runWorkerWith_cons]
    exact ih _ (processMsgWith_continue_alive lim st m h)

/-- unfolded form of `worker_total_fixed` -/
theorem worker_total_fixed' (lim : Limits) (st : WState) (msgs : List Msg) (h : st.alive = true) :
    (runWorkerFixed lim st msgs).alive = true := worker_total_fixed lim st msgs h

-- non-vacuity: the sequence that refutes the old loop is survived, and the state is untouched
example : (runWorkerFixed lim2 noActive [.op .closeActiveBlob none]).alive = true := by decide
example : (runWorkerFixed lim2 noActive [.op .closeActiveBlob none]).store.active = none := by decide
example : (runWorkerFixed lim2 fresh [.op .createActiveBlob none, .op .restoreActiveBlob none]).store.nextId = 1 := by decide

/-- a failed message changes nothing (state unchanged on error) -/
theorem failed_msg_is_noop_fixed (lim : Limits) (st : WState) (m : Msg) (e : ErrKind)
    (he : processE lim st m = .error e) : processMsgFixed lim st m = st :=
  processMsgWith_continue_error lim st m e he

example : processE lim2 noActive (.op .closeActiveBlob none) = .error .activeBlobDoesntExist := rfl

/-- the messages that can fail at all: `CreateActiveBlob` / `CloseActiveBlob` / `RestoreActiveBlob` whose
    precondition does not hold.  Everything else — in particular `process_defered`, whose `?` still leads to
    the `panic!` in `run` — always succeeds in the model. -/
theorem failing_messages {lim : Limits} {st : WState} {m : Msg} {e : ErrKind} (h : processE lim st m = .error e) :
    ∃ pred,
      (m = .op .createActiveBlob pred ∧ st.store.tryCreateActive = .error e) ∨
      (m = .op .closeActiveBlob pred ∧ st.store.closeActive = .error e) ∨
      (m = .op .restoreActiveBlob pred ∧ st.store.restoreActive = .error e) := by
  cases m with
  | op t pred =>
    refine ⟨pred, ?_⟩
    rcases processOp_error_arms h with ⟨rfl, h'⟩ | ⟨rfl, h'⟩ | ⟨rfl, h'⟩
    · exact Or.inl ⟨rfl, h'⟩
    · exact Or.inr (Or.inl ⟨rfl, h'⟩)
    · exact Or.inr (Or.inr ⟨rfl, h'⟩)
  | deadlineDue => cases h
  | dumpDone => cases h
  | fsyncDone => cases h

example : processE lim2 fresh (.op .createActiveBlob none) = .error .activeBlobExists := rfl
example : processE lim2 noActive (.op .restoreActiveBlob none) = .error .uninitialized := rfl

/-! ## statements that hold for every policy (hence for both `processMsg` and `processMsgFixed`) -/

/-- what `tryUpdate` does to a live worker whose active blob is full -/
theorem overflow_switches_with (p : ErrorPolicy) (lim : Limits) (st : WState) (a : Blob)
    (halive : st.alive = true) (hact : st.store.active = some a) (hfull : lim.full a = true) :
    let st' := processMsgWith p lim st tryUpdate
    st'.alive = true ∧
    st'.store.active = some { id := st.store.nextId, recs := [] } ∧
    st'.store.nextId = st.store.nextId + 1 ∧
    st'.store.slots = st.store.slots ++ [some a] ∧
    a ∈ st'.store.closed ∧
    (st'.dumpRunning = true ∨ st'.deferred = true) := by
  have hE : ∃ w', processE lim st tryUpdate = .ok w' ∧ w'.alive = true ∧ w'.store = st.store.replaceActive ∧
      (w'.dumpRunning = true ∨ w'.deferred = true) := by
    simp only [processE, processOp, predOk, tryUpdateActive, hact, hfull]
    simp only [Bool.not_true, Bool.false_eq_true, ↓reduceIte]
    by_cases hd : st.deferred = true
    · simp [hd, deferDump, halive]
    · simp only [hd]
      by_cases hr : st.dumpRunning = true
      · simp [tryRunDump, hr, deferDump, halive]
      · simp [tryRunDump, hr, halive]
  obtain ⟨w', he, hal, hst, hdump⟩ := hE
  have : processMsgWith p lim st tryUpdate = w' := processMsgWith_ok p lim st w' _ halive he
  simp only [this]
  refine ⟨hal, ?_, ?_, ?_, ?_, hdump⟩
  · rw [hst]; simp [Store.replaceActive, Store.createActive, hact]
  · rw [hst]; simp [Store.replaceActive, Store.createActive, hact]
  · rw [hst]; simp [Store.replaceActive, Store.createActive, hact]
  · rw [hst]; simp [Store.closed, Store.replaceActive, Store.createActive, hact]

/-- C13/2: a live worker that receives `TryUpdateActiveBlob` while the active blob is at or over the record
    limit installs a fresh empty active blob whose id is the old `nextId`, and the old one is among the
    closed blobs -/
theorem overflow_switches_fixed (lim : Limits) (st : WState) (a : Blob)
    (halive : st.alive = true) (hact : st.store.active = some a) (hfull : lim.maxCount ≤ a.count) :
    let st' := processMsgFixed lim st tryUpdate
    st'.alive = true ∧
    st'.store.active = some { id := st.store.nextId, recs := [] } ∧
    st'.store.nextId = st.store.nextId + 1 ∧
    st'.store.slots = st.store.slots ++ [some a] ∧
    a ∈ st'.store.closed ∧
    (st'.dumpRunning = true ∨ st'.deferred = true) :=
  overflow_switches_with .logAndContinue lim st a halive hact (by simp [Limits.full, hfull])

/-- the same for the size limit -/
theorem overflow_switches_size_fixed (lim : Limits) (st : WState) (a : Blob)
    (halive : st.alive = true) (hact : st.store.active = some a) (hfull : lim.maxSize ≤ a.fileSize) :
    let st' := processMsgFixed lim st tryUpdate
    st'.store.active = some { id := st.store.nextId, recs := [] } ∧ a ∈ st'.store.closed :=
  let h := overflow_switches_with .logAndContinue lim st a halive hact (by simp [Limits.full, hfull])
  ⟨h.2.1, h.2.2.2.2.1⟩

-- non-vacuity: the hypotheses are satisfiable and the switch is visible
example : fullSt.alive = true ∧ fullSt.store.active = some fullBlob ∧ lim2.maxCount ≤ fullBlob.count := by decide
example : (processMsgFixed lim2 fullSt tryUpdate).store.active = some { id := 1, recs := [] } := by decide
example : (processMsgFixed lim2 fullSt tryUpdate).store.closed = [fullBlob] := by decide
example : (processMsgFixed lim2 fullSt tryUpdate).dumpRunning = true := by decide

/-- C13/3 (rotation continues): after ANY message sequence the repaired worker still rotates a full blob -/
theorem rotation_continues_fixed (lim : Limits) (st : WState) (msgs : List Msg) (a : Blob)
    (halive : st.alive = true)
    (hact : (runWorkerFixed lim st msgs).store.active = some a) (hfull : lim.maxCount ≤ a.count) :
    let st1 := runWorkerFixed lim st msgs
    let st2 := runWorkerFixed lim st (msgs ++ [tryUpdate])
    st2.store.active = some { id := st1.store.nextId, recs := [] } ∧ a ∈ st2.store.closed := by
  have h1 := worker_total_fixed lim st msgs halive
  have h := overflow_switches_fixed lim (runWorkerFixed lim st msgs) a h1 hact hfull
  simp only [runWorkerFixed, runWorkerWith_append]
  exact ⟨h.2.1, h.2.2.2.2.1⟩

-- non-vacuity: the sequence that stopped rotation in the old loop does not stop it any more
example : (runWorkerFixed lim2 fullSt ([.op .createActiveBlob none] ++ [tryUpdate])).store.active
    = some { id := 1, recs := [] } := by decide

/-- C13/4: below both limits `TryUpdateActiveBlob` changes nothing (any policy) -/
theorem no_switch_below_limit_with (p : ErrorPolicy) (lim : Limits) (st : WState) (a : Blob)
    (hact : st.store.active = some a) (hc : a.count < lim.maxCount) (hs : a.fileSize < lim.maxSize) :
    processMsgWith p lim st tryUpdate = st := by
  have hnf : lim.full a = false := by
    simp only [Limits.full, Bool.or_eq_false_iff, decide_eq_false_iff_not]
    omega
  unfold processMsgWith
  split
  · rfl
  · simp [processE, processOp, predOk, tryUpdateActive, hact, hnf]

theorem no_switch_below_limit (lim : Limits) (st : WState) (a : Blob)
    (hact : st.store.active = some a) (hc : a.count < lim.maxCount) (hs : a.fileSize < lim.maxSize) :
    processMsgFixed lim st tryUpdate = st :=
  no_switch_below_limit_with .logAndContinue lim st a hact hc hs

/-- without an active blob nothing is switched either -/
theorem no_switch_without_active_with (p : ErrorPolicy) (lim : Limits) (st : WState)
    (hact : st.store.active = none) : processMsgWith p lim st tryUpdate = st := by
  unfold processMsgWith
  split
  · rfl
  · simp [processE, processOp, predOk, tryUpdateActive, hact]

-- non-vacuity
def halfBlob : Blob := { id := 0, recs := [{ key := 1, ts := 1, del := false, mt := none, data := ⟨3, 0⟩ }] }
def halfSt : WState := { store := { active := some halfBlob, nextId := 1 } }
example : halfSt.store.active = some halfBlob ∧ halfBlob.count < lim2.maxCount ∧ halfBlob.fileSize < lim2.maxSize := by
  decide
example : (processMsgFixed lim2 halfSt tryUpdate).store.active = some halfBlob := by decide

/-- C13/5: after `TryDumpBlobIndexes` and the completion of the dump task every closed non-empty blob has its
    index on disk (any policy; the worker only has to be alive) -/
theorem dumps_complete_with (p : ErrorPolicy) (lim : Limits) (st : WState) (halive : st.alive = true) :
    let st1 := processMsgWith p lim st tryDump
    let st2 := processMsgWith p lim st1 .dumpDone
    st1.dumpRunning = true ∧ st2.dumpRunning = false ∧
    st2.store.active = st.store.active ∧
    ∀ b ∈ st2.store.closed, b.recs ≠ [] → b.onDisk = true := by
  obtain ⟨store, alive, deferred, dumpRunning, fsyncRunning⟩ := st
  simp only at halive
  subst halive
  cases dumpRunning <;>
    simp [processMsgWith, processE, processOp, predOk, tryRunDump, deferDump] <;>
    exact ⟨rfl, fun b hb hne => settle_onDisk hb hne⟩

theorem dumps_complete (lim : Limits) (st : WState) (halive : st.alive = true) :
    let st2 := processMsgFixed lim (processMsgFixed lim st tryDump) .dumpDone
    ∀ b ∈ st2.store.closed, b.recs ≠ [] → b.onDisk = true :=
  (dumps_complete_with .logAndContinue lim st halive).2.2.2

-- non-vacuity: a closed non-empty blob that is not yet on disk gets dumped
def closedSt : WState := { store := { active := none, slots := [some fullBlob], nextId := 1 } }
example : closedSt.store.closed = [fullBlob] ∧ fullBlob.onDisk = false ∧ fullBlob.recs ≠ [] := by decide
example : (processMsgFixed lim2 (processMsgFixed lim2 closedSt tryDump) .dumpDone).store.closed
    = [{ fullBlob with onDisk := true }] := by decide

/-! ### E27: a dump request that arrives while a dump task is running

`try_run_old_blob_indexes_dump_task` refuses to start a second task.  The task that is running may already be past the
blobs the request is about (it walks the closed blobs once, releasing the locks between time quanta, and its
`JoinHandle` reports "finished" only some time after its last blob), so the request must not be forgotten.  Up to
/repo 57a2e71 the `TryDumpBlobIndexes` arm of `process_msg` ignored the refusal: the request was lost
(`dump_request_lost_before_fix`; replayed on the real code with the `taskend` pause point, `corpus/C13/e27-…`).
Since the `fix:` commit the arm defers it like the rotation arm does (`dump_request_never_lost`). -/

/-- the `TryDumpBlobIndexes` arm of `process_msg` before the repair of E27 -/
def tryDumpArmBefore (w : WState) : WState := (tryRunDump w).1

/-- E27, before the repair: a request that finds a dump task running changes nothing at all - no task is started for
    it and nothing is registered that would start one later -/
theorem dump_request_lost_before_fix (w : WState) (h : w.dumpRunning = true) : tryDumpArmBefore w = w := by
  simp [tryDumpArmBefore, tryRunDump, h]

-- the witness: a dump task is running, nothing deferred; after the request still nothing is deferred
example : (tryDumpArmBefore { closedSt with dumpRunning := true }).deferred = false := by decide

/-- C13/5c (any policy): no dump request is lost.  A request received by a live worker either starts a dump task
    (none was running) or registers a deferred dump (one was running); in both cases a task is running afterwards
    and nothing else changes. -/
theorem dump_request_never_lost (p : ErrorPolicy) (lim : Limits) (st : WState) (halive : st.alive = true) :
    let st1 := processMsgWith p lim st tryDump
    st1.alive = true ∧ st1.dumpRunning = true ∧ st1.store = st.store ∧
    (st.dumpRunning = false → st1.deferred = st.deferred) ∧
    (st.dumpRunning = true → st1.deferred = true) := by
  obtain ⟨store, alive, deferred, dumpRunning, fsyncRunning⟩ := st
  simp only at halive
  subst halive
  cases dumpRunning <;> simp [processMsgWith, processE, processOp, predOk, tryRunDump, deferDump]

/-- C13/5d (any policy): the request that arrived while a dump task was running is carried out.  After the end of
    the running task, the deadline of the deferred dump and the end of the task it starts, every closed non-empty
    blob has its index on disk and nothing is left pending. -/
theorem dump_request_during_pass_completes (p : ErrorPolicy) (lim : Limits) (st : WState)
    (halive : st.alive = true) (hrun : st.dumpRunning = true) :
    let st1 := runWorkerWith p lim st [tryDump, .dumpDone]
    let st' := runWorkerWith p lim st [tryDump, .dumpDone, .deadlineDue, .dumpDone]
    (st1.deferred = true ∧ st1.dumpRunning = false) ∧
    (runWorkerWith p lim st [tryDump, .dumpDone, .deadlineDue]).dumpRunning = true ∧
    st'.alive = true ∧ st'.deferred = false ∧ st'.dumpRunning = false ∧
    ∀ b ∈ st'.store.closed, b.recs ≠ [] → b.onDisk = true := by
  obtain ⟨store, alive, deferred, dumpRunning, fsyncRunning⟩ := st
  simp only at halive hrun
  subst halive hrun
  simp [runWorkerWith, processMsgWith, processE, processOp, predOk, tryRunDump, deferDump, processDeferred]
  exact fun b hb hne => settle_onDisk hb hne

-- non-vacuity: a task is running and nothing is deferred when the request arrives
example : (runWorkerFixed lim2 { closedSt with dumpRunning := true } [tryDump]).deferred = true := by decide
example : ((runWorkerFixed lim2 { closedSt with dumpRunning := true } [tryDump, .dumpDone, .deadlineDue, .dumpDone]).store.closed.map
    (·.onDisk)) = [true] := by decide

/-- the dump that follows a switch: in the repaired loop `[tryUpdate, deadlineDue*, dumpDone]` ends with the
    rotated blob dumped — shown on the running example (switch starts the dump at once) -/
example : ((runWorkerFixed lim2 fullSt [tryUpdate, .dumpDone]).store.closed.map (·.onDisk)) = [true] := by decide

/-- C13/5b: the dump that follows a switch.  Whatever the state of the dump machinery when the switch happens
    (a dump in flight, a deferred dump registered, both, neither), after the switch, the end of the dump in
    flight, the deadline of the deferred dump and the end of the dump it starts, the rotated blob is among
    the closed ones and every closed non-empty blob has its index on disk; nothing is left pending. -/
theorem dumps_complete_after_switch_with (p : ErrorPolicy) (lim : Limits) (st : WState) (a : Blob)
    (halive : st.alive = true) (hact : st.store.active = some a) (hfull : lim.full a = true) :
    let st' := runWorkerWith p lim st [tryUpdate, .dumpDone, .deadlineDue, .dumpDone]
    st'.alive = true ∧ st'.deferred = false ∧ st'.dumpRunning = false ∧
    (∃ a' ∈ st'.store.closed, a'.id = a.id ∧ a'.recs = a.recs) ∧
    ∀ b ∈ st'.store.closed, b.recs ≠ [] → b.onDisk = true := by
  obtain ⟨store, alive, deferred, dumpRunning, fsyncRunning⟩ := st
  simp only at halive hact
  subst halive
  have hmem := mem_closed_replaceActive hact
  obtain ⟨a1, ha1, hid1, hrec1⟩ := settle_preserves hmem
  obtain ⟨a2, ha2, hid2, hrec2⟩ := settle_preserves ha1
  cases deferred <;> cases dumpRunning <;>
    simp [runWorkerWith, processMsgWith, processE, processOp, predOk, tryUpdateActive, hact, hfull, tryRunDump,
      deferDump, processDeferred]
  · exact ⟨⟨a1, ha1, hid1, hrec1⟩, fun b hb hne => settle_onDisk hb hne⟩
  · exact ⟨⟨a2, ha2, hid2.trans hid1, hrec2.trans hrec1⟩, fun b hb hne => settle_onDisk hb hne⟩
  · exact ⟨⟨a1, ha1, hid1, hrec1⟩, fun b hb hne => settle_onDisk hb hne⟩
  · exact ⟨⟨a2, ha2, hid2.trans hid1, hrec2.trans hrec1⟩, fun b hb hne => settle_onDisk hb hne⟩

theorem dumps_complete_after_switch (lim : Limits) (st : WState) (a : Blob)
    (halive : st.alive = true) (hact : st.store.active = some a) (hfull : lim.maxCount ≤ a.count) :
    let st' := runWorkerFixed lim st [tryUpdate, .dumpDone, .deadlineDue, .dumpDone]
    (∃ a' ∈ st'.store.closed, a'.id = a.id ∧ a'.recs = a.recs) ∧
    ∀ b ∈ st'.store.closed, b.recs ≠ [] → b.onDisk = true :=
  (dumps_complete_after_switch_with .logAndContinue lim st a halive hact (by simp [Limits.full, hfull])).2.2.2

-- non-vacuity: a dump is in flight AND a deferred dump is registered when the switch happens
example : (runWorkerFixed lim2 { fullSt with deferred := true, dumpRunning := true }
    [tryUpdate, .dumpDone, .deadlineDue, .dumpDone]).store.closed = [{ fullBlob with onDisk := true }] := by decide
-- … and the intermediate state: after the switch the blob is closed but not yet dumped
example : ((runWorkerFixed lim2 { fullSt with deferred := true, dumpRunning := true } [tryUpdate]).store.closed.map
    (·.onDisk)) = [false] := by decide

/-- C13/6 (close terminates), any policy: started alive with `queued` messages in the channel and the sender
    dropped, the `run` loop leaves the `running` phase after at most `queued.length + 1` iterations, having
    computed `shutdownWith` -/
theorem close_terminates_with (p : ErrorPolicy) (lim : Limits) (st : WState) (queued : List Msg)
    (halive : st.alive = true) :
    let c := loopN p lim (queued.length + 1) { w := st, queue := queued, phase := .running }
    c.phase ≠ .running ∧ c.w = shutdownWith p lim st queued := by
  have h := loopN_spec p lim queued st halive
  simp only at h ⊢
  refine ⟨?_, h.1⟩
  rw [h.2]
  split <;> simp

/-- C13/6 for the repaired loop: it reaches `stopped` (never `panicked`), every queued message has been
    consumed by `runWorkerFixed`, and both task handles have been awaited -/
theorem close_terminates (lim : Limits) (st : WState) (queued : List Msg) (halive : st.alive = true) :
    let c := loopN .logAndContinue lim (queued.length + 1) { w := st, queue := queued, phase := .running }
    c.phase = .stopped ∧
    c.w = drain (runWorkerFixed lim st queued) ∧
    c.w.alive = true ∧ c.w.dumpRunning = false ∧ c.w.fsyncRunning = false ∧
    (∀ b ∈ c.w.store.closed, (runWorkerFixed lim st queued).dumpRunning = true → b.recs ≠ [] → b.onDisk = true) := by
  have h := loopN_spec .logAndContinue lim queued st halive
  have hal := worker_total_fixed lim st queued halive
  simp only at h ⊢
  obtain ⟨hw, hp⟩ := h
  rw [hal] at hp
  have hw' : (loopN .logAndContinue lim (queued.length + 1) { w := st, queue := queued, phase := .running }).w =
      drain (runWorkerFixed lim st queued) := by
    rw [hw]; simp [shutdownWith, hal, runWorkerFixed]
  refine ⟨by simpa using hp, hw', ?_, ?_, ?_, ?_⟩
  · rw [hw']; simpa [drain, runWorkerFixed] using hal
  · rw [hw']; rfl
  · rw [hw']; rfl
  · intro b hb hrun hne
    rw [hw'] at hb
    simp only [drain, hrun, ↓reduceIte] at hb
    exact settle_onDisk hb hne

/-- totality of the message loop, said without the machine: the run over a concatenation is the run over the
    parts — every finite message list is consumed -/
theorem runWorker_consumes (p : ErrorPolicy) (lim : Limits) (st : WState) (a b : List Msg) :
    runWorkerWith p lim st (a ++ b) = runWorkerWith p lim (runWorkerWith p lim st a) b :=
  runWorkerWith_append p lim st a b

-- non-vacuity: with a failing message in the queue the repaired loop stops normally and has dumped;
-- the old loop ends in `panicked` and has not
example :
    (loopN .logAndContinue lim2 3 { w := fullSt, queue := [.op .createActiveBlob none, tryUpdate] }).phase = .stopped := by
  decide
example :
    ((loopN .logAndContinue lim2 3 { w := fullSt, queue := [.op .createActiveBlob none, tryUpdate] }).w.store.closed.map
      (·.onDisk)) = [true] := by decide
example :
    (loopN .panic lim2 3 { w := fullSt, queue := [.op .createActiveBlob none, tryUpdate] }).phase = .panicked := by
  decide

/-! ## the policy of the shipped code

Since /repo 33c2a77 the shipped loop is `logAndContinue`.  These are the C13 theorems about the code as it
is; should the loop change again, this is the only place that names the policy. -/

abbrev CURRENT : ErrorPolicy := .logAndContinue

/-- C13/1 -/
theorem worker_total : ∀ (lim : Limits) (st : WState) (msgs : List Msg),
    st.alive = true → (runWorkerWith CURRENT lim st msgs).alive = true :=
  worker_total_fixed

/-- C13/2 -/
theorem overflow_switches (lim : Limits) (st : WState) (a : Blob)
    (halive : st.alive = true) (hact : st.store.active = some a) (hfull : lim.maxCount ≤ a.count) :
    let st' := processMsgWith CURRENT lim st tryUpdate
    st'.alive = true ∧
    st'.store.active = some { id := st.store.nextId, recs := [] } ∧
    st'.store.nextId = st.store.nextId + 1 ∧
    st'.store.slots = st.store.slots ++ [some a] ∧
    a ∈ st'.store.closed ∧
    (st'.dumpRunning = true ∨ st'.deferred = true) :=
  overflow_switches_with CURRENT lim st a halive hact (by simp [Limits.full, hfull])

/-- C13/3 -/
theorem rotation_continues (lim : Limits) (st : WState) (msgs : List Msg) (a : Blob)
    (halive : st.alive = true)
    (hact : (runWorkerWith CURRENT lim st msgs).store.active = some a) (hfull : lim.maxCount ≤ a.count) :
    (runWorkerWith CURRENT lim st (msgs ++ [tryUpdate])).store.active
      = some { id := (runWorkerWith CURRENT lim st msgs).store.nextId, recs := [] } ∧
    a ∈ (runWorkerWith CURRENT lim st (msgs ++ [tryUpdate])).store.closed :=
  rotation_continues_fixed lim st msgs a halive hact hfull

/-- C13/4 -/
theorem no_switch_below_limit_current (lim : Limits) (st : WState) (a : Blob)
    (hact : st.store.active = some a) (hc : a.count < lim.maxCount) (hs : a.fileSize < lim.maxSize) :
    processMsgWith CURRENT lim st tryUpdate = st :=
  no_switch_below_limit_with CURRENT lim st a hact hc hs

/-- C13/5 -/
theorem dumps_complete_current (lim : Limits) (st : WState) (halive : st.alive = true) :
    ∀ b ∈ (processMsgWith CURRENT lim (processMsgWith CURRENT lim st tryDump) .dumpDone).store.closed,
      b.recs ≠ [] → b.onDisk = true :=
  (dumps_complete_with CURRENT lim st halive).2.2.2

/-- C13/6 -/
theorem close_terminates_current (lim : Limits) (st : WState) (queued : List Msg) (halive : st.alive = true) :
    let c := loopN CURRENT lim (queued.length + 1) { w := st, queue := queued, phase := .running }
    c.phase = .stopped ∧ c.w = drain (runWorkerWith CURRENT lim st queued) ∧
    c.w.alive = true ∧ c.w.dumpRunning = false ∧ c.w.fsyncRunning = false :=
  let h := close_terminates lim st queued halive
  ⟨h.1, h.2.1, h.2.2.1, h.2.2.2.1, h.2.2.2.2.1⟩

/-! ## C13/7: the timing of deferred index dumps

The theorems above treat `Msg.deadlineDue` as an event the environment delivers.  Here the clock is explicit
(`Pearl/Model/WorkerTimed.lean`: `now`, `deferred_index_dump_info = (first_time, last_time)`, `next_deadline`, the
dump task ended by `dumpDone`; events `recv t ..`, `timeout t`, `dumpDone t`, `fsyncDone t`, `wait t`), and the
assumption "a registered deferred dump eventually comes due" becomes a statement about the code.

Three variants: `step` (`Variant.shipped`, /repo HEAD), `stepBuggy` (`Variant.seeded`, seeded change C13-5),
`stepRepaired` (`Variant.repaired`, /repo HEAD with `update_deadline` also in the branch of
`process_deferred_blob_index_dump` that re-creates the record while the dump task is running).

FINDING (`deferred_has_deadline_refuted`, `deferred_dump_retry_lost`): in /repo HEAD that branch does not re-arm
the deadline although `tick_with_deadline` has just reset it to `None`.  A deferred dump that comes due while a
dump task is running is re-registered WITHOUT a deadline: the loop goes back to the plain `tick()` and the
deferred dump runs only if some later request happens to call `defer_blob_indexes_dump` (a delete in a closed
blob, or a rotation that attaches to the record).  Replayed on the harness binary (three closed blobs; the dump
task stalled on blob 0, a delete let in between two time quanta, the task stalled again past the deadline):
2.5 s later the index of blob 0 is still in memory with `defer=100,300`; a further delete heals it.
The seeded change C13-5 removes even that.  The invariant and
the retry statement are therefore proved for the repaired variant, refuted for the shipped one, and the shipped
one gets the strongest true versions (`*_partial`, `deferred_rearmed_by_next_delete`, `orphan_is_fresh`). -/
/- NOTE on the variant names: `Variant.shipped` is the loop of /repo up to commit 2401d8b (defect E22: the re-created
deferred record gets no deadline), `Variant.repaired` is /repo since the `fix:` commit 41a1848 - i.e. THE CURRENT
CODE; the translator checks this on every run (`Tie/C13.lean: deferred_rerecord_arms_deadline`).  `Variant.seeded`
is the seeded change C13-5. -/
section Timed
open WorkerTimed

/-- `deferred_min_time = 100 ms`, `deferred_max_time = 300 ms` -/
def cfgT : TCfg := { lim := lim2, minT := 100, maxT := 300 }
/-- a delete that hit a closed blob (`mark_all_as_deleted` → `defer_dump_old_blob_indexes`) -/
abbrev deleteAt (t : Nat) : TEvent := .recv t .deferredDumpBlobIndexes none
/-- an explicit dump request (`try_dump_old_blob_indexes`) -/
abbrev dumpReqAt (t : Nat) : TEvent := .recv t .tryDumpBlobIndexes none
/-- one closed blob whose index is not on disk, worker just created -/
def tInit : TState := TState.init closedSt.store

/-! ### (1) `deferred_has_deadline` -/

/-- C13/7.1, repaired variant: in every reachable state a registered deferred dump has an armed deadline -/
theorem deferred_has_deadline (cfg : TCfg) (s : TState) (h : Reachable .repaired cfg s) :
    s.deferredInfo.isSome = true → s.nextDeadline.isSome = true := by
  obtain ⟨store, es, rfl⟩ := h
  exact armed_runV_repaired es (armed_init store)

/-- E27 with the clock (the current code): a dump request received while a dump task is running leaves a deferred
    dump registered AND a deadline armed, so `tick_with_deadline` will come back to it (`deferred_dump_runs_within_two`,
    `deferred_dump_retried`) without any further request -/
theorem dump_request_arms_deadline (cfg : TCfg) (s : TState) (h : Reachable .repaired cfg s) (t : Nat)
    (halive : s.alive = true) (hnow : s.now ≤ t) (hrun : s.dumpRunning = true) :
    let s' := stepV .repaired cfg s (dumpReqAt t)
    s'.dumpRunning = true ∧ s'.deferredInfo.isSome = true ∧ s'.nextDeadline.isSome = true := by
  have hreach : Reachable .repaired cfg (stepV .repaired cfg s (dumpReqAt t)) := by
    obtain ⟨store, es, rfl⟩ := h
    exact ⟨store, es ++ [dumpReqAt t], by simp [runV, List.foldl_append]⟩
  have hen : enabled s (dumpReqAt t) = true := by simp [enabled, halive, TEvent.time, hnow]
  have hs : stepV .repaired cfg s (dumpReqAt t) = deferDumpT .repaired cfg { s with now := t } := by
    simp [stepV, hen, processOpT, predOk, TEvent.time, tryRunDumpT, hrun]
  have hd : (stepV .repaired cfg s (dumpReqAt t)).deferredInfo.isSome = true := by
    rw [hs]; cases hdi : s.deferredInfo <;> simp [deferDumpT, hdi, updateDeadline_eq]
  refine ⟨?_, hd, deferred_has_deadline cfg _ hreach hd⟩
  rw [hs]; cases hdi : s.deferredInfo <;> simp [deferDumpT, hdi, updateDeadline_eq, hrun]

-- non-vacuity: a request at t=10 starts a task; the request at t=20 finds it running and is deferred to t=120
example : (runRepaired cfgT tInit [dumpReqAt 10, dumpReqAt 20]).deferredInfo = some ⟨20, 20⟩ ∧
    (runRepaired cfgT tInit [dumpReqAt 10, dumpReqAt 20]).nextDeadline = some 120 := by decide
-- … and the deferred dump starts its own task once the first one has ended and the deadline has elapsed
example : (runRepaired cfgT tInit [dumpReqAt 10, dumpReqAt 20, .dumpDone 50, .timeout 121]).dumpStarts = 2 := by decide

/-- the converse holds in all three variants: a deadline is armed only while a record is registered -/
theorem deadline_has_deferred (v : Variant) (cfg : TCfg) (s : TState) (h : Reachable v cfg s) :
    s.nextDeadline.isSome = true → s.deferredInfo.isSome = true := by
  have hinv := inv_reachable h
  unfold WorkerTimed.Inv at hinv
  cases hd : s.deferredInfo <;> cases hn : s.nextDeadline <;> simp_all

/-- the run on which /repo HEAD loses the deadline: a delete at t=0 registers the deferred dump (deadline 100),
    an explicit dump request at t=50 starts a dump task, the deadline elapses at t=101 with the task still
    running -/
def lostEvents : List TEvent := [deleteAt 0, dumpReqAt 50, .timeout 101]

/-- C13/7.1 is FALSE of the shipped code: after `lostEvents` a record is registered and no deadline is armed -/
theorem deferred_has_deadline_refuted :
    ¬ (∀ (cfg : TCfg) (s : TState), Reachable .shipped cfg s →
        s.deferredInfo.isSome = true → s.nextDeadline.isSome = true) := by
  intro h
  have := h cfgT (run cfgT tInit lostEvents) ⟨closedSt.store, lostEvents, rfl⟩ (by decide)
  exact absurd this (by decide)

example : (run cfgT tInit lostEvents).deferredInfo = some ⟨101, 101⟩ ∧
    (run cfgT tInit lostEvents).nextDeadline = none ∧ (run cfgT tInit lostEvents).dumpRunning = true := by decide
-- the same events in the repaired variant: re-armed to 101 + min(100, 300)
example : (runRepaired cfgT tInit lostEvents).deferredInfo = some ⟨101, 101⟩ ∧
    (runRepaired cfgT tInit lostEvents).nextDeadline = some 201 := by decide

/-- C13/7.1 for the shipped code, strongest true version: the invariant holds after every run in which no deadline
    elapses on a due record while the dump task is running (`NoBlocked`) -/
theorem deferred_has_deadline_partial (cfg : TCfg) (store : Store) (es : List TEvent)
    (hnb : NoBlocked .shipped cfg (TState.init store) es) :
    (run cfg (TState.init store) es).deferredInfo.isSome = true →
    (run cfg (TState.init store) es).nextDeadline.isSome = true :=
  armed_runV_noBlocked (by decide) es (armed_init store) hnb

-- non-vacuity: a delete, a second delete, an early deadline, the dump request only after the deadline
example : NoBlocked .shipped cfgT tInit [deleteAt 0, deleteAt 60, .timeout 101, dumpReqAt 120] :=
  ⟨by decide, by decide, by decide, by decide, trivial⟩
example : (run cfgT tInit [deleteAt 0, deleteAt 60, .timeout 101, dumpReqAt 120]).deferredInfo = some ⟨0, 60⟩ ∧
    (run cfgT tInit [deleteAt 0, deleteAt 60, .timeout 101, dumpReqAt 120]).nextDeadline = some 160 := by decide
-- … and `lostEvents` is excluded by the hypothesis
example : ¬ NoBlocked .shipped cfgT tInit lostEvents := by
  intro h
  exact absurd h.2.2.1 (by decide)

/-- … and unconditionally (shipped and repaired): every delete that reaches the worker leaves a deadline armed —
    this is how /repo HEAD recovers from the lost deadline, and exactly what the seeded change removes -/
theorem deferred_rearmed_by_next_delete {v : Variant} (hv : v ≠ .seeded) (cfg : TCfg) (s : TState) (t : Nat)
    (halive : s.alive = true) (ht : s.now ≤ t) :
    (stepV v cfg s (deleteAt t)).deferredInfo.isSome = true ∧ (stepV v cfg s (deleteAt t)).nextDeadline.isSome = true := by
  have hen : enabled s (deleteAt t) = true := by simp [enabled, halive, TEvent.time, ht]
  have : stepV v cfg s (deleteAt t) = deferDumpT v cfg { s with now := t } := by
    simp [stepV, hen, processOpT, predOk, TEvent.time]
  rw [this]
  exact ⟨(deferDumpT_armed hv cfg _).2, (deferDumpT_armed hv cfg _).1⟩

-- (record (101, 600): deadline min(101 + 300, 600 + 100))
example : (run cfgT tInit (lostEvents ++ [deleteAt 600])).nextDeadline = some 401 := by decide

/-- … and a record without a deadline is always a freshly re-created one (`first_time = last_time`) -/
theorem orphan_is_fresh {v : Variant} (hv : v ≠ .seeded) (cfg : TCfg) (s : TState) (h : Reachable v cfg s)
    (d : Deferred) (hd : s.deferredInfo = some d) (hn : s.nextDeadline = none) : d.first = d.last := by
  obtain ⟨store, es, rfl⟩ := h
  exact orphanFresh_runV hv es (orphanFresh_init store) d hd hn

/-- the seeded change C13-5 on the same run: the invariant fails … -/
theorem deferred_has_deadline_buggy_refuted :
    (runBuggy cfgT tInit lostEvents).deferredInfo = some ⟨101, 101⟩ ∧
    (runBuggy cfgT tInit lostEvents).nextDeadline = none := by decide

/-- … and stays failed for EVERY continuation (further deletes, rotations, anything): no deadline is ever armed
    again, no `timeout` is ever enabled again, the untimed `deadlineDue` never occurs again -/
theorem buggy_never_rearmed (es : List TEvent) :
    (runBuggy cfgT tInit (lostEvents ++ es)).deferredInfo.isSome = true ∧
    (runBuggy cfgT tInit (lostEvents ++ es)).nextDeadline = none ∧
    ∀ m ∈ traceV .seeded cfgT (runBuggy cfgT tInit lostEvents) es, isDue m = false := by
  have h0 : Orphan (runBuggy cfgT tInit lostEvents) := by
    constructor <;> decide
  have h := orphan_runV_seeded cfgT _ es h0
  have happ : runBuggy cfgT tInit (lostEvents ++ es) = runV .seeded cfgT (runBuggy cfgT tInit lostEvents) es :=
    runV_append .seeded cfgT tInit lostEvents es
  rw [happ]
  exact ⟨h.1.1, h.1.2, h.2⟩

/-- … so with deletes (and task completions, and time) only, the dump never starts: the one dump task ever
    spawned is the explicit request of t=50 -/
theorem buggy_dump_never_starts (es : List TEvent) (hes : ∀ e ∈ es, e.noRecv = true ∨ e.isDelete = true) :
    (runBuggy cfgT tInit (lostEvents ++ es)).dumpStarts = 1 := by
  have h0 : Orphan (runBuggy cfgT tInit lostEvents) := by
    constructor <;> decide
  have happ : runBuggy cfgT tInit (lostEvents ++ es) = runV .seeded cfgT (runBuggy cfgT tInit lostEvents) es :=
    runV_append .seeded cfgT tInit lostEvents es
  rw [happ, orphan_runV_seeded_noStart cfgT _ es h0 hes]
  decide

-- the same continuation, seeded and shipped: task done at 500, a delete at 600 (deadline 401, already elapsed)
example : (runBuggy cfgT tInit (lostEvents ++ [.dumpDone 500, deleteAt 600, .timeout 601, .wait 100000])).dumpStarts = 1 := by
  decide
example : (run cfgT tInit (lostEvents ++ [.dumpDone 500, deleteAt 600, .timeout 601])).dumpStarts = 2 := by decide

/-! ### (2) `deadline_bounds` -/

/-- C13/7.2 (all variants): the record is ordered and in the past, and the armed deadline lies between
    `first_time + min(min, max)` and `next_deadline(min, max) = min(first_time + max, last_time + min)`.
    In particular it is never later than `first_time + max` and never later than `last_time + min`; the worker
    wakes at `deadline + EPS`. -/
theorem deadline_bounds (v : Variant) (cfg : TCfg) (s : TState) (h : Reachable v cfg s)
    (d : Deferred) (dl : Nat) (hd : s.deferredInfo = some d) (hdl : s.nextDeadline = some dl) :
    d.first ≤ d.last ∧ d.last ≤ s.now ∧
    d.first + min cfg.minT cfg.maxT ≤ dl ∧
    dl ≤ d.nextDeadline cfg.minT cfg.maxT ∧ dl ≤ d.first + cfg.maxT ∧ dl ≤ d.last + cfg.minT := by
  have hinv := inv_reachable h
  unfold WorkerTimed.Inv at hinv
  rw [hd, hdl] at hinv
  simp only [Deferred.nextDeadline] at hinv ⊢
  omega

example : (run cfgT tInit [deleteAt 0, deleteAt 60]).deferredInfo = some ⟨0, 60⟩ ∧
    (run cfgT tInit [deleteAt 0, deleteAt 60]).nextDeadline = some 100 := by decide

/-- the lower bound "never earlier than `last_time + min` unless capped by `first_time + max`" is FALSE of the
    armed deadline: `update_deadline` keeps the earlier of the old and the new deadline, so after a second delete
    the deadline of the first one stays armed (100 < 60 + 100 and 100 < 0 + 300) … -/
theorem deadline_lower_bound_refuted :
    ¬ (∀ (cfg : TCfg) (s : TState) (d : Deferred) (dl : Nat), Reachable .shipped cfg s →
        s.deferredInfo = some d → s.nextDeadline = some dl → d.last + cfg.minT ≤ dl ∨ d.first + cfg.maxT ≤ dl) := by
  intro h
  have := h cfgT (run cfgT tInit [deleteAt 0, deleteAt 60]) ⟨0, 60⟩ 100 ⟨closedSt.store, _, rfl⟩
    (by decide) (by decide)
  exact absurd this (by decide)

/-- … but it is TRUE of the dump itself (all variants, any state): a `timeout` spawns a dump task only when
    `last_time.elapsed() ≥ min` or `first_time.elapsed() ≥ max`; a deadline that elapses earlier only re-arms -/
theorem deferred_start_respects_min (v : Variant) (cfg : TCfg) (s : TState) (t : Nat)
    (hstart : (stepV v cfg s (.timeout t)).dumpStarts ≠ s.dumpStarts) :
    ∃ d, s.deferredInfo = some d ∧ (cfg.minT ≤ t - d.last ∨ cfg.maxT ≤ t - d.first) := by
  by_cases hen : enabled s (.timeout t) = true
  · cases hd : s.deferredInfo with
    | none =>
      exfalso; apply hstart
      rw [stepV_timeout v cfg s t hen]
      simp [processDeferredT, hd]
    | some d =>
      refine ⟨d, rfl, ?_⟩
      by_cases hdue : d.due cfg.minT cfg.maxT t = true
      · exact (due_iff d cfg.minT cfg.maxT t).1 hdue
      · exfalso; apply hstart
        rw [timeout_early v cfg s t d hen hd (by simpa using hdue)]
  · exfalso; apply hstart
    rw [stepV_disabled v cfg s _ (by simpa using hen)]

/-- an early deadline re-arms to exactly `next_deadline(min, max)` -/
theorem early_deadline_rearms (v : Variant) (cfg : TCfg) (s : TState) (t : Nat) (d : Deferred)
    (hen : enabled s (.timeout t) = true) (hd : s.deferredInfo = some d) (hdue : d.due cfg.minT cfg.maxT t = false) :
    stepV v cfg s (.timeout t) = { s with now := t, nextDeadline := some (d.nextDeadline cfg.minT cfg.maxT) } :=
  timeout_early v cfg s t d hen hd hdue

example : (run cfgT tInit [deleteAt 0, deleteAt 60, .timeout 101]).nextDeadline = some 160 ∧
    (run cfgT tInit [deleteAt 0, deleteAt 60, .timeout 101]).dumpStarts = 0 ∧
    (run cfgT tInit [deleteAt 0, deleteAt 60, .timeout 101, .timeout 161]).dumpStarts = 1 := by decide
-- capped by `max`: deletes every 90 ms keep `last + min` moving, the dump starts at first + max + EPS
example : (run cfgT tInit [deleteAt 0, deleteAt 90, .timeout 101, deleteAt 180, .timeout 191, deleteAt 270,
      .timeout 281]).nextDeadline = some 300 ∧
    (run cfgT tInit [deleteAt 0, deleteAt 90, .timeout 101, deleteAt 180, .timeout 191, deleteAt 270,
      .timeout 281, .timeout 301]).dumpStarts = 1 := by decide

/-! ### (3) `deferred_dump_runs` -/

/-- C13/7.3 (all variants): a deferred dump is registered at time `t0` (no record before) and no further request
    arrives (`q`: only task completions and time).  Then the record is `(t0, t0)` with deadline
    `t0 + min(min, max)`, and once the clock has passed `deadline + EPS` with no dump task running, the next loop
    iteration is the `timeout`, it is the untimed `deadlineDue`, and it starts the dump. -/
theorem deferred_dump_runs (v : Variant) (cfg : TCfg) (s0 : TState) (hreach : Reachable v cfg s0)
    (halive : s0.alive = true) (hnone : s0.deferredInfo = none) (t0 : Nat) (ht0 : s0.now ≤ t0)
    (q : List TEvent) (hq : ∀ e ∈ q, e.quiet = true) (t : Nat) :
    let s1 := stepV v cfg s0 (deleteAt t0)
    let s2 := runV v cfg s1 q
    s1.deferredInfo = some ⟨t0, t0⟩ ∧ s1.nextDeadline = some (t0 + min cfg.minT cfg.maxT) ∧
    (s2.now ≤ t → t0 + min cfg.minT cfg.maxT + EPS ≤ t → s2.dumpRunning = false →
      enabled s2 (.timeout t) = true ∧ msgOf cfg s2 (.timeout t) = some .deadlineDue ∧
      Started s2 (stepV v cfg s2 (.timeout t))) := by
  have hnd : s0.nextDeadline = none := by
    have hinv := inv_reachable hreach
    unfold WorkerTimed.Inv at hinv
    rw [hnone] at hinv
    cases hn : s0.nextDeadline with
    | none => rfl
    | some dl => rw [hn] at hinv; exact hinv.elim
  have hen : enabled s0 (deleteAt t0) = true := by simp [enabled, halive, TEvent.time, ht0]
  have hs1 : stepV v cfg s0 (deleteAt t0) = deferDumpT v cfg { s0 with now := t0 } := by
    simp [stepV, hen, processOpT, predOk, TEvent.time]
  have hd1 : (stepV v cfg s0 (deleteAt t0)).deferredInfo = some ⟨t0, t0⟩ := by
    rw [hs1]
    cases v <;> simp [deferDumpT, hnone, Deferred.new, updateDeadline_eq]
  have hn1 : (stepV v cfg s0 (deleteAt t0)).nextDeadline = some (t0 + min cfg.minT cfg.maxT) := by
    rw [hs1]
    cases v <;> simp [deferDumpT, hnone, hnd, Deferred.new, updateDeadline_eq, Deferred.nextDeadline] <;> omega
  have hal1 : (stepV v cfg s0 (deleteAt t0)).alive = true := by
    rw [hs1]
    cases v <;> simp [deferDumpT, hnone, updateDeadline_eq, halive]
  refine ⟨hd1, hn1, ?_⟩
  intro hnow hpast hrun
  have hqr := quiet_runV v cfg (stepV v cfg s0 (deleteAt t0)) q hq
  have hen2 : enabled (runV v cfg (stepV v cfg s0 (deleteAt t0)) q) (.timeout t) = true := by
    rw [enabled_timeout_iff]
    exact ⟨hqr.2.2.2.1.trans hal1, hnow, _, hqr.2.1.trans hn1, hpast⟩
  have hd2 := hqr.1.trans hd1
  have hdue : (⟨t0, t0⟩ : Deferred).due cfg.minT cfg.maxT t = true :=
    due_of_elapsed (dl := t0 + min cfg.minT cfg.maxT) (by simp only [Deferred.nextDeadline]; omega) hpast
  refine ⟨hen2, ?_, ?_⟩
  · rw [msgOf_timeout cfg _ t hen2]
    simp [dueAt, hd2, hdue]
  · rw [timeout_starts v cfg _ t _ hen2 hd2 hdue hrun]
    exact ⟨rfl, rfl, rfl, rfl⟩

-- non-vacuity: delete at 0, the fsync task ends and time passes, the deadline (100 + 1) elapses, the dump starts
example : (run cfgT tInit [deleteAt 0, .fsyncDone 30, .wait 101, .timeout 101]).dumpRunning = true ∧
    (run cfgT tInit [deleteAt 0, .fsyncDone 30, .wait 101, .timeout 101]).deferredInfo = none ∧
    ((run cfgT tInit [deleteAt 0, .fsyncDone 30, .wait 101, .timeout 101, .dumpDone 150]).store.closed.map (·.onDisk))
      = [true] := by decide

/-- C13/7.3, any reachable state (all variants): a record with an armed deadline — possibly a stale, earlier one
    — and no further request.  The first `timeout` either starts the dump or (stale deadline, record not yet due)
    re-arms to `next_deadline(min, max)`; the second one then starts it. -/
theorem deferred_dump_runs_within_two (v : Variant) (cfg : TCfg) (s : TState)
    (d : Deferred) (hd : s.deferredInfo = some d)
    (t1 : Nat) (hen1 : enabled s (.timeout t1) = true) (hr1 : s.dumpRunning = false) :
    let s1 := stepV v cfg s (.timeout t1)
    Started s s1 ∨
    (s1.deferredInfo = some d ∧ s1.nextDeadline = some (d.nextDeadline cfg.minT cfg.maxT) ∧
     s1.dumpRunning = false ∧
     ∀ (q : List TEvent), (∀ e ∈ q, e.quiet = true) → ∀ t2,
       let s2 := runV v cfg s1 q
       s2.now ≤ t2 → d.nextDeadline cfg.minT cfg.maxT + EPS ≤ t2 →
       enabled s2 (.timeout t2) = true ∧ Started s2 (stepV v cfg s2 (.timeout t2))) := by
  by_cases hdue : d.due cfg.minT cfg.maxT t1 = true
  · left
    rw [timeout_starts v cfg s t1 d hen1 hd hdue hr1]
    exact ⟨rfl, rfl, rfl, rfl⟩
  · right
    have hs1 := timeout_early v cfg s t1 d hen1 hd (by simpa using hdue)
    rw [hs1]
    refine ⟨hd, rfl, hr1, ?_⟩
    intro q hq t2
    simp only
    intro hnow hpast
    have hqr := quiet_runV v cfg { s with now := t1, nextDeadline := some (d.nextDeadline cfg.minT cfg.maxT) } q hq
    have hen2 : enabled (runV v cfg { s with now := t1, nextDeadline := some (d.nextDeadline cfg.minT cfg.maxT) } q)
        (.timeout t2) = true := by
      rw [enabled_timeout_iff]
      exact ⟨(hqr.2.2.2.1 : _ = s.alive).trans (enabled_alive (s := s) hen1), hnow, _, hqr.2.1, hpast⟩
    refine ⟨hen2, ?_⟩
    rw [timeout_starts v cfg _ t2 d hen2 (hqr.1.trans hd) (due_of_elapsed (Nat.le_refl _) hpast)
      (hqr.2.2.2.2.2 hr1)]
    exact ⟨rfl, rfl, rfl, rfl⟩

/-- C13/7.3, the retry, repaired variant: the deadline elapses on a due record while the dump task is still
    running.  The record is re-created at that moment WITH a deadline; after the task has finished (`dumpDone`
    among the quiet events) and that deadline has elapsed, the next iteration starts the dump. -/
theorem deferred_dump_retried (cfg : TCfg) (s : TState) (d : Deferred) (hd : s.deferredInfo = some d)
    (t1 : Nat) (hen1 : enabled s (.timeout t1) = true) (hdue : d.due cfg.minT cfg.maxT t1 = true)
    (hr1 : s.dumpRunning = true)
    (q : List TEvent) (hq : ∀ e ∈ q, e.quiet = true) (t2 : Nat) :
    let s1 := stepRepaired cfg s (.timeout t1)
    let s2 := runRepaired cfg s1 q
    s1.deferredInfo = some ⟨t1, t1⟩ ∧ s1.nextDeadline = some (t1 + min cfg.minT cfg.maxT) ∧
    s1.dumpStarts = s.dumpStarts ∧
    (s2.now ≤ t2 → t1 + min cfg.minT cfg.maxT + EPS ≤ t2 → s2.dumpRunning = false →
      enabled s2 (.timeout t2) = true ∧ msgOf cfg s2 (.timeout t2) = some .deadlineDue ∧
      Started s2 (stepRepaired cfg s2 (.timeout t2))) := by
  have hs1 := timeout_blocked .repaired cfg s t1 d hen1 hd hdue hr1
  have hnd : (Deferred.new t1).nextDeadline cfg.minT cfg.maxT = t1 + min cfg.minT cfg.maxT := by
    simp only [Deferred.nextDeadline, Deferred.new]; omega
  simp only [↓reduceIte, hnd] at hs1
  simp only [stepRepaired, runRepaired]
  rw [hs1]
  refine ⟨rfl, rfl, rfl, ?_⟩
  intro hnow hpast hrun
  have hqr := quiet_runV .repaired cfg
    { s with now := t1, deferredInfo := some (Deferred.new t1), nextDeadline := some (t1 + min cfg.minT cfg.maxT) } q hq
  have hen2 : enabled (runV .repaired cfg
      { s with now := t1, deferredInfo := some (Deferred.new t1), nextDeadline := some (t1 + min cfg.minT cfg.maxT) } q)
      (.timeout t2) = true := by
    rw [enabled_timeout_iff]
    exact ⟨(hqr.2.2.2.1 : _ = s.alive).trans (enabled_alive (s := s) hen1), hnow, _, hqr.2.1, hpast⟩
  have hdue2 : (Deferred.new t1).due cfg.minT cfg.maxT t2 = true :=
    due_of_elapsed (dl := t1 + min cfg.minT cfg.maxT) (by rw [hnd]; exact Nat.le_refl _) hpast
  refine ⟨hen2, ?_, ?_⟩
  · rw [msgOf_timeout cfg _ t2 hen2]
    simp [dueAt, hqr.1, hdue2]
  · rw [timeout_starts .repaired cfg _ t2 _ hen2 hqr.1 hdue2 hrun]
    exact ⟨rfl, rfl, rfl, rfl⟩

/-- the hypothesis `s2.dumpRunning = false` of `deferred_dump_retried` is what `dumpDone` provides: quiet events,
    then the end of the dump task, then quiet events leave no dump task running (all variants) -/
theorem dumpDone_then_quiet (v : Variant) (cfg : TCfg) (s : TState) (q1 q2 : List TEvent) (T : Nat)
    (halive : s.alive = true) (hq1 : ∀ e ∈ q1, e.quiet = true) (hq2 : ∀ e ∈ q2, e.quiet = true)
    (hT : (runV v cfg s q1).now ≤ T) :
    (runV v cfg s (q1 ++ .dumpDone T :: q2)).dumpRunning = false := by
  rw [runV_append, runV_cons]
  have h1 := quiet_runV v cfg s q1 hq1
  have h2 := dumpDone_stops v cfg (runV v cfg s q1) T (h1.2.2.2.1.trans halive) hT
  exact (quiet_runV v cfg _ q2 hq2).2.2.2.2.2 h2

/-- C13/7.3, the retry, is FALSE of the shipped code (and of the seeded one): same situation, any state.  The
    record is re-created WITHOUT a deadline, and as long as no request arrives — whatever else happens: the dump
    task ends, time passes — the record stays, no deadline is armed, no `timeout` is enabled, `deadlineDue` never
    occurs, no dump task is spawned. -/
theorem deferred_dump_retry_lost {v : Variant} (hv : v ≠ .repaired) (cfg : TCfg) (s : TState) (d : Deferred)
    (hd : s.deferredInfo = some d)
    (t1 : Nat) (hen1 : enabled s (.timeout t1) = true) (hdue : d.due cfg.minT cfg.maxT t1 = true)
    (hr1 : s.dumpRunning = true)
    (es : List TEvent) (hes : ∀ e ∈ es, e.noRecv = true) :
    let s1 := stepV v cfg s (.timeout t1)
    let s2 := runV v cfg s1 es
    s1.deferredInfo = some ⟨t1, t1⟩ ∧ s1.nextDeadline = none ∧
    s2.deferredInfo = some ⟨t1, t1⟩ ∧ s2.nextDeadline = none ∧ s2.dumpStarts = s.dumpStarts ∧
    (∀ t, enabled s2 (.timeout t) = false) ∧
    ∀ m ∈ traceV v cfg s1 es, isDue m = false := by
  have hs1 := timeout_blocked v cfg s t1 d hen1 hd hdue hr1
  simp only [hv, ↓reduceIte] at hs1
  simp only
  have hn1 : (stepV v cfg s (.timeout t1)).nextDeadline = none := by rw [hs1]
  have hd1 : (stepV v cfg s (.timeout t1)).deferredInfo = some ⟨t1, t1⟩ := by rw [hs1]; rfl
  have hst1 : (stepV v cfg s (.timeout t1)).dumpStarts = s.dumpStarts := by rw [hs1]
  have h := noDeadline_runV v cfg _ es hn1 hes
  refine ⟨hd1, hn1, h.1.trans hd1, h.2.1, h.2.2.1.trans hst1, ?_, h.2.2.2⟩
  intro t
  simp [enabled, deadlineElapsed, h.2.1]

-- the requested scenario: a delete into a closed blob at t=0, min=100, max=300, a dump task running from t=50
-- to t=500.
/-- repaired variant: the deadlines 100, 201, 302, 403, 504 are armed one after the other (each elapses while the
    task is still running and re-creates the record), the task ends at 500, the deadline 504 elapses at 505 -/
def retryEvents : List TEvent :=
  [deleteAt 0, dumpReqAt 50, .timeout 101, .timeout 202, .timeout 303, .timeout 404, .dumpDone 500, .timeout 505]

example : (runRepaired cfgT tInit (retryEvents.take 1)).nextDeadline = some 100 ∧
    (runRepaired cfgT tInit (retryEvents.take 2)).dumpRunning = true ∧
    (runRepaired cfgT tInit (retryEvents.take 3)).nextDeadline = some 201 ∧
    (runRepaired cfgT tInit (retryEvents.take 4)).nextDeadline = some 302 ∧
    (runRepaired cfgT tInit (retryEvents.take 5)).nextDeadline = some 403 ∧
    (runRepaired cfgT tInit (retryEvents.take 6)).nextDeadline = some 504 ∧
    (runRepaired cfgT tInit (retryEvents.take 6)).deferredInfo = some ⟨404, 404⟩ ∧
    (runRepaired cfgT tInit (retryEvents.take 6)).dumpStarts = 1 ∧
    (runRepaired cfgT tInit (retryEvents.take 7)).dumpRunning = false ∧
    ((runRepaired cfgT tInit (retryEvents.take 7)).store.closed.map (·.onDisk)) = [true] := by decide
-- the dump is started (a second time) after 500, the record and the deadline are cleared
example : (runRepaired cfgT tInit retryEvents).dumpStarts = 2 ∧
    (runRepaired cfgT tInit retryEvents).dumpRunning = true ∧ (runRepaired cfgT tInit retryEvents).now = 505 ∧
    (runRepaired cfgT tInit retryEvents).deferredInfo = none ∧
    (runRepaired cfgT tInit retryEvents).nextDeadline = none := by decide
-- its untimed trace: the deadline was due five times, four of them blocked
example : (traceV .repaired cfgT tInit retryEvents).map isDue = [false, false, true, true, true, true, false, true] := by
  decide
-- before the deadline nothing is enabled: a `timeout` at 504 is a no-op
example : (runRepaired cfgT tInit (retryEvents.take 7 ++ [.timeout 504])).dumpStarts = 1 := by decide
/-- shipped code, same scenario: the deadline 100 elapses at 101, the record is re-created with no deadline, and
    the very same later events do nothing — the dump is NOT started after 500 -/
example : (run cfgT tInit retryEvents).dumpStarts = 1 ∧ (run cfgT tInit retryEvents).dumpRunning = false ∧
    (run cfgT tInit retryEvents).deferredInfo = some ⟨101, 101⟩ ∧
    (run cfgT tInit retryEvents).nextDeadline = none := by decide
-- … until another delete arrives (t=600): record (101, 600), deadline min(401, 700) = 401 has elapsed, the
-- next iteration starts the dump
example : (run cfgT tInit (retryEvents ++ [deleteAt 600])).nextDeadline = some 401 ∧
    (run cfgT tInit (retryEvents ++ [deleteAt 600, .timeout 600])).dumpStarts = 2 ∧
    (run cfgT tInit (retryEvents ++ [deleteAt 600, .timeout 600])).deferredInfo = none := by decide

/-! ### (4) simulation -/

/-- C13/7.4 (all variants): erasing the clock maps every timed run to a run of the untimed model
    (`runWorkerFixed` = `processMsgFixed` folded) over the trace of the timed run … -/
theorem timed_refines_untimed (v : Variant) (cfg : TCfg) (s : TState) (es : List TEvent) :
    erase (runV v cfg s es) = runWorkerFixed cfg.lim (erase s) (traceV v cfg s es) :=
  erase_runV v cfg s es

/-- … step by step: one timed iteration is `processMsgFixed` on the message it stands for, or a stutter -/
theorem timed_step_refines_untimed (v : Variant) (cfg : TCfg) (s : TState) (e : TEvent) :
    erase (stepV v cfg s e) =
      match msgOf cfg s e with
      | some m => processMsgFixed cfg.lim (erase s) m
      | none => erase s :=
  erase_stepV v cfg s e

/-- … in which `deadlineDue` occurs only when the timed model fired it: the event is a `timeout`, the worker is
    alive, time does not go backwards, an armed deadline has elapsed (`dl + EPS ≤ t`), a record is registered and
    the `min`/`max` condition holds -/
theorem deadlineDue_only_when_fired (cfg : TCfg) (s : TState) (e : TEvent) :
    msgOf cfg s e = some .deadlineDue ↔
      ∃ t dl d, e = .timeout t ∧ s.alive = true ∧ s.now ≤ t ∧ s.nextDeadline = some dl ∧ dl + EPS ≤ t ∧
        s.deferredInfo = some d ∧ (cfg.minT ≤ t - d.last ∨ cfg.maxT ≤ t - d.first) := by
  rw [msgOf_deadlineDue_iff]
  constructor
  · rintro ⟨t, rfl, hf⟩
    simp only [firesDue, Bool.and_eq_true] at hf
    obtain ⟨hal, hnow, dl, hdl, hel⟩ := (enabled_timeout_iff s t).1 hf.1
    have hdue := hf.2
    unfold dueAt at hdue
    cases hd : s.deferredInfo with
    | none => rw [hd] at hdue; cases hdue
    | some d =>
      rw [hd] at hdue
      exact ⟨t, dl, d, rfl, hal, hnow, hdl, hel, rfl, (due_iff d _ _ t).1 hdue⟩
  · rintro ⟨t, dl, d, rfl, hal, hnow, hdl, hel, hd, hdue⟩
    refine ⟨t, rfl, ?_⟩
    simp only [firesDue, Bool.and_eq_true]
    exact ⟨(enabled_timeout_iff s t).2 ⟨hal, hnow, dl, hdl, hel⟩, by
      unfold dueAt; rw [hd]; exact (due_iff d _ _ t).2 hdue⟩

/-- … at run level: every `deadlineDue` of the trace is a fired `timeout` of the run -/
theorem deadlineDue_in_trace (v : Variant) (cfg : TCfg) (s : TState) (es : List TEvent)
    (h : ∃ m ∈ traceV v cfg s es, isDue m = true) :
    ∃ pre t post, es = pre ++ .timeout t :: post ∧ firesDue cfg (runV v cfg s pre) t = true := by
  induction es generalizing s with
  | nil => obtain ⟨m, hm, _⟩ := h; simp [traceV] at hm
  | cons e es ih =>
    obtain ⟨m, hm, hdue⟩ := h
    rw [traceV_cons] at hm
    rcases List.mem_append.1 hm with hm | hm
    · have hm' : msgOf cfg s e = some m := by simpa using hm
      have : m = .deadlineDue := by cases m <;> first | rfl | cases hdue
      subst this
      obtain ⟨t, rfl, hf⟩ := (msgOf_deadlineDue_iff cfg s e).1 hm'
      exact ⟨[], t, es, rfl, hf⟩
    · obtain ⟨pre, t, post, rfl, hf⟩ := ih (stepV v cfg s e) ⟨m, hm, hdue⟩
      exact ⟨e :: pre, t, post, rfl, hf⟩

/-- so the untimed C13 theorems transfer to timed runs.  C13/1: the timed worker survives every event sequence -/
theorem timed_worker_total (v : Variant) (cfg : TCfg) (s : TState) (es : List TEvent) (halive : s.alive = true) :
    (runV v cfg s es).alive = true := by
  have h := timed_refines_untimed v cfg s es
  have h2 := worker_total_fixed cfg.lim (erase s) (traceV v cfg s es) halive
  have : (erase (runV v cfg s es)).alive = true := by rw [h]; exact h2
  exact this

/-- C13/2 transferred: a `TryUpdateActiveBlob` received at any time by a live timed worker whose active blob is
    at the record limit rotates it, and the closed blob's index dump is either running or registered -/
theorem timed_overflow_switches (v : Variant) (cfg : TCfg) (s : TState) (a : Blob) (t : Nat)
    (halive : s.alive = true) (ht : s.now ≤ t) (hact : s.store.active = some a) (hfull : cfg.lim.maxCount ≤ a.count) :
    let s' := stepV v cfg s (.recv t .tryUpdateActiveBlob none)
    s'.alive = true ∧
    s'.store.active = some { id := s.store.nextId, recs := [] } ∧
    a ∈ s'.store.closed ∧
    (s'.dumpRunning = true ∨ s'.deferredInfo.isSome = true) := by
  have hen : enabled s (.recv t .tryUpdateActiveBlob none) = true := by simp [enabled, halive, TEvent.time, ht]
  have hm : msgOf cfg s (.recv t .tryUpdateActiveBlob none) = some tryUpdate := by simp [msgOf, hen]
  have h := timed_step_refines_untimed v cfg s (.recv t .tryUpdateActiveBlob none)
  rw [hm] at h
  have h2 := overflow_switches_fixed cfg.lim (erase s) a halive hact hfull
  simp only at h h2
  rw [← h] at h2
  exact ⟨h2.1, h2.2.1, h2.2.2.2.2.1, h2.2.2.2.2.2⟩

/-- C13/7.4, the converse (all variants, any state): with a record registered AND a deadline armed, the untimed
    `deadlineDue` is enabled after at most two elapsing deadlines, without any message … -/
theorem deadlineDue_eventually_enabled_of_armed (v : Variant) (cfg : TCfg) (s : TState) (halive : s.alive = true)
    (hdef : (erase s).deferred = true) (harmed : s.nextDeadline.isSome = true) :
    ∃ es : List TEvent, es.length ≤ 2 ∧ (∀ e ∈ es, ∃ t, e = .timeout t) ∧ traceV v cfg s es = [.deadlineDue] := by
  have hdef' : s.deferredInfo.isSome = true := hdef
  cases hd : s.deferredInfo with
  | none => rw [hd] at hdef'; cases hdef'
  | some d =>
    cases hn : s.nextDeadline with
    | none => rw [hn] at harmed; cases harmed
    | some dl => exact due_within_two_timeouts v cfg s halive d dl hd hn

/-- … hence, by (1), always in the repaired variant: whenever the untimed model could take `deadlineDue`
    (`deferred = true`), the timed one gets there by itself -/
theorem deadlineDue_eventually_enabled (cfg : TCfg) (s : TState) (h : Reachable .repaired cfg s)
    (halive : s.alive = true) (hdef : (erase s).deferred = true) :
    ∃ es : List TEvent, es.length ≤ 2 ∧ (∀ e ∈ es, ∃ t, e = .timeout t) ∧
      traceV .repaired cfg s es = [.deadlineDue] :=
  deadlineDue_eventually_enabled_of_armed .repaired cfg s halive hdef (deferred_has_deadline cfg s h hdef)

example : (erase (runRepaired cfgT tInit lostEvents)).deferred = true := by decide

/-- … and NOT in the shipped code: in the reachable state after `lostEvents` the untimed model has
    `deferred = true`, yet no continuation without a message ever contains `deadlineDue` -/
theorem deadlineDue_eventually_enabled_refuted :
    (erase (run cfgT tInit lostEvents)).deferred = true ∧
    ∀ es : List TEvent, (∀ e ∈ es, e.noRecv = true) →
      ∀ m ∈ traceV .shipped cfgT (run cfgT tInit lostEvents) es, isDue m = false := by
  refine ⟨by decide, ?_⟩
  intro es hes
  exact (noDeadline_runV .shipped cfgT _ es (by decide) hes).2.2.2

end Timed

/-
C13, NOT YET PROVED / out of the model:
* the timed model makes one loop iteration atomic (every `Instant::now()` inside it reads the event's time stamp)
  and lets any `recv` pre-empt an elapsed deadline (`Timeout` polls `recv()` first), so starvation of
  `process_defered` by a permanently non-empty queue is allowed by the model and not excluded by any theorem;
* `deferred_has_deadline`, `deferred_dump_retried`, `deadlineDue_eventually_enabled` are about
  `Variant.repaired`, which is NOT the shipped code: for /repo HEAD they are refuted
  (`deferred_has_deadline_refuted`, `deferred_dump_retry_lost`, `deadlineDue_eventually_enabled_refuted`) and
  replaced by `deferred_has_deadline_partial` / `deferred_rearmed_by_next_delete` / `orphan_is_fresh`;
* the fsync task has no timing of its own; I/O failures inside the spawned tasks are not injected here.
-/

end C13
end Pearl
