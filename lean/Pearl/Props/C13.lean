import Pearl.Proofs.WorkerLemmas
/-
C13 — background maintenance stays alive: rotation continues and close terminates.

Every statement is a schema in the error policy `p : ErrorPolicy` of the worker loop
(`processMsgWith p`, `runWorkerWith p`):

* `ErrorPolicy.panic`          = `processMsg` / `runWorker`           = the loop before /repo 33c2a77
                                                                        (`process_msg(msg).await?`, `panic!`);
* `ErrorPolicy.logAndContinue` = `processMsgFixed` / `runWorkerFixed` = the loop since /repo 33c2a77
                                                                        (the code as it is now).

`CURRENT` (end of the file) names the policy the shipped code implements; the main theorems
`worker_total`, `overflow_switches`, `no_switch_below_limit`, `dumps_complete`, `close_terminates` are stated
about it.  The theorems that hold for every policy are proved once for `p` (`*_with`); `worker_total` holds only
for `logAndContinue` and is refuted for `panic` (`worker_total_refuted_before_fix`, kept as the recorded
witness of the defect).
-/
namespace Pearl
namespace C13

open Worker

/-! ## statement schemas -/

/-- the worker survives every message sequence -/
def WorkerTotal (p : ErrorPolicy) : Prop :=
  ∀ (lim : Limits) (st : WState) (msgs : List Msg), st.alive = true → (runWorkerWith p lim st msgs).alive = true

/-- a `TryUpdateActiveBlob` message that arrives at a live worker -/
abbrev tryUpdate : Msg := .op .tryUpdateActiveBlob none
abbrev tryDump : Msg := .op .tryDumpBlobIndexes none

/-! ## the `?`-propagating loop (before the repair): `worker_total` is false -/

/-- a storage without an active blob (e.g. right after `init_lazy`, or after `try_close_active_blob`) -/
def noActive : WState := { store := {} }

/-- a storage right after `init`: one empty active blob -/
def fresh : WState := { store := ({} : Store).createActive }

def lim2 : Limits := { maxCount := 2, maxSize := 1000 }

/-- `worker_total` for the `?`-propagating loop, i.e. `∀ st msgs, st.alive → (runWorker st msgs).alive`, is refuted:
    `close_active_blob_in_background()` on a storage without an active blob kills the worker
    (`Inner::close_active_blob` returns `ActiveBlobDoesntExist`, `?` in `process_msg`, `?` in `tick`,
    `panic!` in `run`). -/
theorem worker_total_refuted_before_fix :
    ¬ (∀ (lim : Limits) (st : WState) (msgs : List Msg), st.alive = true → (runWorker lim st msgs).alive = true) := by
  intro h
  have := h lim2 noActive [.op .closeActiveBlob none] rfl
  exact absurd this (by decide)

theorem worker_total_refuted_before_fix' : ¬ WorkerTotal .panic := worker_total_refuted_before_fix

/-- the same with `create_active_blob_in_background()` on a freshly initialised storage (which has an
    active blob): `ActiveBlobExists` -/
theorem worker_dies_on_create_before_fix :
    (runWorker lim2 fresh [.op .createActiveBlob none]).alive = false := by decide

/-- the same with `restore_active_blob_in_background()` while an active blob exists: `ActiveBlobExists` -/
theorem worker_dies_on_restore_before_fix :
    (runWorker lim2 fresh [.op .restoreActiveBlob none]).alive = false := by decide

/-- … and with nothing to restore: `Uninitialized` -/
theorem worker_dies_on_restore_empty_before_fix :
    (runWorker lim2 noActive [.op .restoreActiveBlob none]).alive = false := by decide

/-- the three failing arms are exactly the ones that kill the worker -/
theorem worker_dies_iff_error_before_fix (lim : Limits) (st : WState) (m : Msg) (ha : st.alive = true) :
    (processMsg lim st m).alive = false ↔ ∃ e, processE lim st m = .error e := by
  constructor
  · intro h
    cases he : processE lim st m with
    | error e => exact ⟨e, rfl⟩
    | ok w' =>
      have h1 : processMsg lim st m = w' := processMsgWith_ok .panic lim st w' m ha he
      have h2 := processE_alive he
      rw [h1, h2, ha] at h
      cases h
  · rintro ⟨e, he⟩
    exact processMsgWith_panic_error lim st m e ha he

/-- a full active blob -/
def fullBlob : Blob :=
  { id := 0, recs := [{ key := 1, ts := 1, del := false, mt := none, data := ⟨3, 0⟩ },
                      { key := 2, ts := 2, del := false, mt := none, data := ⟨3, 0⟩ }] }

def fullSt : WState := { store := { active := some fullBlob, nextId := 1 } }

/-- consequence: rotation stops.  One stray `create_active_blob_in_background()` and the full active blob
    is never replaced, whatever is sent afterwards. -/
theorem rotation_stops_before_fix :
    (runWorker lim2 fullSt [.op .createActiveBlob none, tryUpdate]).store.active = some fullBlob := by decide

/-- … and stays stopped for every later message sequence -/
theorem rotation_stops_forever_before_fix (msgs : List Msg) :
    (runWorker lim2 fullSt (.op .createActiveBlob none :: msgs)).store.active = some fullBlob := by
  show (runWorkerWith .panic lim2 (processMsgWith .panic lim2 fullSt (.op .createActiveBlob none)) msgs).store.active = _
  rw [runWorkerWith_dead _ _ _ _ (by decide)]
  decide

/-! ## the repaired loop (the code as it is now) -/

/-- C13/1: the worker survives every message sequence -/
theorem worker_total_fixed : WorkerTotal .logAndContinue := by
  intro lim st msgs
  induction msgs generalizing st with
  | nil => intro h; exact h
  | cons m ms ih =>
    intro h
    rw [runWorkerWith_cons]
    exact ih _ (processMsgWith_continue_alive lim st m h)

/-- unfolded form of `worker_total_fixed` -/
theorem worker_total_fixed' (lim : Limits) (st : WState) (msgs : List Msg) (h : st.alive = true) :
    (runWorkerFixed lim st msgs).alive = true := worker_total_fixed lim st msgs h

-- non-vacuity: the sequence that refutes the old loop is survived, and the state is untouched
example : (runWorkerFixed lim2 noActive [.op .closeActiveBlob none]).alive = true := by decide
example : (runWorkerFixed lim2 noActive [.op .closeActiveBlob none]).store.active = none := by decide
example : (runWorkerFixed lim2 fresh [.op .createActiveBlob none, .op .restoreActiveBlob none]).store.nextId = 1 := by decide

/-- a failed message changes nothing (state unchanged on error) -/
theorem failed_msg_is_noop_fixed (lim : Limits) (st : WState) (m : Msg) (e : ErrKind)
    (he : processE lim st m = .error e) : processMsgFixed lim st m = st :=
  processMsgWith_continue_error lim st m e he

example : processE lim2 noActive (.op .closeActiveBlob none) = .error .activeBlobDoesntExist := rfl

/-- the messages that can fail at all: `CreateActiveBlob` / `CloseActiveBlob` / `RestoreActiveBlob` whose
    precondition does not hold.  Everything else — in particular `process_defered`, whose `?` still leads to
    the `panic!` in `run` — always succeeds in the model. -/
theorem failing_messages {lim : Limits} {st : WState} {m : Msg} {e : ErrKind} (h : processE lim st m = .error e) :
    ∃ pred,
      (m = .op .createActiveBlob pred ∧ st.store.tryCreateActive = .error e) ∨
      (m = .op .closeActiveBlob pred ∧ st.store.closeActive = .error e) ∨
      (m = .op .restoreActiveBlob pred ∧ st.store.restoreActive = .error e) := by
  cases m with
  | op t pred =>
    refine ⟨pred, ?_⟩
    rcases processOp_error_arms h with ⟨rfl, h'⟩ | ⟨rfl, h'⟩ | ⟨rfl, h'⟩
    · exact Or.inl ⟨rfl, h'⟩
    · exact Or.inr (Or.inl ⟨rfl, h'⟩)
    · exact Or.inr (Or.inr ⟨rfl, h'⟩)
  | deadlineDue => cases h
  | dumpDone => cases h
  | fsyncDone => cases h

example : processE lim2 fresh (.op .createActiveBlob none) = .error .activeBlobExists := rfl
example : processE lim2 noActive (.op .restoreActiveBlob none) = .error .uninitialized := rfl

/-! ## statements that hold for every policy (hence for both `processMsg` and `processMsgFixed`) -/

/-- what `tryUpdate` does to a live worker whose active blob is full -/
theorem overflow_switches_with (p : ErrorPolicy) (lim : Limits) (st : WState) (a : Blob)
    (halive : st.alive = true) (hact : st.store.active = some a) (hfull : lim.full a = true) :
    let st' := processMsgWith p lim st tryUpdate
    st'.alive = true ∧
    st'.store.active = some { id := st.store.nextId, recs := [] } ∧
    st'.store.nextId = st.store.nextId + 1 ∧
    st'.store.slots = st.store.slots ++ [some a] ∧
    a ∈ st'.store.closed ∧
    (st'.dumpRunning = true ∨ st'.deferred = true) := by
  have hE : ∃ w', processE lim st tryUpdate = .ok w' ∧ w'.alive = true ∧ w'.store = st.store.replaceActive ∧
      (w'.dumpRunning = true ∨ w'.deferred = true) := by
    simp only [processE, processOp, predOk, tryUpdateActive, hact, hfull]
    simp only [Bool.not_true, Bool.false_eq_true, ↓reduceIte]
    by_cases hd : st.deferred = true
    · simp [hd, deferDump, halive]
    · simp only [hd]
      by_cases hr : st.dumpRunning = true
      · simp [tryRunDump, hr, deferDump, halive]
      · simp [tryRunDump, hr, halive]
  obtain ⟨w', he, hal, hst, hdump⟩ := hE
  have : processMsgWith p lim st tryUpdate = w' := processMsgWith_ok p lim st w' _ halive he
  simp only [this]
  refine ⟨hal, ?_, ?_, ?_, ?_, hdump⟩
  · rw [hst]; simp [Store.replaceActive, Store.createActive, hact]
  · rw [hst]; simp [Store.replaceActive, Store.createActive, hact]
  · rw [hst]; simp [Store.replaceActive, Store.createActive, hact]
  · rw [hst]; simp [Store.closed, Store.replaceActive, Store.createActive, hact]

/-- C13/2: a live worker that receives `TryUpdateActiveBlob` while the active blob is at or over the record
    limit installs a fresh empty active blob whose id is the old `nextId`, and the old one is among the
    closed blobs -/
theorem overflow_switches_fixed (lim : Limits) (st : WState) (a : Blob)
    (halive : st.alive = true) (hact : st.store.active = some a) (hfull : lim.maxCount ≤ a.count) :
    let st' := processMsgFixed lim st tryUpdate
    st'.alive = true ∧
    st'.store.active = some { id := st.store.nextId, recs := [] } ∧
    st'.store.nextId = st.store.nextId + 1 ∧
    st'.store.slots = st.store.slots ++ [some a] ∧
    a ∈ st'.store.closed ∧
    (st'.dumpRunning = true ∨ st'.deferred = true) :=
  overflow_switches_with .logAndContinue lim st a halive hact (by simp [Limits.full, hfull])

/-- the same for the size limit -/
theorem overflow_switches_size_fixed (lim : Limits) (st : WState) (a : Blob)
    (halive : st.alive = true) (hact : st.store.active = some a) (hfull : lim.maxSize ≤ a.fileSize) :
    let st' := processMsgFixed lim st tryUpdate
    st'.store.active = some { id := st.store.nextId, recs := [] } ∧ a ∈ st'.store.closed :=
  let h := overflow_switches_with .logAndContinue lim st a halive hact (by simp [Limits.full, hfull])
  ⟨h.2.1, h.2.2.2.2.1⟩

-- non-vacuity: the hypotheses are satisfiable and the switch is visible
example : fullSt.alive = true ∧ fullSt.store.active = some fullBlob ∧ lim2.maxCount ≤ fullBlob.count := by decide
example : (processMsgFixed lim2 fullSt tryUpdate).store.active = some { id := 1, recs := [] } := by decide
example : (processMsgFixed lim2 fullSt tryUpdate).store.closed = [fullBlob] := by decide
example : (processMsgFixed lim2 fullSt tryUpdate).dumpRunning = true := by decide

/-- C13/3 (rotation continues): after ANY message sequence the repaired worker still rotates a full blob -/
theorem rotation_continues_fixed (lim : Limits) (st : WState) (msgs : List Msg) (a : Blob)
    (halive : st.alive = true)
    (hact : (runWorkerFixed lim st msgs).store.active = some a) (hfull : lim.maxCount ≤ a.count) :
    let st1 := runWorkerFixed lim st msgs
    let st2 := runWorkerFixed lim st (msgs ++ [tryUpdate])
    st2.store.active = some { id := st1.store.nextId, recs := [] } ∧ a ∈ st2.store.closed := by
  have h1 := worker_total_fixed lim st msgs halive
  have h := overflow_switches_fixed lim (runWorkerFixed lim st msgs) a h1 hact hfull
  simp only [runWorkerFixed, runWorkerWith_append]
  exact ⟨h.2.1, h.2.2.2.2.1⟩

-- non-vacuity: the sequence that stopped rotation in the old loop does not stop it any more
example : (runWorkerFixed lim2 fullSt ([.op .createActiveBlob none] ++ [tryUpdate])).store.active
    = some { id := 1, recs := [] } := by decide

/-- C13/4: below both limits `TryUpdateActiveBlob` changes nothing (any policy) -/
theorem no_switch_below_limit_with (p : ErrorPolicy) (lim : Limits) (st : WState) (a : Blob)
    (hact : st.store.active = some a) (hc : a.count < lim.maxCount) (hs : a.fileSize < lim.maxSize) :
    processMsgWith p lim st tryUpdate = st := by
  have hnf : lim.full a = false := by
    simp only [Limits.full, Bool.or_eq_false_iff, decide_eq_false_iff_not]
    omega
  unfold processMsgWith
  split
  · rfl
  · simp [processE, processOp, predOk, tryUpdateActive, hact, hnf]

theorem no_switch_below_limit (lim : Limits) (st : WState) (a : Blob)
    (hact : st.store.active = some a) (hc : a.count < lim.maxCount) (hs : a.fileSize < lim.maxSize) :
    processMsgFixed lim st tryUpdate = st :=
  no_switch_below_limit_with .logAndContinue lim st a hact hc hs

/-- without an active blob nothing is switched either -/
theorem no_switch_without_active_with (p : ErrorPolicy) (lim : Limits) (st : WState)
    (hact : st.store.active = none) : processMsgWith p lim st tryUpdate = st := by
  unfold processMsgWith
  split
  · rfl
  · simp [processE, processOp, predOk, tryUpdateActive, hact]

-- non-vacuity
def halfBlob : Blob := { id := 0, recs := [{ key := 1, ts := 1, del := false, mt := none, data := ⟨3, 0⟩ }] }
def halfSt : WState := { store := { active := some halfBlob, nextId := 1 } }
example : halfSt.store.active = some halfBlob ∧ halfBlob.count < lim2.maxCount ∧ halfBlob.fileSize < lim2.maxSize := by
  decide
example : (processMsgFixed lim2 halfSt tryUpdate).store.active = some halfBlob := by decide

/-- C13/5: after `TryDumpBlobIndexes` and the completion of the dump task every closed non-empty blob has its
    index on disk (any policy; the worker only has to be alive) -/
theorem dumps_complete_with (p : ErrorPolicy) (lim : Limits) (st : WState) (halive : st.alive = true) :
    let st1 := processMsgWith p lim st tryDump
    let st2 := processMsgWith p lim st1 .dumpDone
    st1.dumpRunning = true ∧ st2.dumpRunning = false ∧
    st2.store.active = st.store.active ∧
    ∀ b ∈ st2.store.closed, b.recs ≠ [] → b.onDisk = true := by
  have h1 : processMsgWith p lim st tryDump = (tryRunDump st).1 :=
    processMsgWith_ok p lim st _ _ halive (by simp [processE, processOp, predOk])
  have hr := tryRunDump_dumpRunning st
  have hs := tryRunDump_store st
  have ha : (tryRunDump st).1.alive = true := by rw [tryRunDump_alive]; exact halive
  have h2 : processMsgWith p lim (tryRunDump st).1 .dumpDone =
      { (tryRunDump st).1 with store := (tryRunDump st).1.store.settle, dumpRunning := false } :=
    processMsgWith_ok p lim _ _ _ ha (by simp [processE, hr])
  simp only [h1, h2, hs]
  refine ⟨hr, trivial, rfl, ?_⟩
  intro b hb hne
  exact settle_onDisk hb hne

theorem dumps_complete (lim : Limits) (st : WState) (halive : st.alive = true) :
    let st2 := processMsgFixed lim (processMsgFixed lim st tryDump) .dumpDone
    ∀ b ∈ st2.store.closed, b.recs ≠ [] → b.onDisk = true :=
  (dumps_complete_with .logAndContinue lim st halive).2.2.2

-- non-vacuity: a closed non-empty blob that is not yet on disk gets dumped
def closedSt : WState := { store := { active := none, slots := [some fullBlob], nextId := 1 } }
example : closedSt.store.closed = [fullBlob] ∧ fullBlob.onDisk = false ∧ fullBlob.recs ≠ [] := by decide
example : (processMsgFixed lim2 (processMsgFixed lim2 closedSt tryDump) .dumpDone).store.closed
    = [{ fullBlob with onDisk := true }] := by decide

/-- the dump that follows a switch: in the repaired loop `[tryUpdate, deadlineDue*, dumpDone]` ends with the
    rotated blob dumped — shown on the running example (switch starts the dump at once) -/
example : ((runWorkerFixed lim2 fullSt [tryUpdate, .dumpDone]).store.closed.map (·.onDisk)) = [true] := by decide

/-- C13/5b: the dump that follows a switch.  Whatever the state of the dump machinery when the switch happens
    (a dump in flight, a deferred dump registered, both, neither), after the switch, the end of the dump in
    flight, the deadline of the deferred dump and the end of the dump it starts, the rotated blob is among
    the closed ones and every closed non-empty blob has its index on disk; nothing is left pending. -/
theorem dumps_complete_after_switch_with (p : ErrorPolicy) (lim : Limits) (st : WState) (a : Blob)
    (halive : st.alive = true) (hact : st.store.active = some a) (hfull : lim.full a = true) :
    let st' := runWorkerWith p lim st [tryUpdate, .dumpDone, .deadlineDue, .dumpDone]
    st'.alive = true ∧ st'.deferred = false ∧ st'.dumpRunning = false ∧
    (∃ a' ∈ st'.store.closed, a'.id = a.id ∧ a'.recs = a.recs) ∧
    ∀ b ∈ st'.store.closed, b.recs ≠ [] → b.onDisk = true := by
  obtain ⟨store, alive, deferred, dumpRunning, fsyncRunning⟩ := st
  simp only at halive hact
  subst halive
  have hmem := mem_closed_replaceActive hact
  obtain ⟨a1, ha1, hid1, hrec1⟩ := settle_preserves hmem
  obtain ⟨a2, ha2, hid2, hrec2⟩ := settle_preserves ha1
  cases deferred <;> cases dumpRunning <;>
    simp [runWorkerWith, processMsgWith, processE, processOp, predOk, tryUpdateActive, hact, hfull, tryRunDump,
      deferDump, processDeferred]
  · exact ⟨⟨a1, ha1, hid1, hrec1⟩, fun b hb hne => settle_onDisk hb hne⟩
  · exact ⟨⟨a2, ha2, hid2.trans hid1, hrec2.trans hrec1⟩, fun b hb hne => settle_onDisk hb hne⟩
  · exact ⟨⟨a1, ha1, hid1, hrec1⟩, fun b hb hne => settle_onDisk hb hne⟩
  · exact ⟨⟨a2, ha2, hid2.trans hid1, hrec2.trans hrec1⟩, fun b hb hne => settle_onDisk hb hne⟩

theorem dumps_complete_after_switch (lim : Limits) (st : WState) (a : Blob)
    (halive : st.alive = true) (hact : st.store.active = some a) (hfull : lim.maxCount ≤ a.count) :
    let st' := runWorkerFixed lim st [tryUpdate, .dumpDone, .deadlineDue, .dumpDone]
    (∃ a' ∈ st'.store.closed, a'.id = a.id ∧ a'.recs = a.recs) ∧
    ∀ b ∈ st'.store.closed, b.recs ≠ [] → b.onDisk = true :=
  (dumps_complete_after_switch_with .logAndContinue lim st a halive hact (by simp [Limits.full, hfull])).2.2.2

-- non-vacuity: a dump is in flight AND a deferred dump is registered when the switch happens
example : (runWorkerFixed lim2 { fullSt with deferred := true, dumpRunning := true }
    [tryUpdate, .dumpDone, .deadlineDue, .dumpDone]).store.closed = [{ fullBlob with onDisk := true }] := by decide
-- … and the intermediate state: after the switch the blob is closed but not yet dumped
example : ((runWorkerFixed lim2 { fullSt with deferred := true, dumpRunning := true } [tryUpdate]).store.closed.map
    (·.onDisk)) = [false] := by decide

/-- C13/6 (close terminates), any policy: started alive with `queued` messages in the channel and the sender
    dropped, the `run` loop leaves the `running` phase after at most `queued.length + 1` iterations, having
    computed `shutdownWith` -/
theorem close_terminates_with (p : ErrorPolicy) (lim : Limits) (st : WState) (queued : List Msg)
    (halive : st.alive = true) :
    let c := loopN p lim (queued.length + 1) { w := st, queue := queued, phase := .running }
    c.phase ≠ .running ∧ c.w = shutdownWith p lim st queued := by
  have h := loopN_spec p lim queued st halive
  simp only at h ⊢
  refine ⟨?_, h.1⟩
  rw [h.2]
  split <;> simp

/-- C13/6 for the repaired loop: it reaches `stopped` (never `panicked`), every queued message has been
    consumed by `runWorkerFixed`, and both task handles have been awaited -/
theorem close_terminates (lim : Limits) (st : WState) (queued : List Msg) (halive : st.alive = true) :
    let c := loopN .logAndContinue lim (queued.length + 1) { w := st, queue := queued, phase := .running }
    c.phase = .stopped ∧
    c.w = drain (runWorkerFixed lim st queued) ∧
    c.w.alive = true ∧ c.w.dumpRunning = false ∧ c.w.fsyncRunning = false ∧
    (∀ b ∈ c.w.store.closed, (runWorkerFixed lim st queued).dumpRunning = true → b.recs ≠ [] → b.onDisk = true) := by
  have h := loopN_spec .logAndContinue lim queued st halive
  have hal := worker_total_fixed lim st queued halive
  simp only at h ⊢
  obtain ⟨hw, hp⟩ := h
  rw [hal] at hp
  have hw' : (loopN .logAndContinue lim (queued.length + 1) { w := st, queue := queued, phase := .running }).w =
      drain (runWorkerFixed lim st queued) := by
    rw [hw]; simp [shutdownWith, hal, runWorkerFixed]
  refine ⟨by simpa using hp, hw', ?_, ?_, ?_, ?_⟩
  · rw [hw']; simpa [drain, runWorkerFixed] using hal
  · rw [hw']; rfl
  · rw [hw']; rfl
  · intro b hb hrun hne
    rw [hw'] at hb
    simp only [drain, hrun, ↓reduceIte] at hb
    exact settle_onDisk hb hne

/-- totality of the message loop, said without the machine: the run over a concatenation is the run over the
    parts — every finite message list is consumed -/
theorem runWorker_consumes (p : ErrorPolicy) (lim : Limits) (st : WState) (a b : List Msg) :
    runWorkerWith p lim st (a ++ b) = runWorkerWith p lim (runWorkerWith p lim st a) b :=
  runWorkerWith_append p lim st a b

-- non-vacuity: with a failing message in the queue the repaired loop stops normally and has dumped;
-- the old loop ends in `panicked` and has not
example :
    (loopN .logAndContinue lim2 3 { w := fullSt, queue := [.op .createActiveBlob none, tryUpdate] }).phase = .stopped := by
  decide
example :
    ((loopN .logAndContinue lim2 3 { w := fullSt, queue := [.op .createActiveBlob none, tryUpdate] }).w.store.closed.map
      (·.onDisk)) = [true] := by decide
example :
    (loopN .panic lim2 3 { w := fullSt, queue := [.op .createActiveBlob none, tryUpdate] }).phase = .panicked := by
  decide

/-! ## the policy of the shipped code

Since /repo 33c2a77 the shipped loop is `logAndContinue`.  These are the C13 theorems about the code as it
is; should the loop change again, this is the only place that names the policy. -/

abbrev CURRENT : ErrorPolicy := .logAndContinue

/-- C13/1 -/
theorem worker_total : ∀ (lim : Limits) (st : WState) (msgs : List Msg),
    st.alive = true → (runWorkerWith CURRENT lim st msgs).alive = true :=
  worker_total_fixed

/-- C13/2 -/
theorem overflow_switches (lim : Limits) (st : WState) (a : Blob)
    (halive : st.alive = true) (hact : st.store.active = some a) (hfull : lim.maxCount ≤ a.count) :
    let st' := processMsgWith CURRENT lim st tryUpdate
    st'.alive = true ∧
    st'.store.active = some { id := st.store.nextId, recs := [] } ∧
    st'.store.nextId = st.store.nextId + 1 ∧
    st'.store.slots = st.store.slots ++ [some a] ∧
    a ∈ st'.store.closed ∧
    (st'.dumpRunning = true ∨ st'.deferred = true) :=
  overflow_switches_with CURRENT lim st a halive hact (by simp [Limits.full, hfull])

/-- C13/3 -/
theorem rotation_continues (lim : Limits) (st : WState) (msgs : List Msg) (a : Blob)
    (halive : st.alive = true)
    (hact : (runWorkerWith CURRENT lim st msgs).store.active = some a) (hfull : lim.maxCount ≤ a.count) :
    (runWorkerWith CURRENT lim st (msgs ++ [tryUpdate])).store.active
      = some { id := (runWorkerWith CURRENT lim st msgs).store.nextId, recs := [] } ∧
    a ∈ (runWorkerWith CURRENT lim st (msgs ++ [tryUpdate])).store.closed :=
  rotation_continues_fixed lim st msgs a halive hact hfull

/-- C13/4 -/
theorem no_switch_below_limit_current (lim : Limits) (st : WState) (a : Blob)
    (hact : st.store.active = some a) (hc : a.count < lim.maxCount) (hs : a.fileSize < lim.maxSize) :
    processMsgWith CURRENT lim st tryUpdate = st :=
  no_switch_below_limit_with CURRENT lim st a hact hc hs

/-- C13/5 -/
theorem dumps_complete_current (lim : Limits) (st : WState) (halive : st.alive = true) :
    ∀ b ∈ (processMsgWith CURRENT lim (processMsgWith CURRENT lim st tryDump) .dumpDone).store.closed,
      b.recs ≠ [] → b.onDisk = true :=
  (dumps_complete_with CURRENT lim st halive).2.2.2

/-- C13/6 -/
theorem close_terminates_current (lim : Limits) (st : WState) (queued : List Msg) (halive : st.alive = true) :
    let c := loopN CURRENT lim (queued.length + 1) { w := st, queue := queued, phase := .running }
    c.phase = .stopped ∧ c.w = drain (runWorkerWith CURRENT lim st queued) ∧
    c.w.alive = true ∧ c.w.dumpRunning = false ∧ c.w.fsyncRunning = false :=
  let h := close_terminates lim st queued halive
  ⟨h.1, h.2.1, h.2.2.1, h.2.2.2.1, h.2.2.2.2.1⟩

end C13
end Pearl
