import Pearl.Proofs.CancelLemmas
import Pearl.Proofs.CancelRefine
import Pearl.Proofs.CancelProduct
import Pearl.Props.C05
import Pearl.Props.C06
import Pearl.Props.C11
/-
C14 "Cancellation safety": what a dropped future leaves behind.

Model: Pearl/Model/Cancel.lean (operations as items: await points with the closure handed to
`spawn_blocking`, and the synchronous code between them; `cancelAfter k` = the future is dropped while
suspended at await number `k`).  Lemmas: Pearl/Proofs/CancelLemmas.lean, CancelRefine.lean, CancelProduct.lean.

Views of a state `s : CStore`: `s.toStore` — the L2 store of THIS session (what the in-memory indexes
know; every query of Pearl/Model/Store.lean is a function of it); `s.regen` — the L2 store after a restart
that regenerates every index from its blob file; `CBlob.restartRecs` — the index a restart gives a blob
when an index file is present. `QEq A B` — `A` and `B` answer `read`, `contains`, `readAll`,
`readAllMarked` alike for every key and hold the same number of records.
-/
namespace Pearl.C14
open Pearl Pearl.Cancel

/-! ## the exact set of states a cancelled write can leave -/

/-- Dropping the future of `write_with_optional_meta` at any await leaves one of:
    `s0` (nothing happened); while the active blob is being created: `sFile` (blob id used up, a 0-byte
    blob file in the directory) or `sHdr` (the file has its header, the blob is not installed);
    `afterCreate` (the new active blob is installed, nothing written); `sOrphan` — ONLY when the record is
    written by a detached closure (current-thread runtime or more than 81 920 bytes): the record's bytes
    are in the blob file, the index does not know it; `sFull` (the write took effect). -/
theorem cancel_write_states (c : Cfg) (a : WArgs) (s0 : CStore) (k : Nat) :
    let t := cancelAfter k (writeSegments c a s0) s0
    t = s0 ∨ (s0.active = none ∧ (t = sFile s0 ∨ t = sHdr s0)) ∨ t = afterCreate c s0 ∨
    (isDup c a s0 = false ∧ c.detached (entryLen c a.entry) = true ∧ t = sOrphan c a s0) ∨
    (isDup c a s0 = false ∧ t = sFull c a s0) :=
  write_cancelStates c a s0 _ ⟨k, rfl⟩

/-- the orphan state is reached (at the await of `write_to_file`) whenever the closure is detached -/
theorem orphan_reachable (c : Cfg) (a : WArgs) (s0 : CStore) (hdup : isDup c a s0 = false)
    (hd : c.detached (entryLen c a.entry) = true) :
    ∃ k, cancelAfter k (writeSegments c a s0) s0 = sOrphan c a s0 :=
  write_orphan_reachable c a s0 hdup hd

/-- the operation that is not cancelled is `Store.write` -/
theorem write_completes (c : Cfg) (a : WArgs) (s0 : CStore) :
    (runItems (writeSegments c a s0) s0).toStore = s0.toStore.write a.k a.ts a.m a.d ∧
    ∀ k, awaits (writeSegments c a s0) ≤ k →
      cancelAfter k (writeSegments c a s0) s0 = runItems (writeSegments c a s0) s0 :=
  ⟨write_refines c a s0, fun k hk => cancelAfter_ge _ k s0 hk⟩

/-! ## `cancel_atomic_write` -/

/-- For every cancellation point: (1) in this session the storage answers like the state BEFORE the
    write or is the state AFTER it; (2) so it does after a restart that regenerates the indexes from the
    blob files; (3) the two views agree — both "before" or both "after" — with ONE exception, the orphan
    state: "before" in this session, "after" from the next regenerating start. -/
theorem cancel_atomic_write (c : Cfg) (a : WArgs) (s0 : CStore) (k : Nat) :
    let t := cancelAfter k (writeSegments c a s0) s0
    let full := runItems (writeSegments c a s0) s0
    (QEq s0.toStore t.toStore ∨ t.toStore = full.toStore) ∧
    (QEq s0.regen t.regen ∨ t.regen = full.regen) ∧
    ((QEq s0.toStore t.toStore ∧ QEq s0.regen t.regen) ∨
     (t.toStore = full.toStore ∧ t.regen = full.regen) ∨
     (isDup c a s0 = false ∧ c.detached (entryLen c a.entry) = true ∧ t = sOrphan c a s0 ∧
       QEq s0.toStore t.toStore ∧ t.regen = full.regen)) := by
  intro t full
  have hfull : full = if isDup c a s0 then afterCreate c s0 else sFull c a s0 := write_run c a s0
  have hq1 : QEq s0.toStore (afterCreate c s0).toStore := by
    rw [toStore_afterCreate]; exact qeq_ensureActive _
  have hq2 : QEq s0.regen (afterCreate c s0).regen := by
    rw [regen_afterCreate]; exact qeq_ensureActive _
  have before : QEq s0.toStore t.toStore → QEq s0.regen t.regen →
      (QEq s0.toStore t.toStore ∨ t.toStore = full.toStore) ∧ (QEq s0.regen t.regen ∨ t.regen = full.regen) ∧
      ((QEq s0.toStore t.toStore ∧ QEq s0.regen t.regen) ∨ (t.toStore = full.toStore ∧ t.regen = full.regen) ∨
       (isDup c a s0 = false ∧ c.detached (entryLen c a.entry) = true ∧ t = sOrphan c a s0 ∧
         QEq s0.toStore t.toStore ∧ t.regen = full.regen)) :=
    fun h1 h2 => ⟨Or.inl h1, Or.inl h2, Or.inl ⟨h1, h2⟩⟩
  rcases cancel_write_states c a s0 k with h | ⟨_, h | h⟩ | h | ⟨hdup, hd, h⟩ | ⟨hdup, h⟩
  · exact before (by rw [show t = s0 from h]; exact QEq.refl _) (by rw [show t = s0 from h]; exact QEq.refl _)
  · exact before (by rw [show t = sFile s0 from h, toStore_sFile]; exact qeq_bump _)
      (by rw [show t = sFile s0 from h, regen_sFile]; exact qeq_bump _)
  · exact before (by rw [show t = sHdr s0 from h, toStore_sHdr]; exact qeq_bump _)
      (by rw [show t = sHdr s0 from h, regen_sHdr]; exact qeq_bump _)
  · exact before (by rw [show t = afterCreate c s0 from h]; exact hq1)
      (by rw [show t = afterCreate c s0 from h]; exact hq2)
  · have ht : t = sOrphan c a s0 := h
    have hf : full = sFull c a s0 := by rw [hfull, hdup]; rfl
    have h1 : QEq s0.toStore t.toStore := by rw [ht, toStore_sOrphan]; exact hq1
    have h2 : t.regen = full.regen := by rw [ht, hf]; exact regen_sOrphan c a s0
    exact ⟨Or.inl h1, Or.inr h2, Or.inr (Or.inr ⟨hdup, hd, ht, h1, h2⟩)⟩
  · have ht : t = sFull c a s0 := h
    have hf : full = sFull c a s0 := by rw [hfull, hdup]; rfl
    have : t = full := by rw [ht, hf]
    exact ⟨Or.inr (by rw [this]), Or.inr (by rw [this]), Or.inr (Or.inl ⟨by rw [this], by rw [this]⟩)⟩

/-- without a detached closure (multi-thread runtime and a record of at most 81 920 bytes) the
    exception does not exist: every cancellation leaves "before" or "after" in both views -/
theorem cancel_atomic_write_inline (c : Cfg) (a : WArgs) (s0 : CStore) (k : Nat)
    (hd : c.detached (entryLen c a.entry) = false) :
    let t := cancelAfter k (writeSegments c a s0) s0
    let full := runItems (writeSegments c a s0) s0
    (QEq s0.toStore t.toStore ∧ QEq s0.regen t.regen) ∨ (t.toStore = full.toStore ∧ t.regen = full.regen) := by
  intro t full
  rcases (cancel_atomic_write c a s0 k).2.2 with h | h | ⟨_, hd', _⟩
  · exact Or.inl h
  · exact Or.inr h
  · rw [hd] at hd'; cases hd'

/-! ## the exception, exactly -/

/-- The orphan state at the file level: the active blob's file is the file BEFORE the write plus the
    complete image of the record (it still parses completely), the reservation counter has no gap, the
    in-memory index is unchanged. -/
theorem orphan_state (c : Cfg) (a : WArgs) (s0 : CStore) (hinv : StoreInv c s0) :
    ∃ b, (afterCreate c s0).active = some b ∧
      (sOrphan c a s0).active = some (b.fileWrite c a.entry) ∧
      (b.fileWrite c a.entry).idx = b.idx ∧
      (b.fileWrite c a.entry).frecs = b.frecs ++ [a.entry] ∧
      (b.fileWrite c a.entry).file.bytes = blobBytes c.klen (b.frecs ++ [a.entry]) ∧
      (b.fileWrite c a.entry).file.size = (b.fileWrite c a.entry).file.bytes.length := by
  obtain ⟨b, hb⟩ := afterCreate_active c s0
  have hbi := (hinv.afterCreate (c := c)).active b hb
  refine ⟨b, hb, ?_, rfl, rfl, (hbi.fileWrite a.entry).bytes, (hbi.fileWrite a.entry).size⟩
  unfold sOrphan CStore.onActive; rw [hb]; rfl

/-- the index a restart gives a blob that has no index file: regenerated — the orphan record is in it -/
theorem orphan_visible_after_regen (c : Cfg) (x : RecB) (b : CBlob) (hf : b.idxFile = none) :
    (b.fileWrite c x).restartRecs = b.frecs.map (·.1) ++ [x.1] := by
  unfold CBlob.restartRecs CBlob.fileWrite
  simp [hf]

/-- ... but if the in-memory index (which does not know the orphan) is dumped first, the index file
    carries `blob_size` = the size of the file INCLUDING the orphan record, so the next start accepts it,
    and the record stays invisible until some later start regenerates the index -/
theorem orphan_hidden_by_dump (c : Cfg) (x : RecB) (b : CBlob) (hinv : BlobInv c b)
    (hd : b.onDisk = false) (hne : b.idx ≠ []) :
    ((b.fileWrite c x).dump).idxFile = some (b.idx, (b.fileWrite c x).file.bytes.length) ∧
    ((b.fileWrite c x).dump).restartRecs = b.idx.map (·.1.1) := by
  have hs := (hinv.fileWrite x).size
  have hidx : (b.fileWrite c x).idx = b.idx := rfl
  have hod : (b.fileWrite c x).onDisk = false := hd
  have hdump : (b.fileWrite c x).dump =
      { b.fileWrite c x with onDisk := true, idxFile := some (b.idx, (b.fileWrite c x).file.size) } := by
    unfold CBlob.dump
    rw [hod, hidx]
    have : b.idx.isEmpty = false := by cases h : b.idx with
      | nil => exact absurd h hne
      | cons _ _ => rfl
    rw [this]; rfl
  rw [hdump]
  refine ⟨by rw [hs], ?_⟩
  unfold CBlob.restartRecs
  simp only [hs, ↓reduceIte]

/-- with an EMPTY in-memory index no index file is written (`dump_in_memory` returns `Ok(0)`), so an
    orphan that is the only record of its blob is indexed at the next start -/
theorem orphan_alone_visible (c : Cfg) (x : RecB) (b : CBlob) (hf : b.idxFile = none) (he : b.idx = []) :
    ((b.fileWrite c x).dump).restartRecs = b.frecs.map (·.1) ++ [x.1] := by
  have : (b.fileWrite c x).dump = b.fileWrite c x := by
    unfold CBlob.dump
    have : (b.fileWrite c x).idx = [] := he
    rw [this]; simp
  rw [this]
  exact orphan_visible_after_regen c x b hf

/-! ## `no_reserved_gap`, `parses_after_restart` -/

/-- every state a cancelled or completed write leaves keeps the invariant -/
theorem write_cancel_keeps_inv (c : Cfg) (a : WArgs) (s0 : CStore) (k : Nat) (hinv : StoreInv c s0)
    (hm : (serMeta a.entry.1.mt).length < 2 ^ 64) :
    StoreInv c (cancelAfter k (writeSegments c a s0) s0) :=
  write_cancel_inv c a s0 _ hinv hm ⟨k, rfl⟩

/-- cancellation never leaves a reservation gap: in every blob file of every cancel state the
    reservation counter equals the length of the file. (A gap appears only when a pwrite FAILS:
    `Pearl.C11.write_never_touches_reserved`, example below.) -/
theorem no_reserved_gap (c : Cfg) (a : WArgs) (s0 : CStore) (k : Nat) (hinv : StoreInv c s0)
    (hm : (serMeta a.entry.1.mt).length < 2 ^ 64) :
    let t := cancelAfter k (writeSegments c a s0) s0
    (∀ b, t.active = some b → b.file.size = b.file.bytes.length) ∧
    (∀ b, some b ∈ t.slots → b.file.size = b.file.bytes.length) ∧
    (∀ p ∈ t.stray, p.2.size = p.2.bytes.length) := by
  intro t
  have h := write_cancel_keeps_inv c a s0 k hinv hm
  exact ⟨fun b hb => (h.active b hb).size, fun b hb => (h.closed b hb).size, fun p hp => (h.stray p hp).2⟩

/-- start-up on the file of a blob that satisfies the invariant: it is the blob of its record list, it
    is opened (never quarantined, never a failure) with exactly the headers of that list, and every one
    of those records loads with its bytes -/
theorem blob_parses (c : Cfg) (v : Bool) (b : CBlob) (hinv : BlobInv c b)
    (hlen : (blobBytes c.klen b.frecs).length < 2 ^ 64) (hts : ∀ x ∈ b.frecs, x.1.ts < 2 ^ 64) :
    b.file.bytes = blobBytes c.klen b.frecs ∧
    openBlob c.klen v b.file.bytes = .ok (blobHeaders c.klen b.frecs) ∧
    ∀ (i : Nat) (h : RecHeader) (r : Rec) (d : List UInt8),
      (blobHeaders c.klen b.frecs)[i]? = some h → b.frecs[i]? = some (r, d) →
      entryLoad b.file.bytes h = .ok (serMeta r.mt, if r.del then [] else d) := by
  refine ⟨hinv.bytes, ?_, ?_⟩
  · rw [hinv.bytes]
    exact Fault.openBlob_appendRecords v _ (goodRecs_recordsOf c.klen b.frecs hts) hlen
  · intro i h r d hh hr
    rw [hinv.bytes]
    exact (C05.load_roundtrip c.klen b.frecs hlen i h r d hh hr).1

/-- `parses_after_restart`: after any cancellation of a write, every blob file that belongs to the
    storage is `blobBytes` of a record list and start-up opens it with the headers of that list; a file
    left by a cancelled creation is empty (quarantined at start-up) or a bare header (opened empty) -/
theorem parses_after_restart (c : Cfg) (v : Bool) (a : WArgs) (s0 : CStore) (k : Nat)
    (hinv : StoreInv c s0) (hm : (serMeta a.entry.1.mt).length < 2 ^ 64) :
    let t := cancelAfter k (writeSegments c a s0) s0
    (∀ b, (t.active = some b ∨ some b ∈ t.slots) →
      (blobBytes c.klen b.frecs).length < 2 ^ 64 → (∀ x ∈ b.frecs, x.1.ts < 2 ^ 64) →
      b.file.bytes = blobBytes c.klen b.frecs ∧
      openBlob c.klen v b.file.bytes = .ok (blobHeaders c.klen b.frecs)) ∧
    (∀ p ∈ t.stray, (p.2.bytes = [] ∧ openBlob c.klen v p.2.bytes = .quarantine) ∨
      (p.2.bytes = blobBytes c.klen [] ∧ openBlob c.klen v p.2.bytes = .ok [])) := by
  intro t
  have h := write_cancel_keeps_inv c a s0 k hinv hm
  refine ⟨?_, ?_⟩
  · intro b hb hlen hts
    have hbi : BlobInv c b := by
      rcases hb with hb | hb
      · exact h.active b hb
      · exact h.closed b hb
    have := blob_parses c v b hbi hlen hts
    exact ⟨this.1, this.2.1⟩
  · intro p hp
    rcases (h.stray p hp).1 with h0 | h1
    · left; rw [h0]; exact ⟨rfl, openBlob_short c.klen v [] (by decide)⟩
    · right; rw [h1]; exact ⟨rfl, openBlob_header_only c.klen v⟩

/-- FALSE: "after any cancellation every blob file in the directory is `blobBytes` of a record list".
    A write that has to create the active blob and is dropped at the await of the file creation
    (`OpenOptions::open` runs in `spawn_blocking` and completes) leaves a 0-byte `N.blob`; the blob id is
    used up; the next start-up moves the file to the corrupted directory. -/
theorem cancelled_creation_leaves_empty_file (c : Cfg) (v : Bool) (a : WArgs) (s0 : CStore)
    (hact : s0.active = none) :
    cancelAfter 2 (writeSegments c a s0) s0 = sFile s0 ∧
    (sFile s0).stray = (s0.nextId, ⟨[], 0⟩) :: s0.stray ∧
    (sFile s0).nextId = s0.nextId + 1 ∧
    openBlob c.klen v [] = .quarantine ∧
    ¬ ∃ recs, ([] : List UInt8) = blobBytes c.klen recs := by
  refine ⟨?_, rfl, rfl, openBlob_short c.klen v [] (by decide), ?_⟩
  · rw [writeSegments_eq, cancelAfter_append]
    have hw : writeHead c s0 = createItems c s0.nextId := by unfold writeHead; rw [hact]; rfl
    rw [hw]
    cases hct : c.currentThread <;>
      simp [createItems, openNewItems, hct, awaits, cancelAfter, sFile]
  · rintro ⟨recs, h⟩
    have := congrArg List.length h
    have hge := blobBytes_length_ge c.klen recs
    simp only [List.length_nil] at this
    omega

/-! ## `later_ops_succeed` -/

/-- on ANY state that satisfies the invariant — in particular on every state a cancellation left — a
    write that is not cancelled is `Store.write`, keeps the invariant, and (unless refused as a
    duplicate) its record is the last entry of the active blob's index and loads with its bytes -/
theorem later_write_succeeds (c : Cfg) (a : WArgs) (t : CStore) (hinv : StoreInv c t)
    (hm : (serMeta a.entry.1.mt).length < 2 ^ 64) :
    let t2 := runItems (writeSegments c a t) t
    t2.toStore = t.toStore.write a.k a.ts a.m a.d ∧ StoreInv c t2 ∧
    (isDup c a t = false → ∃ b b', (afterCreate c t).active = some b ∧ t2.active = some b' ∧
      b'.idx = b.idx ++ [(a.entry, b.file.size)] ∧
      entryLoad b'.file.bytes (hdrOf c (a.entry, b.file.size)) =
        .ok (serMeta a.entry.1.mt, (recordOf c.klen a.entry.1 a.entry.2).data)) := by
  intro t2
  have hinv2 : StoreInv c t2 :=
    write_cancel_inv c a t t2 hinv hm ⟨awaits (writeSegments c a t), cancelAfter_ge _ _ _ (Nat.le_refl _)⟩
  refine ⟨write_refines c a t, hinv2, ?_⟩
  intro hdup
  obtain ⟨b, hb⟩ := afterCreate_active c t
  have ht2 : t2 = sFull c a t := by
    show runItems (writeSegments c a t) t = _
    rw [write_run, hdup]; rfl
  have hact : (sFull c a t).active = some ((b.fileWrite c a.entry).push a.entry b.file.size) := by
    rw [sFull_eq]
    unfold CStore.onActive
    rw [hb, Option.map_some, pushWritten_fileWrite]
  refine ⟨b, _, hb, by rw [ht2]; exact hact, rfl, ?_⟩
  have hbi := hinv2.active _ (by rw [ht2]; exact hact)
  exact hbi.loads (a.entry, b.file.size) (by
    show (a.entry, b.file.size) ∈ b.idx ++ [(a.entry, b.file.size)]
    simp)

/-- `later_ops_succeed`: after a write was cancelled at any point, the next write succeeds -/
theorem later_ops_succeed (c : Cfg) (a a2 : WArgs) (s0 : CStore) (k : Nat) (hinv : StoreInv c s0)
    (hm : (serMeta a.entry.1.mt).length < 2 ^ 64) (hm2 : (serMeta a2.entry.1.mt).length < 2 ^ 64) :
    let t := cancelAfter k (writeSegments c a s0) s0
    let t2 := runItems (writeSegments c a2 t) t
    t2.toStore = t.toStore.write a2.k a2.ts a2.m a2.d ∧ StoreInv c t2 ∧
    (isDup c a2 t = false → ∃ b b', (afterCreate c t).active = some b ∧ t2.active = some b' ∧
      b'.idx = b.idx ++ [(a2.entry, b.file.size)] ∧
      entryLoad b'.file.bytes (hdrOf c (a2.entry, b.file.size)) =
        .ok (serMeta a2.entry.1.mt, (recordOf c.klen a2.entry.1 a2.entry.2).data)) :=
  later_write_succeeds c a2 _ (write_cancel_keeps_inv c a s0 k hinv hm) hm2


/-! ## delete -/

/-- One `Blob::delete` (on the active blob, `on = CStore.onActive`, or on the closed blob in slot `i`,
    `on = CStore.onSlot i`) dropped at any await leaves, on its blob: nothing; or — only with a detached
    write closure — the marker's bytes in the file but not in the index (the index, if it was on disk, is
    loaded); or the marker written and indexed. -/
theorem cancel_blob_delete (c : Cfg) (on : (CBlob → CBlob) → CStore → CStore) (a : DArgs) (oip : Bool)
    (b0 : CBlob) (s : CStore) (k : Nat) :
    let t := cancelAfter k (blobDeleteItems c on a oip b0) s
    t = s ∨
    (needMarker a oip b0 = true ∧ c.detached (entryLen c a.entry) = true ∧ t = markerOrphan c on a b0 s) ∨
    (needMarker a oip b0 = true ∧ t = markerDone c on a b0 s) :=
  blobDelete_cancelStates c on a oip b0 s _ ⟨k, rfl⟩

/-- the L2 meaning of those states on the blob itself (`b0` = the blob as `delete` finds it):
    completed = `Store.blobDelete`; orphan marker = unchanged records in this session, the completed
    state after a regenerating restart -/
theorem blob_delete_views (c : Cfg) (a : DArgs) (oip : Bool) (b0 : CBlob) :
    (if needMarker a oip b0 then ((loadedB b0).fileWrite c a.entry).pushWritten c a.entry else b0).toBlob =
      (Store.blobDelete b0.toBlob a.k a.ts a.m oip).1 ∧
    ((loadedB b0).fileWrite c a.entry).toBlob = { b0.toBlob with onDisk := false } ∧
    ((loadedB b0).fileWrite c a.entry).regenBlob =
      (((loadedB b0).fileWrite c a.entry).pushWritten c a.entry).regenBlob :=
  ⟨toBlob_markerDone c a oip b0, toBlob_markerOrphan c a b0⟩

/-- the states a cancelled `Storage::delete` can leave (closed blobs taken one after the other): nothing;
    the leftovers of a cancelled creation of the active blob; the active blob in one of the states of
    `cancel_blob_delete`; or the active blob done, the closed blobs before number `j` done, and closed
    blob `j` in one of the states of `cancel_blob_delete` -/
theorem cancel_delete_states (c : Cfg) (a : DArgs) (s0 : CStore) (k : Nat) :
    let t := cancelAfter k (deleteSegments c a s0) s0
    t = s0 ∨ (needCreate a s0 = true ∧ (t = sFile s0 ∨ t = sHdr s0)) ∨ t = delS1 a s0 ∨
    (∃ b, (delS1 a s0).active = some b ∧ BlobDeleteState c CStore.onActive a a.oip b (delS1 a s0) t) ∨
    t = delS2 c a s0 ∨
    (∃ j, ∃ hj : j < (closedWithSlots (delS1 a s0)).length,
      BlobDeleteState c (CStore.onSlot ((closedWithSlots (delS1 a s0))[j]).1) a true
        ((closedWithSlots (delS1 a s0))[j]).2
        (runItems ((delClosedItems c a (delS1 a s0)).take j).flatten (delS2 c a s0)) t) :=
  delete_cancelStates c a s0 _ ⟨k, rfl⟩

/-- `no_reserved_gap` and `parses_after_restart` for delete: every cancel state keeps the invariant
    (each file is `blobBytes` of its record list, counters without gap, indexed records load) -/
theorem delete_cancel_keeps_inv (c : Cfg) (a : DArgs) (s0 : CStore) (k : Nat) (hinv : StoreInv c s0)
    (hm : (serMeta a.entry.1.mt).length < 2 ^ 64) :
    StoreInv c (cancelAfter k (deleteSegments c a s0) s0) :=
  delete_cancel_inv c a s0 _ hinv hm ⟨k, rfl⟩

/-- a write after a cancelled delete succeeds -/
theorem later_write_after_cancelled_delete (c : Cfg) (a : DArgs) (a2 : WArgs) (s0 : CStore) (k : Nat)
    (hinv : StoreInv c s0) (hm : (serMeta a.entry.1.mt).length < 2 ^ 64)
    (hm2 : (serMeta a2.entry.1.mt).length < 2 ^ 64) :
    let t := cancelAfter k (deleteSegments c a s0) s0
    let t2 := runItems (writeSegments c a2 t) t
    t2.toStore = t.toStore.write a2.k a2.ts a2.m a2.d ∧ StoreInv c t2 :=
  let h := later_write_succeeds c a2 _ (delete_cancel_keeps_inv c a s0 k hinv hm) hm2
  ⟨h.1, h.2.1⟩

/-! ### witnesses (replayable: current-thread runtime, 3-byte keys) -/

def c3 : Cfg := { klen := 3, currentThread := true }
def w1 : WArgs := { k := 1, ts := 5, m := none, d := ⟨2, 0⟩, bytes := [1, 2] }
def w2 : WArgs := { k := 1, ts := 7, m := none, d := ⟨3, 0⟩, bytes := [3, 4, 5] }
/-- `try_close_active_blob` -/
def closeA (s : CStore) : CStore := { s with active := none, slots := s.slots ++ [s.active] }
/-- duplicates allowed: write key 1 (blob 0), close the active blob, write key 1 again (blob 1) -/
def sTwoBlobs : CStore :=
  let s0 : CStore := { allowDup := true }
  let sA := runItems (writeSegments c3 w1 s0) s0
  runItems (writeSegments c3 w2 (closeA sA)) (closeA sA)
def del1 : DArgs := { k := 1, ts := 10, m := none, oip := true }

set_option maxRecDepth 1000000 in
/-- `delete` is NOT atomic across blobs under cancellation: dropped at the await of `blobs.write()`
    (await number 4), the marker is in the active blob and not in the closed blob — a state that is
    neither "before" (2 records) nor "after" (4 records); dropped one await earlier, the active blob's
    marker is an orphan (in the file, not in the index) -/
theorem cancel_delete_not_atomic :
    sTwoBlobs.toStore.recordsCountDetailed = [1, 1] ∧
    (runItems (deleteSegments c3 del1 sTwoBlobs) sTwoBlobs).toStore.recordsCountDetailed = [2, 2] ∧
    (cancelAfter 4 (deleteSegments c3 del1 sTwoBlobs) sTwoBlobs).toStore.recordsCountDetailed = [1, 2] ∧
    (cancelAfter 3 (deleteSegments c3 del1 sTwoBlobs) sTwoBlobs).toStore.recordsCountDetailed = [1, 1] ∧
    (cancelAfter 3 (deleteSegments c3 del1 sTwoBlobs) sTwoBlobs).regen.recordsCountDetailed = [1, 2] ∧
    ¬ (∀ (c : Cfg) (a : DArgs) (s0 : CStore) (k : Nat),
        QEq s0.toStore (cancelAfter k (deleteSegments c a s0) s0).toStore ∨
        (cancelAfter k (deleteSegments c a s0) s0).toStore = (runItems (deleteSegments c a s0) s0).toStore) := by
  have h1 : sTwoBlobs.toStore.recordsCount = 2 := by decide
  have h2 : (runItems (deleteSegments c3 del1 sTwoBlobs) sTwoBlobs).toStore.recordsCount = 4 := by decide
  have h3 : (cancelAfter 4 (deleteSegments c3 del1 sTwoBlobs) sTwoBlobs).toStore.recordsCount = 3 := by decide
  refine ⟨by decide, by decide, by decide, by decide, by decide, ?_⟩
  intro hall
  rcases hall c3 del1 sTwoBlobs 4 with h | h
  · have := h.2.2.2.2.1
    rw [h1, h3] at this
    cases this
  · rw [h] at h3
    rw [h2] at h3
    cases h3

set_option maxRecDepth 1000000 in
/-- a consequence of the orphan state: with duplicates NOT allowed, write key 1 and drop the future at the
    await of `write_to_file` (await number 9 when the active blob has to be created first); write key 1
    again: the duplicate check does not see the orphan, the write is accepted. In this session the blob
    holds one record of key 1; after a restart that regenerates the index it holds two. -/
theorem duplicate_after_orphan :
    let s0 : CStore := {}
    let t := cancelAfter 9 (writeSegments c3 w1 s0) s0
    let t2 := runItems (writeSegments c3 w1 t) t
    s0.allowDup = false ∧ t = sOrphan c3 w1 s0 ∧
    t.toStore.recordsCountDetailed = [0] ∧ t.regen.recordsCountDetailed = [1] ∧
    (t2.toStore.readAll 1).length = 1 ∧ (t2.regen.readAll 1).length = 2 := by
  refine ⟨rfl, by decide, by decide, by decide, by decide, by decide⟩


/-! ## non-vacuity -/

/-- a storage without blobs satisfies the invariant, hence (by `write_cancel_keeps_inv`) so does every
    state reached from it by writes that complete or are cancelled anywhere -/
theorem storeInv_noBlobs (c : Cfg) (s : CStore) (ha : s.active = none) (hs : s.slots = [])
    (hst : s.stray = []) : StoreInv c s := by
  refine ⟨?_, ?_, ?_⟩
  · intro b hb; rw [ha] at hb; cases hb
  · intro b hb; rw [hs] at hb; cases hb
  · intro p hp; rw [hst] at hp; cases hp

example (c : Cfg) : StoreInv c ({} : CStore) := storeInv_noBlobs c _ rfl rfl rfl

example : StoreInv c3 sTwoBlobs := by
  have h0 : StoreInv c3 ({ allowDup := true } : CStore) := storeInv_noBlobs c3 _ rfl rfl rfl
  have hA := write_cancel_inv c3 w1 _ _ h0 (by decide) (cancelStates_run _ _)
  have hB : StoreInv c3 (closeA (runItems (writeSegments c3 w1 { allowDup := true }) { allowDup := true })) := by
    refine ⟨?_, ?_, hA.stray⟩
    · intro b hb; cases hb
    · intro b hb
      unfold closeA at hb
      simp only [List.mem_append, List.mem_singleton] at hb
      rcases hb with hb | hb
      · exact hA.closed b hb
      · exact hA.active b hb.symm
  exact write_cancel_inv c3 w2 _ _ hB (by decide) (cancelStates_run _ _)

-- when the closure is detached: always on a current-thread runtime; on a multi-thread runtime for
-- reservations above 81 920 bytes only
example (len : Nat) : ({ klen := 3, currentThread := true } : Cfg).detached len = true := rfl
example : ({ klen := 3, currentThread := false } : Cfg).detached 81920 = false ∧
    ({ klen := 3, currentThread := false } : Cfg).detached 81921 = true := by decide

-- the orphan state is reached on the current-thread runtime ...
example : ∃ k, cancelAfter k (writeSegments c3 w1 {}) {} = sOrphan c3 w1 {} :=
  orphan_reachable c3 w1 {} (by decide) rfl
-- ... and on a multi-thread runtime no cancellation of this (small) write separates the two views
example (k : Nat) :
    let c : Cfg := { klen := 3, currentThread := false }
    let t := cancelAfter k (writeSegments c w1 {}) {}
    let full := runItems (writeSegments c w1 {}) {}
    (QEq ({} : CStore).toStore t.toStore ∧ QEq ({} : CStore).regen t.regen) ∨
      (t.toStore = full.toStore ∧ t.regen = full.regen) :=
  cancel_atomic_write_inline _ w1 {} k (by decide)

-- a reservation gap needs a FAILED write (C11): `size` 165, file length 92
set_option maxRecDepth 1000000 in
example : (Fault.run 4096 Fault.fresh [(C11.wA, .ok), (C11.wB, .failBefore)]).file.size = 165 ∧
    (Fault.run 4096 Fault.fresh [(C11.wA, .ok), (C11.wB, .failBefore)]).file.bytes.length = 92 := by
  decide

/-! ## operations that are NOT cancelled refine the L2 operations -/

/-- `delete` that is not cancelled is `Store.delete` on the L2 view (no hypothesis on `s0` is needed, as
    for `write_completes`), and dropping the future after its last await is the same as not dropping it.
    The state it leaves is explicit: `Pearl.Cancel.delete_run`. -/
theorem delete_completes (c : Cfg) (a : DArgs) (s0 : CStore) :
    (runItems (deleteSegments c a s0) s0).toStore = (s0.toStore.delete a.k a.ts a.m a.oip).1 ∧
    ∀ k, awaits (deleteSegments c a s0) ≤ k →
      cancelAfter k (deleteSegments c a s0) s0 = runItems (deleteSegments c a s0) s0 :=
  ⟨delete_refines c a s0, fun k hk => cancelAfter_ge _ k s0 hk⟩

/-- the state a completed delete leaves: the active blob is created if `!only_if_presented` and there is
    none (`delS1`); `Blob::delete` (`delB`) on the active blob with the caller's `only_if_presented`, on
    every closed blob with `only_if_presented = true`; nothing else changes -/
theorem delete_completes_state (c : Cfg) (a : DArgs) (s0 : CStore) :
    runItems (deleteSegments c a s0) s0 =
      { delS1 a s0 with
        active := (delS1 a s0).active.map (delB c a a.oip)
        slots := (delS1 a s0).slots.map (·.map (delB c a true)) } ∧
    ∀ oip b, (delB c a oip b).toBlob = (Store.blobDelete b.toBlob a.k a.ts a.m oip).1 :=
  ⟨delete_run c a s0, fun oip b => toBlob_delB c a oip b⟩

/-- the number `Storage::delete` returns (`Store.delete .. .2`, the number of blobs marked) is the number of
    record images the completed operation added to the blob files (`CStore.fileRecCount`: all blobs of
    the storage, ghost lists `frecs`) -/
theorem delete_returns_count (c : Cfg) (a : DArgs) (s0 : CStore) :
    (runItems (deleteSegments c a s0) s0).fileRecCount =
      s0.fileRecCount + (s0.toStore.delete a.k a.ts a.m a.oip).2 :=
  delete_count c a s0

/-- on ANY state that satisfies the invariant — in particular on every state a cancelled write or delete
    left (`write_cancel_keeps_inv`, `delete_cancel_keeps_inv`) — a delete that is not cancelled is
    `Store.delete` and keeps the invariant -/
theorem later_delete_succeeds (c : Cfg) (a : DArgs) (t : CStore) (hinv : StoreInv c t)
    (hm : (serMeta a.entry.1.mt).length < 2 ^ 64) :
    let t2 := runItems (deleteSegments c a t) t
    t2.toStore = (t.toStore.delete a.k a.ts a.m a.oip).1 ∧ StoreInv c t2 :=
  ⟨delete_refines c a t, delete_cancel_inv c a t _ hinv hm (cancelStates_run _ _)⟩

/-- a delete after a cancelled delete succeeds -/
theorem later_delete_after_cancelled_delete (c : Cfg) (a a2 : DArgs) (s0 : CStore) (k : Nat)
    (hinv : StoreInv c s0) (hm : (serMeta a.entry.1.mt).length < 2 ^ 64)
    (hm2 : (serMeta a2.entry.1.mt).length < 2 ^ 64) :
    let t := cancelAfter k (deleteSegments c a s0) s0
    let t2 := runItems (deleteSegments c a2 t) t
    t2.toStore = (t.toStore.delete a2.k a2.ts a2.m a2.oip).1 ∧ StoreInv c t2 :=
  later_delete_succeeds c a2 _ (delete_cancel_keeps_inv c a s0 k hinv hm) hm2

/-- `Inner::create_active_blob` (no active blob): not cancelled it is `Store.tryCreateActive`; dropped at
    any await it leaves nothing, the 0-byte file, the file with its header, or the new active blob — in
    each case every query answers as before (a blob id may be used up) -/
theorem create_completes (c : Cfg) (s0 : CStore) (hact : s0.active = none) :
    s0.toStore.tryCreateActive = .ok (runItems (createItems c s0.nextId) s0).toStore ∧
    (∀ k, awaits (createItems c s0.nextId) ≤ k →
      cancelAfter k (createItems c s0.nextId) s0 = runItems (createItems c s0.nextId) s0) ∧
    ∀ k, let t := cancelAfter k (createItems c s0.nextId) s0
      (t = s0 ∨ t = sFile s0 ∨ t = sHdr s0 ∨ t = runItems (createItems c s0.nextId) s0) ∧
      QEq s0.toStore t.toStore ∧ QEq s0.regen t.regen ∧ (StoreInv c s0 → StoreInv c t) := by
  refine ⟨create_refines c s0 hact, fun k hk => cancelAfter_ge _ k s0 hk, ?_⟩
  intro k t
  have hst := create_cancelStates c s0 t ⟨k, rfl⟩
  rw [create_run]
  refine ⟨hst, ?_⟩
  rcases hst with h | h | h | h <;> rw [h]
  · exact ⟨QEq.refl _, QEq.refl _, id⟩
  · exact ⟨by rw [toStore_sFile]; exact qeq_bump _, by rw [regen_sFile]; exact qeq_bump _, fun hi => hi.sFile⟩
  · exact ⟨by rw [toStore_sHdr]; exact qeq_bump _, by rw [regen_sHdr]; exact qeq_bump _, fun hi => hi.sHdr⟩
  · have h1 : s0.toStore.active = none := by
      show s0.active.map CBlob.toBlob = none
      rw [hact]; rfl
    have h2 : s0.regen.active = none := by
      show s0.active.map CBlob.regenBlob = none
      rw [hact]; rfl
    exact ⟨by rw [toStore_sNew]; exact qeq_createActive _ h1, by rw [regen_sNew]; exact qeq_createActive _ h2,
      fun hi => hi.sNew⟩

/-- `closeA` (used in the witnesses above; it has no await in this model) is `Store.closeActive`, and it
    keeps the invariant -/
theorem closeA_refines (c : Cfg) (s : CStore) (b : CBlob) (hact : s.active = some b) :
    s.toStore.closeActive = .ok (closeA s).toStore ∧ (StoreInv c s → StoreInv c (closeA s)) := by
  constructor
  · unfold Store.closeActive CStore.toStore closeA
    rw [hact]
    simp
  · intro hA
    refine ⟨?_, ?_, hA.stray⟩
    · intro b' hb'; cases hb'
    · intro b' hb'
      unfold closeA at hb'
      simp only [List.mem_append, List.mem_singleton] at hb'
      rcases hb' with hb' | hb'
      · exact hA.closed b' hb'
      · exact hA.active b' hb'.symm

-- `delete_completes` on the two-blob witness: a marker in each blob
set_option maxRecDepth 1000000 in
example : (runItems (deleteSegments c3 del1 sTwoBlobs) sTwoBlobs).toStore =
      (sTwoBlobs.toStore.delete 1 10 none true).1 ∧
    (sTwoBlobs.toStore.delete 1 10 none true).1.recordsCountDetailed = [2, 2] ∧
    (sTwoBlobs.toStore.delete 1 10 none true).2 = 2 :=
  ⟨(delete_completes c3 del1 sTwoBlobs).1, by decide, by decide⟩

-- `!only_if_presented` on a storage without an active blob: the blob is created, it gets the marker
set_option maxRecDepth 1000000 in
example : (runItems (deleteSegments c3 { del1 with oip := false } {}) {}).toStore =
      (({} : CStore).toStore.delete 1 10 none false).1 ∧
    (({} : CStore).toStore.delete 1 10 none false).1.recordsCountDetailed = [1] :=
  ⟨(delete_completes c3 { del1 with oip := false } {}).1, by decide⟩

example : ({} : CStore).toStore.tryCreateActive = .ok (runItems (createItems c3 0) {}).toStore :=
  (create_completes c3 {} rfl).1

/-! ## the orphan record through further sessions -/

/-- `Blob::from_file` (`CBlob.restart`, Pearl/Proofs/CancelRefine.lean) gives the blob the records
    `CBlob.restartRecs` says, and keeps the invariant (`BlobInv2` = `BlobInv` + "an index file the next
    start would accept lists records of the file, in file order, that load"), whether the index file is
    accepted or the index is regenerated -/
theorem restart_keeps_inv (c : Cfg) (b : CBlob) (hinv : BlobInv2 c b)
    (hm : ∀ x ∈ b.frecs, (serMeta x.1.mt).length < 2 ^ 64) :
    (b.restart c).toBlob.recs = b.restartRecs ∧ BlobInv2 c (b.restart c) ∧ BlobInv2 c b.dump ∧
    (b.restart c).frecs = b.frecs ∧ (b.restart c).file.bytes = b.file.bytes :=
  ⟨restart_recs c b, hinv.restart hm, hinv.dump, restart_frecs c b, restart_bytes c b⟩

/-- `orphan_hidden_by_dump` through ANY number of (dump; restart) rounds (`act`: the blob is the active
    blob of the next session — its index is loaded — or a closed one): after `n + 1` rounds the file
    still holds the orphan record, the index is still the one that does not know it, the index file is
    the one the next start accepts, and that start again gives the blob the old records only. -/
theorem orphan_hidden_rounds (c : Cfg) (x : RecB) (b : CBlob) (hinv : BlobInv c b)
    (hd : b.onDisk = false) (hne : b.idx ≠ []) (act : Bool) (n : Nat) :
    let t := rounds c act (n + 1) (b.fileWrite c x)
    t.frecs = b.frecs ++ [x] ∧ t.file = (b.fileWrite c x).file ∧ t.idx = b.idx ∧
    t.idxFile = some (b.idx, t.file.bytes.length) ∧ t.Accepts ∧
    t.toBlob.recs = b.idx.map (·.1.1) ∧ t.restartRecs = b.idx.map (·.1.1) ∧
    t.idx.length < t.frecs.length := by
  intro t
  have ht : t = hiddenState c x b act := rounds_orphan c x b hinv.size hd hne act n
  have hlen : b.idx.length ≤ b.frecs.length := by
    have := hinv.sub.length_le
    simpa using this
  rw [ht]
  refine ⟨rfl, rfl, rfl, rfl, ⟨b.idx, rfl⟩, rfl, ?_, ?_⟩
  · unfold CBlob.restartRecs hiddenState
    simp only [↓reduceIte]
  · show b.idx.length < (b.frecs ++ [x]).length
    rw [List.length_append, List.length_singleton]
    omega

/-- The general form: after the orphan write, ANY sequence of completed writes / deletion markers on
    the blob (`.write`), `load_index`, `dump` and restarts — as long as every start accepts the index
    file it finds — leaves the orphan record in the file (at its position, right after the records the
    file had) and out of the index: the index knows what it knew plus the records written since.
    Hypothesis `hif`: an index file the blob already has carries a `blob_size` that is at most the
    length of the blob file (true without an index file; every step keeps it: `Hidden.idxFile`). -/
theorem orphan_hidden_while_accepted (c : Cfg) (x : RecB) (b : CBlob) (hinv : BlobInv c b)
    (hif : ∀ es bs, b.idxFile = some (es, bs) → bs ≤ b.file.bytes.length)
    (steps : List BStep) (hacc : AllAccepted c steps (b.fileWrite c x)) :
    let t := runSteps c steps (b.fileWrite c x)
    t.frecs = b.frecs ++ x :: writesOf steps ∧
    t.idx.map (·.1) = b.idx.map (·.1) ++ writesOf steps ∧
    t.toBlob.recs = b.idx.map (·.1.1) ++ (writesOf steps).map (·.1) ∧
    t.idx.length < t.frecs.length ∧ t.file.size = t.file.bytes.length := by
  intro t
  have h := (Hidden.orphan c x b hinv.size hif).steps c steps hacc
  simp only [List.nil_append] at h
  have hlen : b.idx.length ≤ b.frecs.length := by
    have := hinv.sub.length_le
    simpa using this
  refine ⟨h.frecs, h.idx, ?_, ?_, h.size⟩
  · have := congrArg (List.map (fun y : RecB => y.1)) h.idx
    simpa [CBlob.toBlob, List.map_map, Function.comp_def] using this
  · show (runSteps c steps (b.fileWrite c x)).idx.length < (runSteps c steps (b.fileWrite c x)).frecs.length
    have h1 := congrArg List.length h.idx
    have h2 := congrArg List.length h.frecs
    simp only [List.length_map, List.length_append, List.length_cons] at h1 h2
    omega

/-- ... and the first start that does NOT accept the index file regenerates the index: every record of
    the file, the orphan included, is indexed from then on -/
theorem orphan_visible_after_rejected_start (c : Cfg) (x : RecB) (b : CBlob) (hinv : BlobInv c b)
    (hif : ∀ es bs, b.idxFile = some (es, bs) → bs ≤ b.file.bytes.length)
    (steps : List BStep) (hacc : AllAccepted c steps (b.fileWrite c x))
    (hrej : ¬ (runSteps c steps (b.fileWrite c x)).Accepts) :
    let t := (runSteps c steps (b.fileWrite c x)).restart c
    t.idx.map (·.1) = b.frecs ++ x :: writesOf steps ∧
    t.toBlob.recs = b.frecs.map (·.1) ++ x.1 :: (writesOf steps).map (·.1) := by
  intro t
  have h := (orphan_hidden_while_accepted c x b hinv hif steps hacc).1
  have h1 : t.idx.map (·.1) = b.frecs ++ x :: writesOf steps := by
    rw [← h]; exact restart_rejected c _ hrej
  refine ⟨h1, ?_⟩
  have := congrArg (List.map (fun y : RecB => y.1)) h1
  simpa [CBlob.toBlob, List.map_map, Function.comp_def] using this

/-! witnesses: blob 0 after `w1` was written; `w2` is written by a detached closure whose future is dropped -/

def bA : CBlob := ((runItems (writeSegments c3 w1 { allowDup := true }) { allowDup := true }).active).getD default

set_option maxRecDepth 1000000 in
theorem bA_inv : BlobInv c3 bA ∧ bA.onDisk = false ∧ bA.idx ≠ [] ∧ bA.idxFile = none := by
  have h0 : StoreInv c3 ({ allowDup := true } : CStore) := storeInv_noBlobs c3 _ rfl rfl rfl
  have hA := write_cancel_inv c3 w1 _ _ h0 (by decide) (cancelStates_run _ _)
  exact ⟨hA.active bA (by decide), by decide, by decide, by decide⟩

-- three (dump; restart) rounds: 2 records in the file, 1 in the index, and the 4th start accepts again
example : let t := rounds c3 false 3 (bA.fileWrite c3 w2.entry)
    t.frecs.length = 2 ∧ t.toBlob.recs.length = 1 ∧ t.Accepts ∧ t.restartRecs.length = 1 := by
  intro t
  have h := orphan_hidden_rounds c3 w2.entry bA bA_inv.1 bA_inv.2.1 bA_inv.2.2.1 false 2
  have hl : bA.idx.length = 1 := by decide
  have hf : bA.frecs.length = 1 := by decide
  refine ⟨?_, ?_, h.2.2.2.2.1, ?_⟩
  · show (rounds c3 false 3 (bA.fileWrite c3 w2.entry)).frecs.length = 2
    rw [h.1, List.length_append, hf]; rfl
  · show (rounds c3 false 3 (bA.fileWrite c3 w2.entry)).toBlob.recs.length = 1
    rw [h.2.2.2.2.2.1, List.length_map, hl]
  · show (rounds c3 false 3 (bA.fileWrite c3 w2.entry)).restartRecs.length = 1
    rw [h.2.2.2.2.2.2.1, List.length_map, hl]

-- dump, restart (accepted), index loaded, one more write, dump, restart: every start accepts — the
-- blob was dumped after its last write — and the orphan is still not indexed ...
set_option maxRecDepth 1000000 in
example : AllAccepted c3 [.dump, .restart, .load, .write w1.entry, .dump, .restart] (bA.fileWrite c3 w2.entry) ∧
    (runSteps c3 [.dump, .restart, .load, .write w1.entry, .dump, .restart] (bA.fileWrite c3 w2.entry)).toBlob.recs.length = 2 ∧
    (runSteps c3 [.dump, .restart, .load, .write w1.entry, .dump, .restart] (bA.fileWrite c3 w2.entry)).frecs.length = 3 := by
  have hacc : AllAccepted c3 [.dump, .restart, .load, .write w1.entry, .dump, .restart] (bA.fileWrite c3 w2.entry) := by
    refine ⟨trivial, by decide, trivial, trivial, trivial, by decide, trivial⟩
  have h := orphan_hidden_while_accepted c3 w2.entry bA bA_inv.1
    (fun es bs hf => by rw [bA_inv.2.2.2] at hf; cases hf) _ hacc
  have hl : bA.idx.length = 1 := by decide
  have hf : bA.frecs.length = 1 := by decide
  refine ⟨hacc, ?_, ?_⟩
  · rw [h.2.2.1]; simp [writesOf, hl]
  · rw [h.1]; simp [writesOf, hf]

-- ... whereas a write AFTER the last dump makes the next start reject the index file (its `blob_size` is
-- the old length): the index is regenerated and holds all three records
set_option maxRecDepth 1000000 in
example : ¬ (runSteps c3 [.dump, .write w1.entry] (bA.fileWrite c3 w2.entry)).Accepts ∧
    ((runSteps c3 [.dump, .write w1.entry] (bA.fileWrite c3 w2.entry)).restart c3).toBlob.recs.length = 3 := by
  have hacc : AllAccepted c3 [.dump, .write w1.entry] (bA.fileWrite c3 w2.entry) := ⟨trivial, trivial, trivial⟩
  have hrej : ¬ (runSteps c3 [.dump, .write w1.entry] (bA.fileWrite c3 w2.entry)).Accepts := by
    decide
  have h := orphan_visible_after_rejected_start c3 w2.entry bA bA_inv.1
    (fun es bs hf => by rw [bA_inv.2.2.2] at hf; cases hf) _ hacc hrej
  have hf : bA.frecs.length = 1 := by decide
  refine ⟨hrej, ?_⟩
  rw [h.2]; simp [writesOf, hf]


/-! ## `delete_in_closed` through `FuturesUnordered`: the product of the per-blob cancel states

`Storage::delete_in_closed` (src/storage/core.rs) collects `b.delete(..)` of EVERY closed blob into a
`FuturesUnordered` and awaits the fold: all of them are polled, so when the storage-level future is dropped several
of them can be suspended, each at its own await, each with its own closure running in `spawn_blocking`; all those
closures finish.  `deleteSegments` takes the closed blobs one after the other.  Here: a CUT VECTOR `cuts : Nat → Nat`
gives, for the closed blob in slot `i`, the number of segments its own future has completed;
`cancelDeleteProduct c a cuts s0` cuts every blob's future (`blobDeleteItems` of that blob) at its own point, on the
state `delS2` that the sequential part before `delete_in_closed` leaves.  Lemmas: Pearl/Proofs/CancelProduct.lean. -/

/-- (1) `cancel_delete_product_states`.  For EVERY cut vector: nothing but the closed blobs is touched, and for
    every closed blob `b` (slot `i`) the product state holds in slot `i` exactly what the blob's OWN future, dropped
    at `cuts i` and running ALONE on `delS2`, leaves there; that future touches no other slot; so the blob is in one
    of the three states of `cancel_blob_delete`, whatever the cuts of the other blobs are: files and indexes of
    different blobs do not interact. -/
theorem cancel_delete_product_states (c : Cfg) (a : DArgs) (s0 : CStore) (cuts : Nat → Nat) :
    let s2 := delS2 c a s0
    let t := cancelDeleteProduct c a cuts s0
    (t.active = s2.active ∧ t.nextId = s2.nextId ∧ t.allowDup = s2.allowDup ∧ t.stray = s2.stray ∧
      t.slots.length = s2.slots.length ∧ ∀ i : Nat, s2.slots[i]? = some none → t.slots[i]? = some none) ∧
    ∀ (i : Nat) (b : CBlob), s2.slots[i]? = some (some b) →
      t.slots[i]? = (cancelAfter (cuts i) (blobDeleteItems c (CStore.onSlot i) a true b) s2).slots[i]? ∧
      (∀ j : Nat, j ≠ i →
        (cancelAfter (cuts i) (blobDeleteItems c (CStore.onSlot i) a true b) s2).slots[j]? = s2.slots[j]?) ∧
      ∃ tb, t.slots[i]? = some (some tb) ∧
        (tb = b ∨
         (needMarker a true b = true ∧ c.detached (entryLen c a.entry) = true ∧
           tb = (loadedB b).fileWrite c a.entry) ∨
         (needMarker a true b = true ∧ tb = ((loadedB b).fileWrite c a.entry).pushWritten c a.entry)) := by
  intro s2 t
  obtain ⟨h1, h2, h3, h4, h5, h6⟩ := product_shape c a cuts s0
  refine ⟨⟨h3, h4, h5, h6, h1, h2⟩, ?_⟩
  intro i b hb
  obtain ⟨p1, p2, p3⟩ := product_slot c a cuts s0 i b hb
  refine ⟨p1, p2, _, p3, ?_⟩
  rcases cutB_state c a b _ (cutOf_valid c a true b (cuts i)) with h | h | ⟨hn, h⟩
  · exact Or.inl h
  · exact Or.inr (Or.inl h)
  · refine Or.inr (Or.inr ⟨hn, ?_⟩)
    rw [h, delB_eq, hn]
    rfl

/-- ... and the product is the FULL product: choose for every closed blob any of the states possible on it
    (`Cut.untouched`; `Cut.orphan` if the key is live in the blob and the write closure is detached; `Cut.done` if
    the key is live in the blob) — some cut vector produces exactly this combination. -/
theorem cancel_delete_product_independent (c : Cfg) (a : DArgs) (s0 : CStore) (kinds : Nat → Cut)
    (hv : ∀ (i : Nat) (b : CBlob), (delS2 c a s0).slots[i]? = some (some b) → (kinds i).Valid c a true b) :
    ∃ cuts, ∀ (i : Nat) (b : CBlob), (delS2 c a s0).slots[i]? = some (some b) →
      (cancelDeleteProduct c a cuts s0).slots[i]? = some (some (cutB c a b (kinds i) b)) := by
  refine ⟨cutsFor (delS2 c a s0) kinds, ?_⟩
  intro i b hb
  rw [product_reaches c a kinds s0 hv]
  unfold prodState
  rw [mapSlots_slot, hb]
  rfl

/-- the product state is not an artefact of the order in which the definition takes the blobs: let every closed
    blob's future perform its actions up to its own cut (synchronous code of the completed segments and the closures
    handed to `spawn_blocking`, the last of them finishing detached), in ANY interleaved order of the actions of the
    different futures (`Interleaving`): the resulting state is `cancelDeleteProduct` -/
theorem cancel_delete_product_interleaving (c : Cfg) (a : DArgs) (s0 : CStore) (cuts : Nat → Nat)
    (l : List (CStore → CStore))
    (h : Interleaving ((closedWithSlots (delS1 a s0)).map
      (fun p => effects (cuts p.1) (blobDeleteItems c (CStore.onSlot p.1) a true p.2))) l) :
    runActs l (delS2 c a s0) = cancelDeleteProduct c a cuts s0 :=
  interleaving_product c a cuts _ (closedWithSlots_nodup _) l h _

/-- the blobs whose marker the dropped delete wrote AND indexed (slot numbers) -/
def markedSet (c : Cfg) (a : DArgs) (s0 : CStore) (cuts : Nat → Nat) : Nat → Bool :=
  doneSet (kindAt c a (delS2 c a s0) cuts)

/-- the blobs whose marker reached the blob file (slot numbers) -/
def reachedSet (c : Cfg) (a : DArgs) (s0 : CStore) (cuts : Nat → Nat) : Nat → Bool :=
  fileSet (kindAt c a (delS2 c a s0) cuts)

/-- `markedSet ⊆ reachedSet ⊆` the targets of the delete (closed blobs in whose index the key is live); without a
    detached write closure (multi-thread runtime, marker of at most 81 920 bytes) the two sets are equal -/
theorem marked_sub_reached_sub_targets (c : Cfg) (a : DArgs) (s0 : CStore) (cuts : Nat → Nat) :
    (∀ i, markedSet c a s0 cuts i = true → reachedSet c a s0 cuts i = true) ∧
    (∀ (i : Nat) (b : CBlob), (delS2 c a s0).slots[i]? = some (some b) → reachedSet c a s0 cuts i = true →
      needMarker a true b = true) ∧
    (∀ i : Nat, (∀ b, (delS2 c a s0).slots[i]? ≠ some (some b)) → reachedSet c a s0 cuts i = false) ∧
    (c.detached (entryLen c a.entry) = false → ∀ (i : Nat) (b : CBlob),
      (delS2 c a s0).slots[i]? = some (some b) → reachedSet c a s0 cuts i = markedSet c a s0 cuts i) := by
  refine ⟨fun i h => doneSet_sub_fileSet _ i h, ?_, ?_, ?_⟩
  · intro i b hb h
    have := fileSet_sub_target c a _ _ (kindAt_valid c a (delS2 c a s0) cuts) i b hb h
    unfold isTarget at this
    rw [hb] at this
    exact this
  · intro i hi
    unfold reachedSet fileSet kindAt
    cases hs : (delS2 c a s0).slots[i]? with
    | none => simp
    | some o =>
      cases o with
      | none => simp
      | some b => exact absurd hs (hi b)
  · intro hd i b hb
    exact fileSet_eq_doneSet c a _ _ (kindAt_valid c a (delS2 c a s0) cuts) hd i b hb

/-- (2) the C14 guarantee for the concurrent `delete_in_closed`.  In THIS session the product state is — up to
    where indexes reside (`forgetS`; an orphan marker leaves the index of its blob loaded), hence for every query
    (`QEq`) — the SEQUENTIAL delete restricted to the subset `markedSet` of its target blobs
    (`deleteClosedOn a M`: `Store.blobDelete` on the closed blobs in the slots of `M`, nothing on the others; it is
    the L2 view of `delClosedOn c a M`, the completed `Blob::delete` on exactly those blobs).  PER BLOB the delete
    took effect entirely or not at all: a blob outside `markedSet` has the records it had, a blob inside is
    `Store.blobDelete` of itself.  A mix (marker in blob A, none in blob B) is possible — EVERY subset is reached
    (`cancel_delete_any_subset`) — and this is what the oracle accepts ("a dropped delete may have marked any
    subset of its targets"). -/
theorem cancel_delete_product_subset (c : Cfg) (a : DArgs) (s0 : CStore) (cuts : Nat → Nat) :
    let s2 := delS2 c a s0
    let t := cancelDeleteProduct c a cuts s0
    let M := markedSet c a s0 cuts
    forgetS t.toStore = forgetS (deleteClosedOn a M s2.toStore) ∧
    QEq t.toStore (deleteClosedOn a M s2.toStore) ∧
    deleteClosedOn a M s2.toStore = (delClosedOn c a M s2).toStore ∧
    (∀ (i : Nat) (b : CBlob), s2.slots[i]? = some (some b) → M i = true → needMarker a true b = true) ∧
    ∀ (i : Nat) (b : CBlob), s2.slots[i]? = some (some b) → ∃ tb, t.slots[i]? = some (some tb) ∧
      ((M i = false ∧ forgetB tb.toBlob = forgetB b.toBlob) ∨
       (M i = true ∧ tb.toBlob = (Store.blobDelete b.toBlob a.k a.ts a.m true).1)) := by
  intro s2 t M
  have hv := kindAt_valid c a s2 cuts
  have h1 : forgetS t.toStore = forgetS (deleteClosedOn a M s2.toStore) := by
    show forgetS (cancelDeleteProduct c a cuts s0).toStore = _
    rw [product_eq, toStore_prodState_subset c a _ _ hv, toStore_delClosedOn]
    rfl
  refine ⟨h1, qeq_of_forget h1, (toStore_delClosedOn c a M s2).symm, ?_, ?_⟩
  · intro i b hb hM
    exact (marked_sub_reached_sub_targets c a s0 cuts).2.1 i b hb
      ((marked_sub_reached_sub_targets c a s0 cuts).1 i hM)
  · intro i b hb
    refine ⟨_, (product_slot c a cuts s0 i b hb).2.2, ?_⟩
    have hk : kindAt c a s2 cuts i = cutOf c a true b (cuts i) := by
      unfold kindAt; rw [hb]
    rcases toBlob_cutB_cases c a b _ (cutOf_valid c a true b (cuts i)) with ⟨hne, h⟩ | ⟨he, h⟩
    · left
      refine ⟨?_, h⟩
      show doneSet (kindAt c a s2 cuts) i = false
      unfold doneSet
      rw [hk]
      simp [hne]
    · right
      refine ⟨?_, h⟩
      show doneSet (kindAt c a s2 cuts) i = true
      unfold doneSet
      rw [hk, he]
      rfl

/-- the two ends of the subset order: the empty subset is the state before `delete_in_closed`, the full subset is
    the completed delete — `Store.delete` -/
theorem subset_delete_ends (c : Cfg) (a : DArgs) (s0 : CStore) :
    delClosedOn c a (fun _ => false) (delS2 c a s0) = delS2 c a s0 ∧
    delClosedOn c a (fun _ => true) (delS2 c a s0) = runItems (deleteSegments c a s0) s0 ∧
    deleteClosedOn a (fun _ => true) (delS2 c a s0).toStore = (s0.toStore.delete a.k a.ts a.m a.oip).1 := by
  refine ⟨delClosedOn_none c a _, delClosedOn_all c a s0, ?_⟩
  rw [← toStore_delClosedOn c a, delClosedOn_all, delete_refines]

/-- EVERY subset `M` is reached: the sequential delete restricted to `M` is itself a product state (cut the
    futures of the blobs of `M` after their last await, do not poll the others) -/
theorem cancel_delete_any_subset (c : Cfg) (a : DArgs) (s0 : CStore) (M : Nat → Bool) :
    cancelDeleteProduct c a (fun i => if M i then 3 else 0) s0 = delClosedOn c a M (delS2 c a s0) :=
  (delClosedOn_is_product c a M s0).symm

/-- (3) the later start, and the invariant.  `StoreInv` holds in every product state.  A start that regenerates
    the indexes from the blob files (`regen`) finds the storage in which EXACTLY the blobs whose closure reached the
    file (`reachedSet`) carry the marker (`markOn`): the same storage as after the sequential delete restricted to
    that subset.  When no blob has an index file (`NoIdxFiles`) this is what reopening every blob by
    `Blob::from_file` (`restartBlobs`) gives, and `StoreInv` holds after it. -/
theorem cancel_delete_product_later_start (c : Cfg) (a : DArgs) (s0 : CStore) (cuts : Nat → Nat)
    (hinv : StoreInv c s0) (hm : (serMeta a.entry.1.mt).length < 2 ^ 64) :
    let s2 := delS2 c a s0
    let t := cancelDeleteProduct c a cuts s0
    let F := reachedSet c a s0 cuts
    StoreInv c s2 ∧ StoreInv c t ∧
    t.regen = markOn a F s2.regen ∧
    t.regen = (delClosedOn c a F s2).regen ∧
    (∀ lazy, t.regen.restart lazy = (delClosedOn c a F s2).regen.restart lazy) ∧
    (NoIdxFiles s2 →
      (∀ b, (t.active = some b ∨ some b ∈ t.slots) → ∀ x ∈ b.frecs, (serMeta x.1.mt).length < 2 ^ 64) →
      (t.restartBlobs c).toStore = markOn a F s2.regen ∧ StoreInv c (t.restartBlobs c)) := by
  intro s2 t F
  have hv := kindAt_valid c a s2 cuts
  have hinv2 : StoreInv c s2 := delS2_inv a s0 hinv hm
  have hinvt : StoreInv c t := cancelDeleteProduct_inv a cuts s0 hinv hm
  have ht : t = prodState c a (kindAt c a s2 cuts) s2 := product_eq c a cuts s0
  have h1 : t.regen = markOn a F s2.regen := by rw [ht]; exact regen_prodState_markOn c a _ s2
  have h2 : t.regen = (delClosedOn c a F s2).regen := by rw [ht]; exact regen_prodState_subset c a _ s2 hv
  refine ⟨hinv2, hinvt, h1, h2, fun lazy => by rw [h2], ?_⟩
  intro hn hmt
  have hnt : NoIdxFiles t := by rw [ht]; exact hn.prodState
  exact ⟨by rw [toStore_restartBlobs c t hnt, h1], hinvt.restartBlobs hnt hmt⟩

/-- (3'), per blob and WITH index files: the blob file of a blob whose closure reached the file has grown, so an
    index file dumped before the delete is not accepted by the next start; the index is regenerated and holds the
    marker — whether or not the dropped future had indexed it (only a dump AFTER the orphan marker hides it:
    `orphan_hidden_by_dump`) -/
theorem cancel_delete_product_blob_restart (c : Cfg) (a : DArgs) (s0 : CStore) (cuts : Nat → Nat)
    (hinv : StoreInv c s0) (hm : (serMeta a.entry.1.mt).length < 2 ^ 64)
    (i : Nat) (b : CBlob) (hb : (delS2 c a s0).slots[i]? = some (some b))
    (hF : reachedSet c a s0 cuts i = true)
    (hif : ∀ es bs, b.idxFile = some (es, bs) → bs ≤ b.file.bytes.length) :
    ∃ tb, (cancelDeleteProduct c a cuts s0).slots[i]? = some (some tb) ∧ ¬ tb.Accepts ∧
      (tb.restart c).toBlob.recs = b.frecs.map (·.1) ++ [a.entry.1] := by
  have hk : kindAt c a (delS2 c a s0) cuts i = cutOf c a true b (cuts i) := by
    unfold kindAt; rw [hb]
  have hne : cutOf c a true b (cuts i) ≠ .untouched := by
    unfold reachedSet fileSet at hF
    rw [hk] at hF
    simpa using hF
  have hbi : BlobInv c b := (delS2_inv a s0 hinv hm).closed b (List.mem_of_getElem? hb)
  obtain ⟨h1, _, h3⟩ := cut_restart_regenerates c a b _ hne hbi.size hif
  exact ⟨_, (product_slot c a cuts s0 i b hb).2.2, h1, h3⟩

/-! ### (4) the sequential model is the special case of staircase cut vectors -/

/-- the states of the cancelled `Storage::delete` with the concurrent `delete_in_closed`: a cancellation in the
    (sequential) part before it, or a product state -/
def ConcDeleteState (c : Cfg) (a : DArgs) (s0 t : CStore) : Prop :=
  (t = s0 ∨ (needCreate a s0 = true ∧ (t = sFile s0 ∨ t = sHdr s0)) ∨ t = delS1 a s0 ∨
   (∃ b, (delS1 a s0).active = some b ∧ BlobDeleteState c CStore.onActive a a.oip b (delS1 a s0) t)) ∨
  ∃ cuts : Nat → Nat, t = cancelDeleteProduct c a cuts s0

/-- every cancellation point of the SEQUENTIAL model is a state of the concurrent one, with a staircase cut vector
    (`staircase j k`: the blobs in the slots before `j` completed, the blob in slot `j` cut at `k`, the later ones
    not polled) -/
theorem sequential_states_are_staircases (c : Cfg) (a : DArgs) (s0 : CStore) (k : Nat) :
    let t := cancelAfter k (deleteSegments c a s0) s0
    (t = s0 ∨ (needCreate a s0 = true ∧ (t = sFile s0 ∨ t = sHdr s0)) ∨ t = delS1 a s0 ∨
     (∃ b, (delS1 a s0).active = some b ∧ BlobDeleteState c CStore.onActive a a.oip b (delS1 a s0) t)) ∨
    t = cancelDeleteProduct c a (fun _ => 0) s0 ∨
    ∃ j, ∃ hj : j < (closedWithSlots (delS1 a s0)).length, ∃ k',
      t = cancelDeleteProduct c a (staircase ((closedWithSlots (delS1 a s0))[j]).1 k') s0 := by
  intro t
  have h0 : cancelDeleteProduct c a (fun _ => 0) s0 = delS2 c a s0 := product_zero c a _ _ _ (fun _ _ => rfl)
  rcases delete_cancel_head c a s0 t ⟨k, rfl⟩ with (h | h | h | h | h) | h
  · exact Or.inl (Or.inl h)
  · exact Or.inl (Or.inr (Or.inl h))
  · exact Or.inl (Or.inr (Or.inr (Or.inl h)))
  · exact Or.inl (Or.inr (Or.inr (Or.inr h)))
  · exact Or.inr (Or.inl (by rw [h0]; exact h))
  · exact Or.inr (closed_cancel_is_staircase c a s0 t h)

theorem sequential_sub_concurrent (c : Cfg) (a : DArgs) (s0 : CStore) (k : Nat) :
    ConcDeleteState c a s0 (cancelAfter k (deleteSegments c a s0) s0) := by
  rcases sequential_states_are_staircases c a s0 k with h | h | ⟨j, hj, k', h⟩
  · exact Or.inl h
  · exact Or.inr ⟨_, h⟩
  · exact Or.inr ⟨_, h⟩

/-- the old theorem `cancel_delete_states` is a corollary: a sequential cancel state is a product state at a
    staircase (`sequential_states_are_staircases`), the product state at a staircase is the blob's own cancelled
    future on the state where the earlier blobs completed (`staircase_product`), and that is one of the three states
    of `cancel_blob_delete` -/
theorem cancel_delete_states_from_product (c : Cfg) (a : DArgs) (s0 : CStore) (k : Nat) :
    let t := cancelAfter k (deleteSegments c a s0) s0
    t = s0 ∨ (needCreate a s0 = true ∧ (t = sFile s0 ∨ t = sHdr s0)) ∨ t = delS1 a s0 ∨
    (∃ b, (delS1 a s0).active = some b ∧ BlobDeleteState c CStore.onActive a a.oip b (delS1 a s0) t) ∨
    t = delS2 c a s0 ∨
    (∃ j, ∃ hj : j < (closedWithSlots (delS1 a s0)).length,
      BlobDeleteState c (CStore.onSlot ((closedWithSlots (delS1 a s0))[j]).1) a true
        ((closedWithSlots (delS1 a s0))[j]).2
        (runItems ((delClosedItems c a (delS1 a s0)).take j).flatten (delS2 c a s0)) t) := by
  intro t
  rcases sequential_states_are_staircases c a s0 k with (h | h | h | h) | h | ⟨j, hj, k', h⟩
  · exact Or.inl h
  · exact Or.inr (Or.inl h)
  · exact Or.inr (Or.inr (Or.inl h))
  · exact Or.inr (Or.inr (Or.inr (Or.inl h)))
  · refine Or.inr (Or.inr (Or.inr (Or.inr (Or.inl ?_))))
    rw [show t = _ from h]
    exact product_zero c a _ _ _ (fun _ _ => rfl)
  · refine Or.inr (Or.inr (Or.inr (Or.inr (Or.inr ⟨j, hj, ?_⟩))))
    rw [show t = _ from h, staircase_product c a s0 j hj k']
    exact blobDelete_cancelStates _ _ _ _ _ _ _ ⟨k', rfl⟩

/-- every state of the concurrent model keeps the invariant (`no_reserved_gap`, `parses_after_restart` for it), and
    a later write / delete on it succeeds -/
theorem conc_delete_keeps_inv (c : Cfg) (a : DArgs) (s0 t : CStore) (hinv : StoreInv c s0)
    (hm : (serMeta a.entry.1.mt).length < 2 ^ 64) (ht : ConcDeleteState c a s0 t) : StoreInv c t := by
  rcases ht with (rfl | ⟨_, rfl | rfl⟩ | rfl | ⟨b, _, hb⟩) | ⟨cuts, rfl⟩
  · exact hinv
  · exact hinv.sFile
  · exact hinv.sHdr
  · exact delS1_inv a s0 hinv
  · exact blobDeleteState_inv onActive_sel onActive_id a a.oip b _ _ (delS1_inv a s0 hinv) hm hb
  · exact cancelDeleteProduct_inv a cuts s0 hinv hm

theorem later_ops_after_conc_delete (c : Cfg) (a a2 : DArgs) (w : WArgs) (s0 t : CStore)
    (hinv : StoreInv c s0) (hm : (serMeta a.entry.1.mt).length < 2 ^ 64)
    (hm2 : (serMeta a2.entry.1.mt).length < 2 ^ 64) (hmw : (serMeta w.entry.1.mt).length < 2 ^ 64)
    (ht : ConcDeleteState c a s0 t) :
    ((runItems (deleteSegments c a2 t) t).toStore = (t.toStore.delete a2.k a2.ts a2.m a2.oip).1 ∧
      StoreInv c (runItems (deleteSegments c a2 t) t)) ∧
    ((runItems (writeSegments c w t) t).toStore = t.toStore.write w.k w.ts w.m w.d ∧
      StoreInv c (runItems (writeSegments c w t) t)) :=
  let hi := conc_delete_keeps_inv c a s0 t hinv hm ht
  ⟨later_delete_succeeds c a2 t hi hm2,
    (later_write_succeeds c w t hi hmw).1, (later_write_succeeds c w t hi hmw).2.1⟩


/-! ### witnesses: three closed blobs, key 1 live in all of them (current-thread runtime: closures are detached) -/

def w3 : WArgs := { k := 1, ts := 8, m := none, d := ⟨1, 0⟩, bytes := [9] }

/-- duplicates allowed: key 1 written into blob 0, blob 1 and blob 2, each closed; no active blob -/
def sThree : CStore :=
  let s0 : CStore := { allowDup := true }
  let sA := closeA (runItems (writeSegments c3 w1 s0) s0)
  let sB := closeA (runItems (writeSegments c3 w2 sA) sA)
  closeA (runItems (writeSegments c3 w3 sB) sB)

/-- blob 0 dropped at the await of its write closure (the closure finishes: orphan marker), blob 1 not polled
    beyond its first await, blob 2 completed -/
def cutsW (i : Nat) : Nat := if i = 0 then 1 else if i = 1 then 0 else 2

theorem closeA_keeps_inv (c : Cfg) (s : CStore) (hA : StoreInv c s) : StoreInv c (closeA s) := by
  refine ⟨?_, ?_, hA.stray⟩
  · intro b' hb'; cases hb'
  · intro b' hb'
    unfold closeA at hb'
    simp only [List.mem_append, List.mem_singleton] at hb'
    rcases hb' with hb' | hb'
    · exact hA.closed b' hb'
    · exact hA.active b' hb'.symm

theorem sThree_inv : StoreInv c3 sThree := by
  have h0 : StoreInv c3 ({ allowDup := true } : CStore) := storeInv_noBlobs c3 _ rfl rfl rfl
  have hA := closeA_keeps_inv c3 _ (write_cancel_inv c3 w1 _ _ h0 (by decide) (cancelStates_run _ _))
  have hB := closeA_keeps_inv c3 _ (write_cancel_inv c3 w2 _ _ hA (by decide) (cancelStates_run _ _))
  exact closeA_keeps_inv c3 _ (write_cancel_inv c3 w3 _ _ hB (by decide) (cancelStates_run _ _))

set_option maxRecDepth 1000000 in
/-- NON-VACUITY, and the concurrent model is strictly larger than the sequential one: on `sThree` every closed
    blob is a target; the cut vector `cutsW` leaves blob 0 with an orphan marker, blob 1 untouched, blob 2 marked:
    in this session the blobs hold 1, 1, 2 records (`markedSet` = {2}), after a regenerating start 2, 1, 2
    (`reachedSet` = {0, 2}); NO cancellation point of the sequential `deleteSegments` gives 1, 1, 2 (its states are
    1,1,1 / 2,1,1 / 2,2,1 / 2,2,2); the completed delete gives 2, 2, 2. -/
theorem cancel_delete_product_witness :
    (closedWithSlots sThree).map (·.1) = [0, 1, 2] ∧
    (∀ p ∈ closedWithSlots sThree, needMarker del1 true p.2 = true) ∧
    (List.range 3).map (kindAt c3 del1 (delS2 c3 del1 sThree) cutsW) = [.orphan, .untouched, .done] ∧
    (List.range 3).map (markedSet c3 del1 sThree cutsW) = [false, false, true] ∧
    (List.range 3).map (reachedSet c3 del1 sThree cutsW) = [true, false, true] ∧
    sThree.toStore.recordsCountDetailed = [1, 1, 1] ∧
    (cancelDeleteProduct c3 del1 cutsW sThree).toStore.recordsCountDetailed = [1, 1, 2] ∧
    (cancelDeleteProduct c3 del1 cutsW sThree).regen.recordsCountDetailed = [2, 1, 2] ∧
    (runItems (deleteSegments c3 del1 sThree) sThree).toStore.recordsCountDetailed = [2, 2, 2] ∧
    (∀ k, (cancelAfter k (deleteSegments c3 del1 sThree) sThree).toStore.recordsCountDetailed ≠ [1, 1, 2]) := by
  refine ⟨by decide, by decide, by decide, by decide, by decide, by decide, by decide, by decide, by decide, ?_⟩
  intro k
  rcases Nat.lt_or_ge k 9 with h | h
  · have : ∀ k < 9, (cancelAfter k (deleteSegments c3 del1 sThree) sThree).toStore.recordsCountDetailed ≠ [1, 1, 2] := by
      decide
    exact this k h
  · have hw : awaits (deleteSegments c3 del1 sThree) = 8 := by decide
    rw [cancelAfter_ge _ k _ (by rw [hw]; omega)]
    decide

-- the theorems on the witness
example := cancel_delete_product_states c3 del1 sThree cutsW
example : QEq (cancelDeleteProduct c3 del1 cutsW sThree).toStore
    (deleteClosedOn del1 (markedSet c3 del1 sThree cutsW) (delS2 c3 del1 sThree).toStore) :=
  (cancel_delete_product_subset c3 del1 sThree cutsW).2.1
example : StoreInv c3 (cancelDeleteProduct c3 del1 cutsW sThree) ∧
    (cancelDeleteProduct c3 del1 cutsW sThree).regen =
      markOn del1 (reachedSet c3 del1 sThree cutsW) (delS2 c3 del1 sThree).regen :=
  let h := cancel_delete_product_later_start c3 del1 sThree cutsW sThree_inv (by decide)
  ⟨h.2.1, h.2.2.1⟩
set_option maxRecDepth 1000000 in
-- no blob of `sThree` has an index file: reopening every blob gives the regenerated view
example : NoIdxFiles (delS2 c3 del1 sThree) ∧
    ((cancelDeleteProduct c3 del1 cutsW sThree).restartBlobs c3).toStore.recordsCountDetailed = [2, 1, 2] := by
  have ha : (delS2 c3 del1 sThree).active = none := by decide
  have hs : ∀ o ∈ (delS2 c3 del1 sThree).slots, (o.map (·.idxFile)).getD none = none := by decide
  exact ⟨⟨fun b hb => (by rw [ha] at hb; cases hb), fun b hb => hs (some b) hb⟩, by decide⟩
-- every combination is possible here (all three blobs are targets, closures are detached): e.g. all orphans
example : ∃ cuts, ∀ (i : Nat) (b : CBlob), (delS2 c3 del1 sThree).slots[i]? = some (some b) →
    (cancelDeleteProduct c3 del1 cuts sThree).slots[i]? = some (some (cutB c3 del1 b .orphan b)) :=
  cancel_delete_product_independent c3 del1 sThree (fun _ => .orphan) (by
    intro i b hb
    have hmem : (i, b) ∈ closedWithSlots sThree := by
      unfold closedWithSlots
      rw [List.mem_filterMap]
      exact ⟨(some b, i), List.mk_mem_zipIdx_iff_getElem?.mpr hb, rfl⟩
    exact ⟨cancel_delete_product_witness.2.1 (i, b) hmem, rfl⟩)
-- an interleaving of the six actions of the three futures (2, 1 and 3 of them): blob 2, 0, 2, 1, 0, 2
set_option maxRecDepth 100000 in
example : ∃ l, l.length = 6 ∧ runActs l (delS2 c3 del1 sThree) = cancelDeleteProduct c3 del1 cutsW sThree := by
  have hI : ∃ l, Interleaving ((closedWithSlots (delS1 del1 sThree)).map
      (fun p => effects (cutsW p.1) (blobDeleteItems c3 (CStore.onSlot p.1) del1 true p.2))) l ∧ l.length = 6 := by
    refine ⟨_, Interleaving.step 2 _ _ rfl (Interleaving.step 0 _ _ rfl (Interleaving.step 2 _ _ rfl
      (Interleaving.step 1 _ _ rfl (Interleaving.step 0 _ _ rfl (Interleaving.step 2 _ _ rfl
        (Interleaving.done ?_)))))), rfl⟩
    intro L hL
    rcases List.mem_cons.mp hL with rfl | hL
    · rfl
    rcases List.mem_cons.mp hL with rfl | hL
    · rfl
    rcases List.mem_cons.mp hL with rfl | hL
    · rfl
    cases hL
  obtain ⟨l, hl, hlen⟩ := hI
  exact ⟨l, hlen, cancel_delete_product_interleaving c3 del1 sThree cutsW l hl⟩
-- the staircases: the sequential cancellation point 5 (blob 0 done, blob 1 at the await of its write closure)
set_option maxRecDepth 1000000 in
example : (cancelAfter 5 (deleteSegments c3 del1 sThree) sThree).toStore.recordsCountDetailed = [2, 1, 1] ∧
    (cancelAfter 5 (deleteSegments c3 del1 sThree) sThree).regen.recordsCountDetailed = [2, 2, 1] ∧
    (cancelDeleteProduct c3 del1 (staircase 1 1) sThree).toStore.recordsCountDetailed = [2, 1, 1] ∧
    (cancelDeleteProduct c3 del1 (staircase 1 1) sThree).regen.recordsCountDetailed = [2, 2, 1] := by
  decide


end Pearl.C14

/-
Statements that are FALSE of the model and are kept as refutation + `_partial` version:
  * "a cancelled write takes effect entirely or not at all, the same in this session and after a restart":
    false exactly in the orphan state (`cancel_atomic_write`, third clause; `orphan_reachable`;
    `orphan_state`): dropped at the await of `write_to_file` while the reservation + pwrite run in a detached
    `spawn_blocking` closure (current-thread runtime, or a record above 81 920 bytes). In this session the
    record does not exist; a start that regenerates the index finds it (`orphan_visible_after_regen`,
    `orphan_alone_visible`); if the in-memory index is dumped first the index file validates (its
    `blob_size` includes the orphan) and the record stays invisible until some later regeneration
    (`orphan_hidden_by_dump`). True without a detached closure: `cancel_atomic_write_inline`.
    Consequence `duplicate_after_orphan`: two records of one key although duplicates are not allowed.
  * `parses_after_restart` as "EVERY blob file in the directory is `blobBytes` of a record list": false —
    `cancelled_creation_leaves_empty_file` (a write / delete that has to create the active blob, dropped at
    the await of the file creation, leaves a 0-byte blob file that the next start-up quarantines; the blob
    id is used up). True for every blob that belongs to the storage: `parses_after_restart`.
  * "a cancelled delete takes effect entirely or not at all": false across blobs —
    `cancel_delete_not_atomic`. True blob by blob, with the same orphan exception: `cancel_blob_delete`,
    `blob_delete_views`; for the concurrent `delete_in_closed`: `cancel_delete_product_subset` (any subset of the
    targets may be marked).

MODELLED SINCE (was "NOT MODELLED"): `delete_in_closed` drives the closed blobs' futures through `FuturesUnordered`;
several of them can be suspended (each with its own detached closure running) when the future is dropped.
`deleteSegments` still takes the closed blobs one after the other; the concurrent reality is the PRODUCT of the
per-blob states of `cancel_blob_delete`: `cancelDeleteProduct c a cuts s0` (Pearl/Proofs/CancelProduct.lean; section
"`delete_in_closed` through `FuturesUnordered`" above), `cuts i` = number of segments the future of the closed blob in
slot `i` has completed, every detached closure finishes.  It is a strict superset of the sequential states of
`cancel_delete_states` (`sequential_sub_concurrent`, `cancel_delete_product_witness`).  The part of `Storage::delete`
before `delete_in_closed` (`delete_in_active` is awaited first) stays sequential: `ConcDeleteState`.

PROVED SINCE (Pearl/Proofs/CancelRefine.lean; headline theorems in the sections "operations that are NOT cancelled
refine the L2 operations" and "the orphan record through further sessions" above)
  * former item 1: `delete_completes` — `(runItems (deleteSegments c a s0) s0).toStore =
    (s0.toStore.delete a.k a.ts a.m a.oip).1`, for EVERY `s0` (no well-formedness hypothesis is needed, as for
    `write_completes`); the state is explicit (`delete_completes_state`), the returned count is the number of
    markers that reached the files (`delete_returns_count`), and on a `StoreInv` state — which
    `storeInv_noBlobs`, `write_cancel_keeps_inv`, `delete_cancel_keeps_inv`, `closeA_refines` establish for every
    state reached by completed / cancelled writes and deletes — the result is again `StoreInv`
    (`later_delete_succeeds`, `later_delete_after_cancelled_delete`).
  * uncancelled refinement of the other operations of Model/Cancel.lean: `write` — `write_completes` (was there);
    `create_active` (`createItems`) — `create_completes` (new: `Store.tryCreateActive`, and every cancel state
    is query-equivalent to the state before). `close_active` and `restore_active` are NOT operations of
    Model/Cancel.lean (no segment list); for the `closeA` used in the witnesses: `closeA_refines`
    (`Store.closeActive`, keeps `StoreInv`).
  * former item 3: `orphan_hidden_rounds` (any number of (dump; restart) rounds, closed or active blob),
    `orphan_hidden_while_accepted` (any sequence of completed writes / `load_index` / dumps / restarts in which
    every start accepts the index file), `orphan_visible_after_rejected_start` (the first start that rejects
    it indexes the orphan), `restart_keeps_inv` (`CBlob.restart` = `Blob::from_file` agrees with
    `CBlob.restartRecs` and keeps `BlobInv2`).

PROVED SINCE (Pearl/Proofs/CancelProduct.lean; headline theorems in the section "`delete_in_closed` through
`FuturesUnordered`" above) — former item 2, the product-state version of `cancel_delete_states`:
  * (1) `cancel_delete_product_states`: for EVERY cut vector, slot `i` of the product state is slot `i` of what the
    blob's own future, dropped at `cuts i` and running alone, leaves; that future touches no other slot; the blob is in
    one of the three states of `cancel_blob_delete`.  `cancel_delete_product_independent`: every combination of
    per-blob states that are possible blob by blob is produced by some cut vector (the product is the full product).
    `cancel_delete_product_interleaving`: ANY interleaving of the individual actions (synchronous code, closures) of
    the futures, each up to its own cut, computes the product state (`Interleaving`, `effects`; `product_perm` for the
    order of whole blobs) — the fold order in the definition of `cancelDeleteProduct` is immaterial.
  * (2) `cancel_delete_product_subset`: in this session the product state is, up to index residence (`forgetS`) and
    hence for every query (`QEq`), the SEQUENTIAL delete restricted to the subset `markedSet` of its targets
    (`deleteClosedOn` at L2 = the view of `delClosedOn`); per blob entirely-or-not-at-all; `markedSet ⊆ reachedSet ⊆
    targets`, equal without a detached closure (`marked_sub_reached_sub_targets`); every subset is reached
    (`cancel_delete_any_subset`); the empty / full subsets are the state before `delete_in_closed` / `Store.delete`
    (`subset_delete_ends`).  This is the oracle's "a dropped delete may have marked any subset of its targets; the
    rest may still land until the next start" (Pearl/Oracle.lean `onStates`, `.delete .. cancelled`).
  * (3) `cancel_delete_product_later_start`: `StoreInv` in every product state; a start that regenerates the indexes
    finds exactly the blobs of `reachedSet` (closure reached the file) marked = the sequential delete restricted to
    that subset; with no index files `restartBlobs` (`Blob::from_file` on every blob) gives that store and keeps
    `StoreInv`.  `cancel_delete_product_blob_restart`: per blob WITH an index file dumped before the delete — the file
    has grown, the index file is rejected, the regenerated index holds the marker.  `conc_delete_keeps_inv`,
    `later_ops_after_conc_delete`: every state of the concurrent model keeps `StoreInv`; a later write / delete is
    `Store.write` / `Store.delete`.
  * (4) `sequential_states_are_staircases`, `sequential_sub_concurrent`, `cancel_delete_states_from_product`: the
    sequential cancellation points are the product states at staircase cut vectors (`staircase j k`), and the old
    `cancel_delete_states` follows from the product theorems (`staircase_product`).
  * non-vacuity: `cancel_delete_product_witness` (three closed blobs, key live in all; orphan / untouched / done;
    1,1,2 records in this session, 2,1,2 after a regenerating start; not a sequential state) and the examples after it.
  What the product model still abstracts: cut vectors are indexed by SLOT number (`cutsOfIds` turns a vector indexed by
  blob id into one; `product_congr`: only the values at slots holding a closed blob matter); the closures of different
  blobs are atomic actions (a closure is one `pwrite` sequence on its own file — C11 covers I/O errors inside it, none
  occur here); `FuturesUnordered`'s polling order is not modelled — it cannot matter (`cancel_delete_product_interleaving`).

NOT YET PROVED
  4. `close_active` / `restore_active` as segment lists with their await points (`dump` of the closed blob runs
     in `spawn_blocking`): not modelled, hence no cancellation statement for them.
  5. The multi-session statements are per blob (`CBlob.restart`); a whole-storage restart of `CStore` (blobs
     sorted by id, the last one active, the others dumped — `Store.restart`) is not defined at this level, so
     "the L2 store after n sessions" is not stated.
-/
