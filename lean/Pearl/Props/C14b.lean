import Pearl.Proofs.CancelLoad
import Pearl.Tie.C14
/-
C14b — cancellation of `load_index` with the filter state of the blob (defect E24, repaired in /repo aeda328).

C14 "... the cancelled operation takes effect entirely or not at all ..., LATER OPERATIONS SUCCEED".
`Model/Cancel.lean` has `load_index` as `[.await none, .sync (on CBlob.loadIndex)]` and no filter state; the defect was in
exactly that place.  Model: Pearl/Model/CancelLoad.lean (`IdxSt`: index `onDisk | inMemory`, `dirty`, filter
`resident | offloaded`, `bloomOffset`, `count`, `active`; `loadOld` = `IndexStruct::load_in_memory` before aeda328,
`loadNew` = the code now; `step` / `exec` / `Reach` over the operations `offload`, `load` (completed or dropped at await
`k`), `push`, `dump`, `restore` (completed or dropped), `close`).  Lemmas: Pearl/Proofs/CancelLoad.lean.
`cancelAfter k items s` = the state when the future is dropped while it is suspended at its await number `k`
(`k` awaits have been passed); `runItems items s` = the future polled to completion.
-/
namespace Pearl.C14b
open Pearl Pearl.Cancel Pearl.CancelLoad

/-- a closed blob whose bloom buffer has been off-loaded (`[offload]` from a blob found at start-up) -/
def offloadedOnDisk : IdxSt :=
  { index := .onDisk, dirty := false, filter := .offloaded, bloomOffset := some BLOOM_OFFSET, count := 1, active := false }

example : (exec .new [.offload] (IdxSt.fromFile 0)).2 = offloadedOnDisk := by decide

/-! ## (1) `load` as it is now is cancel-atomic -/

/-- Dropping the future of `IndexStruct::load` (the code now) at ANY suspension point leaves the state before the call
    or the state after the completed call. -/
theorem load_new_cancel_atomic (s0 : IdxSt) (k : Nat) :
    cancelAfter k (loadNew s0) s0 = s0 ∨ cancelAfter k (loadNew s0) s0 = runItems (loadNew s0) s0 :=
  cancel_atomic_of_awaitsFirst _ (awaitsFirst_loadNew s0) k s0

/-- which: nothing happened at the two reads (`k = 0, 1`), everything afterwards; the completed call makes the index
    in-memory with a resident filter and no `bloom_offset` (and is the identity on an in-memory index) -/
theorem load_new_cancel_points (s0 : IdxSt) (k : Nat) :
    (k < awaits (loadNew s0) → cancelAfter k (loadNew s0) s0 = s0) ∧
    (awaits (loadNew s0) ≤ k → cancelAfter k (loadNew s0) s0 = runItems (loadNew s0) s0) ∧
    awaits (loadNew s0) = (if s0.index = .inMemory then 0 else 2) ∧
    runItems (loadNew s0) s0 =
      (if s0.index = .inMemory then s0 else { s0 with index := .inMemory, filter := .resident, bloomOffset := none }) := by
  refine ⟨cancel_awaitsFirst_lt _ (awaitsFirst_loadNew s0) k s0, cancelAfter_ge _ k s0, ?_, ?_⟩
  · unfold loadNew; split <;> rfl
  · rw [run_loadNew]; rfl

/-- not vacuous: on the off-loaded closed blob both outcomes occur, and they differ -/
example :
    cancelAfter 0 (loadNew offloadedOnDisk) offloadedOnDisk = offloadedOnDisk ∧
    cancelAfter 1 (loadNew offloadedOnDisk) offloadedOnDisk = offloadedOnDisk ∧
    cancelAfter 2 (loadNew offloadedOnDisk) offloadedOnDisk =
      { offloadedOnDisk with index := .inMemory, filter := .resident, bloomOffset := none } ∧
    runItems (loadNew offloadedOnDisk) offloadedOnDisk ≠ offloadedOnDisk := by decide

/-- `restore_active_blob` (locks, `load_index`, install) with the code now is cancel-atomic as well -/
theorem restore_new_cancel_atomic (s0 : IdxSt) (k : Nat) :
    cancelAfter k (restore .new s0) s0 = s0 ∨
    cancelAfter k (restore .new s0) s0 = runItems (restore .new s0) s0 :=
  cancel_atomic_of_awaitsFirst _ (awaitsFirst_restoreNew s0) k s0

example :
    cancelAfter 4 (restore .new offloadedOnDisk) offloadedOnDisk = offloadedOnDisk ∧
    cancelAfter 5 (restore .new offloadedOnDisk) offloadedOnDisk =
      { offloadedOnDisk with index := .inMemory, filter := .resident, bloomOffset := none, active := true } := by decide

/-! ## (2) later operations succeed -/

/-- `Good` (in memory ⇒ the filter buffer is resident; on disk ⇒ `bloom_offset` is set, the index file is not empty
    and nothing is unsaved) is an inductive invariant of the code now: it holds initially (`IndexStruct::new`, or
    `from_file` at start-up) and EVERY operation - `offload`, `load` and `restore` completed or dropped at any await,
    `push`, `dump`, `close`, successful or not - keeps it. -/
theorem good_inductive_new :
    Good IdxSt.new ∧ (∀ n, Good (IdxSt.fromFile n)) ∧ ∀ s (op : CancelLoad.Op), Good s → Good (step .new op s).2 :=
  ⟨good_new, good_fromFile, fun _ op h => good_step_new h op⟩

/-- From every reachable state of the code now, `dump` and `close` succeed; the dump leaves nothing unsaved; a filter
    query can be answered (buffer, or index file at `bloom_offset` - `read_byte` neither fails nor panics); a `load`
    (completed) followed by a `push` succeeds. -/
theorem later_ops_succeed_new (s : IdxSt) (h : Reach .new s) :
    Good s ∧ (dump s).1 = .ok ∧ (close s).1 = .ok ∧ (dump s).2.dirty = false ∧ Good (dump s).2 ∧
    filterReadable s = true ∧
    (exec .new [.load none, .push, .close] s).1 = [.ok, .ok, .ok] := by
  have g := reach_new_good h
  refine ⟨g, dump_ok_of_good g, close_ok_of_good g, dump_clean_of_good g, good_dump g, filterReadable_of_good g, ?_⟩
  have g1 : Good (step .new (.load none) s).2 := good_step_new g _
  have hm : (step .new (.load none) s).2.index = .inMemory := by
    show (runItems (loadNew s) s).index = _
    rw [run_loadNew]; split
    · assumption
    · rfl
  have hp : (CancelLoad.push (step .new (.load none) s).2).1 = .ok := by unfold CancelLoad.push; rw [if_pos hm]
  have g2 : Good (CancelLoad.push (step .new (.load none) s).2).2 := good_push g1
  show [Res.ok, (CancelLoad.push (step .new (.load none) s).2).1, (close (CancelLoad.push (step .new (.load none) s).2).2).1] = _
  rw [hp, close_ok_of_good g2]

/-- in history form: whatever was done before (any operations, any cut points), the final `close` reports `Ok` -/
theorem close_after_any_history_new (ops : List CancelLoad.Op) (s0 : IdxSt) (h0 : s0 = IdxSt.new ∨ ∃ n, s0 = IdxSt.fromFile n) :
    (exec .new (ops ++ [.close]) s0).1.getLast? = some .ok := by
  have hr : Reach .new s0 := by
    rcases h0 with rfl | ⟨n, rfl⟩
    · exact .init
    · exact .opened n
  have key : ∀ (ops : List CancelLoad.Op) (s : IdxSt), Good s → (exec .new (ops ++ [.close]) s).1.getLast? = some .ok := by
    intro ops
    induction ops with
    | nil => intro s g; show some (close s).1 = _; rw [close_ok_of_good g]
    | cons op ops ih =>
      intro s g
      have := ih (step .new op s).2 (good_step_new g op)
      show (((step .new op s).1 :: (exec .new (ops ++ [.close]) (step .new op s).2).1)).getLast? = _
      generalize (exec .new (ops ++ [.close]) (step .new op s).2).1 = l at this ⊢
      cases l with
      | nil => simp at this
      | cons a l => simpa [List.getLast?_cons_cons] using this
  exact key ops s0 (reach_new_good hr)

/-- the history that breaks the old code (see (3)) - closed blob found at start-up, loaded, dumped, its filter
    off-loaded, a `load` dropped after its first read, a `load`, a `push`, `close` -/
def e24History : List CancelLoad.Op := [.load none, .dump, .offload, .load (some 1), .load none, .push, .close]

/-- not vacuous: with the code now every step of that history reports `Ok`, the dropped `load` left the blob on disk,
    and at the end everything is saved -/
example :
    (exec .new e24History (IdxSt.fromFile 0)).1 = [.ok, .ok, .ok, .ok, .ok, .ok, .ok] ∧
    (exec .new (e24History.take 4) (IdxSt.fromFile 0)).2 = offloadedOnDisk ∧
    (exec .new e24History (IdxSt.fromFile 0)).2 =
      { index := .onDisk, dirty := false, filter := .resident, bloomOffset := some BLOOM_OFFSET, count := 2,
        active := false } := by decide

/-! ## (3) the code before aeda328 -/

/-- the state the old code is left in: an in-memory index next to a filter without its buffer -/
def e24Stuck : IdxSt :=
  { index := .inMemory, dirty := false, filter := .offloaded, bloomOffset := some BLOOM_OFFSET, count := 1, active := false }

/-- For `loadOld` the invariant fails.  The history `e24History` (every state of it is reachable, every operation before
    the last reports `Ok` to its caller): the dropped `load` is NOT atomic (the state is neither the one before nor the
    one after the call), the next `load` returns at once and repairs nothing, the `push` is acknowledged, and `close`
    fails, leaving the pushed record's index entry unsaved; a filter query on that blob cannot be answered either.
    `load` - either variant, completed or dropped - is the identity on that state, and so is the failing `dump` /
    `close`: retrying does not help. -/
theorem load_old_refuted :
    let r := exec .old e24History (IdxSt.fromFile 0)
    r.1 = [.ok, .ok, .ok, .ok, .ok, .ok, .error] ∧
    Reach .old r.2 ∧ ¬ Good r.2 ∧ r.2.dirty = true ∧ filterReadable r.2 = false ∧
    -- the cancelled call: neither before nor after
    cancelAfter 1 (loadOld offloadedOnDisk) offloadedOnDisk = e24Stuck ∧
    e24Stuck ≠ offloadedOnDisk ∧ e24Stuck ≠ runItems (loadOld offloadedOnDisk) offloadedOnDisk ∧
    -- nothing repairs it
    (∀ v cut, step v (.load cut) r.2 = (.ok, r.2)) ∧
    step .old .dump r.2 = (.error, r.2) ∧ step .old .close r.2 = (.error, r.2) := by
  intro r
  have hr : r = ([.ok, .ok, .ok, .ok, .ok, .ok, .error], { e24Stuck with dirty := true, count := 2 }) := by decide
  refine ⟨by rw [hr], reach_exec .old (.opened 0) _, ?_, by rw [hr], by rw [hr]; decide, by decide, by decide, by decide,
    ?_, by rw [hr]; decide, by rw [hr]; decide⟩
  · rw [hr]; decide
  · intro v cut; exact step_load_inMemory v cut (by rw [hr]; rfl)

/-- the same from a newly created blob (`IndexStruct::new`): a `push` and a `dump` bring it on disk -/
example :
    (exec .old [.push, .dump, .offload, .load (some 1), .load none, .push, .close] IdxSt.new).1
      = [.ok, .ok, .ok, .ok, .ok, .ok, .error] := by decide

/-- and through `restore_active_blob` (`try_restore_active_blob` dropped while `load_index` is at its second read, then
    called again: it succeeds, the blob becomes active, a write is acknowledged, `close` fails) -/
example :
    (exec .old [.offload, .restore (some 4), .restore none, .push, .close] (IdxSt.fromFile 0)).1
      = [.ok, .ok, .ok, .ok, .error] := by decide

/-- The broken state is ABSORBING, for the old code and for the code now: once the index is in memory (non-empty) with
    an off-loaded filter, no sequence of operations of this model (any cut points) leaves that condition, and every
    `dump` and every `close` - now or after any further history - fails.  (The repair works by making the state
    unreachable, `later_ops_succeed_new`, not by recovering from it; in the code only a restart recovers.) -/
theorem stuck_forever (v : Variant) (s : IdxSt) (h : s.index = .inMemory ∧ s.filter = .offloaded ∧ 0 < s.count)
    (ops : List CancelLoad.Op) :
    let t := (exec v ops s).2
    (t.index = .inMemory ∧ t.filter = .offloaded ∧ 0 < t.count) ∧ ¬ Good t ∧
    step v .dump t = (.error, t) ∧ step v .close t = (.error, t) := by
  intro t
  have ht : Stuck t := stuck_exec v ops h
  exact ⟨ht, stuck_not_good ht, stuck_dump ht, stuck_close ht⟩

/-- not vacuous: the state the old code reaches satisfies the hypothesis; e.g. 3 more `load`s, a `restore` and a `dump` later
    `close` still fails -/
example : e24Stuck.index = .inMemory ∧ e24Stuck.filter = .offloaded ∧ 0 < e24Stuck.count := by decide
example :
    (exec .old [.load none, .load none, .load (some 0), .restore none, .dump, .close] e24Stuck).1
      = [.ok, .ok, .ok, .ok, .error, .error] := by decide

/-- the invariant is not inductive for the old code: ONE step from a `Good` (reachable) state breaks it -/
theorem good_not_inductive_old :
    Reach .old offloadedOnDisk ∧ Good offloadedOnDisk ∧ ¬ Good (step .old (.load (some 1)) offloadedOnDisk).2 := by
  refine ⟨?_, by decide, by decide⟩
  exact Reach.step (v := .old) .offload (.opened 0)

/-! ## (4) from the shape of the code to (1) -/

/-- For ANY list of events in which every `"await"` precedes every `"set"` (`AwaitsFirst` - the statement
    `Pearl.Tie.C14.load_index_switches_after_reads` proves of the translator constant) and ANY assignments `fs`, the
    induced segment list (`segsOf`: each `"await"` a suspension point without closure, each `"set"` the next assignment,
    where it stands) is cancel-atomic in the sense of (1). -/
theorem segments_of_shape (evs : List String) (fs : List (IdxSt → IdxSt)) (h : AwaitsFirst evs) (k : Nat) (s : IdxSt) :
    cancelAfter k (segsOf evs fs) s = s ∨ cancelAfter k (segsOf evs fs) s = runItems (segsOf evs fs) s :=
  cancel_atomic_of_awaitsFirst _ (awaitsFirstItems_segsOf evs fs h) k s

/-- ... and it is the list with ALL the assignments in one final synchronous segment: the same state at every cut point
    and on completion -/
theorem segments_of_shape_one_segment (evs : List String) (fs : List (IdxSt → IdxSt)) (h : AwaitsFirst evs)
    (k : Nat) (s : IdxSt) :
    cancelAfter k (segsOf evs fs) s = cancelAfter k (segsOneFinal evs fs) s ∧
    runItems (segsOf evs fs) s = runItems (segsOneFinal evs fs) s :=
  ⟨cancel_segsOf_eq_oneFinal evs fs h k s, run_segsOf_eq_oneFinal evs fs s⟩

/-- the translator's event list of `load_in_memory` with the three assignments of the code induces `loadNew` -/
theorem loadNew_is_induced (s0 : IdxSt) (h0 : s0.index = .onDisk) (k : Nat) (s : IdxSt) :
    cancelAfter k (loadNew s0) s = cancelAfter k (segsOf Gen.LOAD_INDEX_SEGMENTS loadSets) s ∧
    runItems (loadNew s0) s = runItems (segsOf Gen.LOAD_INDEX_SEGMENTS loadSets) s := by
  have hl : loadNew s0 = [.await none, .await none, .sync (fun s => setFilter (setInner s))] := by
    unfold loadNew; rw [if_neg (by rw [h0]; decide)]
  have hs : segsOf Gen.LOAD_INDEX_SEGMENTS loadSets =
      [.await none, .await none, .sync setInner, .sync (fun s => { s with filter := .resident }),
       .sync (fun s => { s with bloomOffset := none })] := by
    simp [segsOf, Gen.LOAD_INDEX_SEGMENTS, loadSets]
  rw [hl, hs]
  refine ⟨?_, rfl⟩
  match k with
  | 0 => rfl
  | 1 => rfl
  | _ + 2 => rfl

/-- (1) again, this time FROM the Tie theorem: whatever number of awaits the code has, as long as the translator's
    obligation `load_index_switches_after_reads` holds of it -/
theorem load_new_cancel_atomic_from_tie (s0 : IdxSt) (k : Nat) :
    cancelAfter k (loadNew s0) s0 = s0 ∨ cancelAfter k (loadNew s0) s0 = runItems (loadNew s0) s0 := by
  cases h0 : s0.index with
  | inMemory =>
    have : loadNew s0 = [] := by unfold loadNew; rw [if_pos h0]
    rw [this]; left; cases k <;> rfl
  | onDisk =>
    rw [(loadNew_is_induced s0 h0 k s0).1, (loadNew_is_induced s0 h0 k s0).2]
    exact segments_of_shape _ _ Pearl.Tie.C14.load_index_switches_after_reads.1 k s0

/-- The form that does not depend on HOW MANY awaits the code has: for any event list with the shape (awaits first)
    and three assignments, the future of the induced `load_in_memory`, dropped anywhere, leaves an on-disk index as it
    was or as `loadNew` polled to completion leaves it. -/
theorem load_shape_cancel_states (evs : List String) (h : AwaitsFirst evs)
    (h3 : evs.countP (fun e => !(e == "await")) = 3) (s0 : IdxSt) (h0 : s0.index = .onDisk) (k : Nat) :
    cancelAfter k (segsOf evs loadSets) s0 = s0 ∨
    cancelAfter k (segsOf evs loadSets) s0 = runItems (loadNew s0) s0 := by
  have hrun : runItems (segsOf evs loadSets) s0 = runItems (loadNew s0) s0 := by
    rw [run_segsOf, h3, run_loadNew, if_neg (by rw [h0]; decide)]; rfl
  rcases segments_of_shape evs loadSets h k s0 with e | e
  · exact Or.inl e
  · exact Or.inr (e.trans hrun)

/-- `load` as the translator sees it: the segment list induced by `Gen.LOAD_INDEX_SEGMENTS` -/
def loadTie (s0 : IdxSt) : List (Item IdxSt) :=
  if s0.index = .inMemory then [] else segsOf Gen.LOAD_INDEX_SEGMENTS loadSets

/-- (1) for `loadTie`, from `Pearl.Tie.C14.load_index_switches_after_reads` and the number of assignments alone (the
    proof does not look at the number of awaits): the state before, or the state after the completed `loadNew` -/
theorem load_tie_cancel_atomic (s0 : IdxSt) (k : Nat) :
    cancelAfter k (loadTie s0) s0 = s0 ∨ cancelAfter k (loadTie s0) s0 = runItems (loadNew s0) s0 := by
  cases h0 : s0.index with
  | inMemory =>
    have : loadTie s0 = [] := by unfold loadTie; rw [if_pos h0]
    rw [this]; left; cases k <;> rfl
  | onDisk =>
    have : loadTie s0 = segsOf Gen.LOAD_INDEX_SEGMENTS loadSets := by
      unfold loadTie; rw [if_neg (by rw [h0]; decide)]
    rw [this]
    exact load_shape_cancel_states _ Pearl.Tie.C14.load_index_switches_after_reads.1 (by decide) s0 h0 k

/-- not vacuous: an event list with three reads has the shape; dropped at its third read nothing has happened -/
example :
    AwaitsFirst ["await", "await", "await", "set", "set", "set"] ∧
    cancelAfter 2 (segsOf ["await", "await", "await", "set", "set", "set"] loadSets) offloadedOnDisk = offloadedOnDisk ∧
    cancelAfter 3 (segsOf ["await", "await", "await", "set", "set", "set"] loadSets) offloadedOnDisk
      = runItems (loadNew offloadedOnDisk) offloadedOnDisk := by decide

/-- not vacuous, and sharp: the event list of the code BEFORE aeda328 does not have the shape, induces `loadOld`, and is
    not cancel-atomic -/
example :
    ¬ AwaitsFirst ["await", "set", "await", "set", "set"] ∧
    cancelAfter 1 (segsOf ["await", "set", "await", "set", "set"] loadSets) offloadedOnDisk = e24Stuck ∧
    cancelAfter 1 (loadOld offloadedOnDisk) offloadedOnDisk = e24Stuck ∧
    runItems (segsOf ["await", "set", "await", "set", "set"] loadSets) offloadedOnDisk
      = runItems (loadOld offloadedOnDisk) offloadedOnDisk := by decide

end Pearl.C14b

#print axioms Pearl.C14b.load_new_cancel_atomic
#print axioms Pearl.C14b.load_new_cancel_points
#print axioms Pearl.C14b.restore_new_cancel_atomic
#print axioms Pearl.C14b.good_inductive_new
#print axioms Pearl.C14b.later_ops_succeed_new
#print axioms Pearl.C14b.close_after_any_history_new
#print axioms Pearl.C14b.load_old_refuted
#print axioms Pearl.C14b.stuck_forever
#print axioms Pearl.C14b.good_not_inductive_old
#print axioms Pearl.C14b.segments_of_shape
#print axioms Pearl.C14b.segments_of_shape_one_segment
#print axioms Pearl.C14b.loadNew_is_induced
#print axioms Pearl.C14b.load_new_cancel_atomic_from_tie
#print axioms Pearl.C14b.load_shape_cancel_states
#print axioms Pearl.C14b.load_tie_cancel_atomic

/-
NOT YET PROVED / not modelled
  1. `Blob::dump` as a segment list (`fsyncdata().await`, `serialize_filters`, `FileIndex::from_records(..).await`): only
     the dump that is polled to completion is an operation here.  `dump_in_memory` takes the headers out of the index
     (`std::mem::take`) before the awaited write of the index file; a future dropped there is outside this model (the
     callers are `Storage::close(self)`, `init` and the observer worker's task, none of which the user of a live storage
     can drop).
  2. `Blob::load_index`'s error path (`index.clear()` + regenerate) - no I/O error occurs in this layer (C11 covers those);
     `clear` makes the filter resident and would leave `Good` intact.
  3. The bloom filter switched off (`bloom_is_on = false`: `Bloom::empty().to_raw()` cannot fail) - the model takes the
     worse case, a configured bloom filter.
  4. One blob only: the product with the other blobs of the storage (`Model/Cancel.lean`'s `CStore`) is not built; the
     operations here touch the index of one blob and nothing else.
-/
