import Pearl.Proofs.MaintLemmas
import Pearl.Props.C01
import Pearl.Props.C04
/-
C15: accounting.  The count getters always match the operation history, every operation changes the
total by exactly the number of records it appended, and blob ids are never reused.
-/
namespace Pearl

/-! ### the getters against the history -/

theorem recordsCount_eq_history (s : Store) : s.recordsCount = Spec.count s.history :=
  Store.recordsCount_eq_count s

/-- per blob, closed blobs in container order, then the active blob -/
theorem recordsCountDetailed_eq (s : Store) :
    s.recordsCountDetailed = s.history.map (·.2.length) := by
  simp only [Store.recordsCountDetailed, Store.history, List.map_map]; rfl

/-- the total is the sum of the detailed counts -/
theorem recordsCount_eq_sum_detailed (s : Store) : s.recordsCount = s.recordsCountDetailed.sum := rfl

/-- the active blob is the last entry of the history, and `records_count_in_active_blob` is its length -/
theorem recordsCountInActive_eq (s : Store) :
    s.recordsCountInActive = s.active.map (·.recs.length) ∧
      (∀ a, s.active = some a →
        s.history.getLast? = some (a.id, a.recs) ∧ s.recordsCountDetailed.getLast? = some a.recs.length) ∧
      (s.active = none → s.recordsCountInActive = none) := by
  refine ⟨rfl, ?_, ?_⟩
  · intro a ha
    simp [Store.history, Store.recordsCountDetailed, Store.blobs, ha, Blob.count]
  · intro h; simp [Store.recordsCountInActive, h]

theorem blobsCount_eq (s : Store) : s.blobsCount = s.history.length := by
  simp [Store.blobsCount, Store.history]

/-! ### how each operation changes the total -/

/-- `write`: `+1` unless refused as a duplicate
    (`s.dedups k m = !allowDup && (ensureActive s).getLatestEntry k m is Found`) -/
theorem write_count (s : Store) (k : Key) (ts : Nat) (m : Option Meta) (d : Data) :
    (s.write k ts m d).recordsCount = s.recordsCount + if s.dedups k m then 0 else 1 :=
  Store.write_recordsCount s k ts m d

/-- `delete`: `+` the number it returns -/
theorem delete_count_total (s : Store) (k : Key) (ts : Nat) (m : Option Meta) (oip : Bool) :
    (s.delete k ts m oip).1.recordsCount = s.recordsCount + (s.delete k ts m oip).2 :=
  Store.delete_recordsCount s k ts m oip

/-- every operation: the total grows by exactly `s.added op`
    (`write`: 0 or 1; `delete`: its return value; maintenance: 0) -/
theorem apply_count {s : Store} (hwf : s.WF) (op : Op) :
    (s.apply op).recordsCount = s.recordsCount + s.added op := by
  cases op with
  | write k ts m d => exact write_count s k ts m d
  | delete k ts m oip => exact delete_count_total s k ts m oip
  | closeActive => exact maint_counts hwf rfl
  | createActive => exact maint_counts hwf rfl
  | restoreActive => exact maint_counts hwf rfl
  | replaceActive => exact maint_counts hwf rfl
  | settle => exact maint_counts hwf rfl
  | restart lazy => exact maint_counts hwf rfl

theorem added_maint (s : Store) {m : Op} (hm : m.isMaint = true) : s.added m = 0 := by
  cases m <;> first | rfl | simp [Op.isMaint] at hm

/-- along any run: total = what was there + writes not refused + sum of the delete return values -/
theorem run_count_from {s : Store} (hwf : s.WF) : ∀ ops : List Op,
    (s.run ops).recordsCount = s.recordsCount + s.storedWrites ops + s.deleteMarks ops
  | [] => rfl
  | op :: ops => by
    rw [Store.run_cons, run_count_from (apply_WF hwf op) ops, apply_count hwf op]
    cases op <;> simp only [Store.added, Store.storedWrites, Store.deleteMarks] <;> omega

/-- after every history from `init` -/
theorem run_count (d : Bool) (ops : List Op) :
    ((Store.init d).run ops).recordsCount =
      (Store.init d).storedWrites ops + (Store.init d).deleteMarks ops := by
  rw [run_count_from (init_WF d)]
  have : (Store.init d).recordsCount = 0 := by cases d <;> decide
  omega

/-! ### `nextId` -/

theorem nextId_above_all {s : Store} (hwf : s.WF) : ∀ b ∈ s.blobs, b.id < s.nextId := hwf.2

/-- `nextId` does not decrease under any operation other than `restart` -/
theorem nextId_monotone_of_not_restart (s : Store) (op : Op) (hr : ∀ lazy, op ≠ .restart lazy) :
    s.nextId ≤ (s.apply op).nextId :=
  Store.apply_nextId_le_of_not_restart s op hr

/-- `restart` recomputes `nextId` as greatest id + 1 … -/
theorem restart_nextId_eq {s : Store} (hwf : s.WF) (hne : s.blobs ≠ []) (lazy : Bool) :
    (s.restart lazy).nextId = s.maxId + 1 :=
  (Store.restart_of_ne_nil hwf lazy hne).2

/-- … so under `WF` alone `nextId_monotone` is FALSE: a state whose `nextId` is more than one above
    its greatest blob id (not reachable from `init`, see `run_nextId_tight`) loses the gap -/
theorem nextId_monotone_false :
    ∃ s : Store, s.WF ∧ ∃ op, (s.apply op).nextId < s.nextId :=
  ⟨{ active := some { id := 0, recs := [] }, nextId := 5 }, ⟨by decide, by decide⟩,
    .restart true, by decide⟩

/-- the exact extra hypothesis: `nextId` is one above some blob id (`Store.Tight`) -/
theorem nextId_monotone_partial {s : Store} (hwf : s.WF) (ht : ∃ b ∈ s.blobs, s.nextId = b.id + 1)
    (op : Op) : s.nextId ≤ (s.apply op).nextId :=
  Store.apply_nextId_le hwf ht op

/-- which every state reachable from `init` satisfies: `nextId` = greatest id + 1 -/
theorem run_nextId_tight (d : Bool) (ops : List Op) :
    let s := (Store.init d).run ops
    (∃ b ∈ s.blobs, s.nextId = b.id + 1) ∧ s.nextId = s.maxId + 1 := by
  intro s
  have ht : s.Tight := Store.run_tight (init_WF d) (Store.init_tight d) ops
  exact ⟨ht, by rw [← Store.idBound_eq_nextId (run_WF d ops) ht, Store.idBound_eq_maxId ht.ne_nil]⟩

/-- after every history, `nextId` never decreases -/
theorem run_nextId_monotone (d : Bool) (ops : List Op) (op : Op) :
    ((Store.init d).run ops).nextId ≤ ((Store.init d).run (ops ++ [op])).nextId := by
  have : (Store.init d).run (ops ++ [op]) = ((Store.init d).run ops).apply op := by
    simp [Store.run, List.foldl_append]
  rw [this]
  exact nextId_monotone_partial (run_WF d ops) (run_nextId_tight d ops).1 op

/-! ### blob ids are never reused -/

/-- one step: a blob of the new state continues a blob of the old state, or it is brand new and
    its id is `nextId`, greater than every id that was present -/
theorem apply_new_ids {s : Store} (hwf : s.WF) (hne : s.blobs ≠ []) (op : Op) :
    ∀ b' ∈ (s.apply op).blobs,
      (∃ b ∈ s.blobs, b'.id = b.id ∧ b.recs <+: b'.recs) ∨
        (b'.id = s.nextId ∧ ∀ b ∈ s.blobs, b.id < b'.id) := by
  intro b' hb'
  rcases apply_log_new hwf hne op b' hb' with ⟨b, hb, h1, h2, _⟩ | ⟨h1, _⟩
  · exact Or.inl ⟨b, hb, h1, h2⟩
  · exact Or.inr ⟨h1, fun b hb => by rw [h1]; exact hwf.2 b hb⟩

/-- any number of steps from a state with `nextId` = greatest id + 1 -/
theorem run_new_ids_from {s : Store} (hwf : s.WF) (ht : ∃ b ∈ s.blobs, s.nextId = b.id + 1) :
    ∀ ops : List Op, ∀ b' ∈ (s.run ops).blobs,
      (∃ b ∈ s.blobs, b'.id = b.id ∧ b.recs <+: b'.recs) ∨ s.nextId ≤ b'.id
  | [], b', hb' => Or.inl ⟨b', hb', rfl, List.prefix_refl _⟩
  | op :: ops, b', hb' => by
    rw [Store.run_cons] at hb'
    have hmono := nextId_monotone_partial hwf ht op
    rcases run_new_ids_from (apply_WF hwf op) (Store.apply_tight hwf ht op) ops b' hb' with
      ⟨b₁, hb₁, hid, hpre⟩ | hge
    · rcases apply_new_ids hwf (Store.Tight.ne_nil ht) op b₁ hb₁ with ⟨b, hb, hid', hpre'⟩ | ⟨hid', _⟩
      · exact Or.inl ⟨b, hb, hid.trans hid', hpre'.trans hpre⟩
      · right; rw [hid, hid']; exact Nat.le_refl _
    · right; omega

/-- nothing is ever lost: every blob is continued, under its id, in every later state -/
theorem run_log_from {s : Store} (hwf : s.WF) :
    ∀ ops : List Op, ∀ b ∈ s.blobs, ∃ b' ∈ (s.run ops).blobs, b'.id = b.id ∧ b.recs <+: b'.recs
  | [], b, hb => ⟨b, hb, rfl, List.prefix_refl _⟩
  | op :: ops, b, hb => by
    rw [Store.run_cons]
    obtain ⟨b₁, hb₁, hid, hpre, _⟩ := apply_log hwf op b hb
    obtain ⟨b', hb', hid', hpre'⟩ := run_log_from (apply_WF hwf op) ops b₁ hb₁
    exact ⟨b', hb', hid'.trans hid, hpre.trans hpre'⟩

/-- after every history `ops`, whatever happens later (`ops'`): every blob of the later state either
    continues a blob present now, or its id is greater than every id present now;
    and a later blob carrying an id present now *is* the continuation of that blob -/
theorem ids_never_reused_in_run (d : Bool) (ops ops' : List Op) :
    let s := (Store.init d).run ops
    let s' := (Store.init d).run (ops ++ ops')
    (∀ b' ∈ s'.blobs,
        (∃ b ∈ s.blobs, b'.id = b.id ∧ b.recs <+: b'.recs) ∨ ∀ b ∈ s.blobs, b.id < b'.id) ∧
      (∀ b ∈ s.blobs, ∀ b' ∈ s'.blobs, b'.id = b.id → b.recs <+: b'.recs) := by
  intro s s'
  have hs' : s' = s.run ops' := by simp [s, s', Store.run, List.foldl_append]
  have hwf : s.WF := run_WF d ops
  have hwf' : s'.WF := run_WF d (ops ++ ops')
  constructor
  · intro b' hb'
    rw [hs'] at hb'
    rcases run_new_ids_from hwf (run_nextId_tight d ops).1 ops' b' hb' with h | h
    · exact Or.inl h
    · exact Or.inr (fun b hb => Nat.lt_of_lt_of_le (hwf.2 b hb) h)
  · intro b hb b' hb' hid
    obtain ⟨b'', hb'', hid'', hpre⟩ := run_log_from hwf ops' b hb
    rw [← hs'] at hb''
    have : b'' = b' := Store.eq_of_id_eq hwf'.1 hb'' hb' (by rw [hid'', hid])
    rw [← this]; exact hpre

/-! ### non-vacuity -/

example : Demo.s2.recordsCount = 6 ∧ Spec.count Demo.s2.history = 6 := by decide
example : Demo.s2.recordsCountDetailed = [3, 2, 1] ∧ Demo.s2.blobsCount = 3 ∧
    Demo.s2.recordsCountInActive = some 1 := by decide
-- `ops2`: 4 writes stored (duplicates allowed), one delete returning 2
example : (Store.init true).storedWrites Demo.ops2 = 4 ∧ (Store.init true).deleteMarks Demo.ops2 = 2 := by
  decide
-- with duplicates disallowed the second write of key 1 at the same metadata is refused
example : (Store.init false).storedWrites [.write 1 5 none ⟨1, 1⟩, .closeActive, .write 1 6 none ⟨2, 2⟩] = 1 ∧
    ((Store.init false).run [.write 1 5 none ⟨1, 1⟩, .closeActive, .write 1 6 none ⟨2, 2⟩]).recordsCount = 1 := by
  decide
example : Demo.s1.added (.delete 1 9 none true) = 2 ∧ Demo.s1.added .replaceActive = 0 := by decide
-- `nextId` really moves, and `restart` recomputes it to the same value on reachable states
example : Demo.s2.nextId = 3 ∧ Demo.s2.maxId = 2 ∧ (Demo.s2.apply .replaceActive).nextId = 4 ∧
    (Demo.s2.apply (.restart false)).nextId = 3 := by decide
-- a later blob with a fresh id, and an old id still naming the continuation of the old blob
example : ((Demo.s1.run [.replaceActive, .write 9 1 none ⟨1, 1⟩]).blobs.map (·.id)) = [0, 1, 2] ∧
    Demo.s1.blobs.map (·.id) = [0, 1] := by decide

end Pearl
