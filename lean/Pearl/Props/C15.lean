import Pearl.Proofs.MaintLemmas
import Pearl.Props.C01
import Pearl.Props.C04
import Pearl.Proofs.AcctLemmas
import Pearl.Proofs.AcctDriver
import Pearl.Proofs.AcctHarm
/-
C15: accounting.  The count getters always match the operation history, every operation changes the
total by exactly the number of records it appended, and blob ids are never reused.
-/
namespace Pearl

/-! ### the getters against the history -/

theorem recordsCount_eq_history (s : Store) : s.recordsCount = Spec.count s.history :=
  Store.recordsCount_eq_count s

/-- per blob, closed blobs in container order, then the active blob -/
theorem recordsCountDetailed_eq (s : Store) :
    s.recordsCountDetailed = s.history.map (·.2.length) := by
  simp only [Store.recordsCountDetailed, Store.history, List.map_map]; rfl

/-- the total is the sum of the detailed counts -/
theorem recordsCount_eq_sum_detailed (s : Store) : s.recordsCount = s.recordsCountDetailed.sum := rfl

/-- the active blob is the last entry of the history, and `records_count_in_active_blob` is its length -/
theorem recordsCountInActive_eq (s : Store) :
    s.recordsCountInActive = s.active.map (·.recs.length) ∧
      (∀ a, s.active = some a →
        s.history.getLast? = some (a.id, a.recs) ∧ s.recordsCountDetailed.getLast? = some a.recs.length) ∧
      (s.active = none → s.recordsCountInActive = none) := by
  refine ⟨rfl, ?_, ?_⟩
  · intro a ha
    simp [Store.history, Store.recordsCountDetailed, Store.blobs, ha, Blob.count]
  · intro h; simp [Store.recordsCountInActive, h]

theorem blobsCount_eq (s : Store) : s.blobsCount = s.history.length := by
  simp [Store.blobsCount, Store.history]

/-! ### how each operation changes the total -/

/-- `write`: `+1` unless refused as a duplicate
    (`s.dedups k m = !allowDup && (ensureActive s).getLatestEntry k m is Found`) -/
theorem write_count (s : Store) (k : Key) (ts : Nat) (m : Option Meta) (d : Data) :
    (s.write k ts m d).recordsCount = s.recordsCount + if s.dedups k m then 0 else 1 :=
  Store.write_recordsCount s k ts m d

/-- `delete`: `+` the number it returns -/
theorem delete_count_total (s : Store) (k : Key) (ts : Nat) (m : Option Meta) (oip : Bool) :
    (s.delete k ts m oip).1.recordsCount = s.recordsCount + (s.delete k ts m oip).2 :=
  Store.delete_recordsCount s k ts m oip

/-- every operation: the total grows by exactly `s.added op`
    (`write`: 0 or 1; `delete`: its return value; maintenance: 0) -/
theorem apply_count {s : Store} (hwf : s.WF) (op : Op) :
    (s.apply op).recordsCount = s.recordsCount + s.added op := by
  cases op with
  | write k ts m d => exact write_count s k ts m d
  | delete k ts m oip => exact delete_count_total s k ts m oip
  | closeActive => exact maint_counts hwf rfl
  | createActive => exact maint_counts hwf rfl
  | restoreActive => exact maint_counts hwf rfl
  | replaceActive => exact maint_counts hwf rfl
  | settle => exact maint_counts hwf rfl
  | restart lazy => exact maint_counts hwf rfl

theorem added_maint (s : Store) {m : Op} (hm : m.isMaint = true) : s.added m = 0 := by
  cases m <;> first | rfl | simp [Op.isMaint] at hm

/-- along any run: total = what was there + writes not refused + sum of the delete return values -/
theorem run_count_from {s : Store} (hwf : s.WF) : ∀ ops : List Op,
    (s.run ops).recordsCount = s.recordsCount + s.storedWrites ops + s.deleteMarks ops
  | [] => rfl
  | op :: ops => by
    rw [Store.run_cons, run_count_from (apply_WF hwf op) ops, apply_count hwf op]
    cases op <;> simp only [Store.added, Store.storedWrites, Store.deleteMarks] <;> omega

/-- after every history from `init` -/
theorem run_count (d : Bool) (ops : List Op) :
    ((Store.init d).run ops).recordsCount =
      (Store.init d).storedWrites ops + (Store.init d).deleteMarks ops := by
  rw [run_count_from (init_WF d)]
  have : (Store.init d).recordsCount = 0 := by cases d <;> decide
  omega

/-! ### `nextId` -/

theorem nextId_above_all {s : Store} (hwf : s.WF) : ∀ b ∈ s.blobs, b.id < s.nextId := hwf.2

/-- `nextId` does not decrease under any operation other than `restart` -/
theorem nextId_monotone_of_not_restart (s : Store) (op : Op) (hr : ∀ lazy, op ≠ .restart lazy) :
    s.nextId ≤ (s.apply op).nextId :=
  Store.apply_nextId_le_of_not_restart s op hr

/-- `restart` recomputes `nextId` as greatest id + 1 … -/
theorem restart_nextId_eq {s : Store} (hwf : s.WF) (hne : s.blobs ≠ []) (lazy : Bool) :
    (s.restart lazy).nextId = s.maxId + 1 :=
  (Store.restart_of_ne_nil hwf lazy hne).2

/-- … so under `WF` alone `nextId_monotone` is FALSE: a state whose `nextId` is more than one above
    its greatest blob id (not reachable from `init`, see `run_nextId_tight`) loses the gap -/
theorem nextId_monotone_false :
    ∃ s : Store, s.WF ∧ ∃ op, (s.apply op).nextId < s.nextId :=
  ⟨{ active := some { id := 0, recs := [] }, nextId := 5 }, ⟨by decide, by decide⟩,
    .restart true, by decide⟩

/-- the exact extra hypothesis: `nextId` is one above some blob id (`Store.Tight`) -/
theorem nextId_monotone_partial {s : Store} (hwf : s.WF) (ht : ∃ b ∈ s.blobs, s.nextId = b.id + 1)
    (op : Op) : s.nextId ≤ (s.apply op).nextId :=
  Store.apply_nextId_le hwf ht op

/-- which every state reachable from `init` satisfies: `nextId` = greatest id + 1 -/
theorem run_nextId_tight (d : Bool) (ops : List Op) :
    let s := (Store.init d).run ops
    (∃ b ∈ s.blobs, s.nextId = b.id + 1) ∧ s.nextId = s.maxId + 1 := by
  intro s
  have ht : s.Tight := Store.run_tight (init_WF d) (Store.init_tight d) ops
  exact ⟨ht, by rw [← Store.idBound_eq_nextId (run_WF d ops) ht, Store.idBound_eq_maxId ht.ne_nil]⟩

/-- after every history, `nextId` never decreases -/
theorem run_nextId_monotone (d : Bool) (ops : List Op) (op : Op) :
    ((Store.init d).run ops).nextId ≤ ((Store.init d).run (ops ++ [op])).nextId := by
  have : (Store.init d).run (ops ++ [op]) = ((Store.init d).run ops).apply op := by
    simp [Store.run, List.foldl_append]
  rw [this]
  exact nextId_monotone_partial (run_WF d ops) (run_nextId_tight d ops).1 op

/-! ### blob ids are never reused -/

/-- one step: a blob of the new state continues a blob of the old state, or it is brand new and
    its id is `nextId`, greater than every id that was present -/
theorem apply_new_ids {s : Store} (hwf : s.WF) (hne : s.blobs ≠ []) (op : Op) :
    ∀ b' ∈ (s.apply op).blobs,
      (∃ b ∈ s.blobs, b'.id = b.id ∧ b.recs <+: b'.recs) ∨
        (b'.id = s.nextId ∧ ∀ b ∈ s.blobs, b.id < b'.id) := by
  intro b' hb'
  rcases apply_log_new hwf hne op b' hb' with ⟨b, hb, h1, h2, _⟩ | ⟨h1, _⟩
  · exact Or.inl ⟨b, hb, h1, h2⟩
  · exact Or.inr ⟨h1, fun b hb => by rw [h1]; exact hwf.2 b hb⟩

/-- any number of steps from a state with `nextId` = greatest id + 1 -/
theorem run_new_ids_from {s : Store} (hwf : s.WF) (ht : ∃ b ∈ s.blobs, s.nextId = b.id + 1) :
    ∀ ops : List Op, ∀ b' ∈ (s.run ops).blobs,
      (∃ b ∈ s.blobs, b'.id = b.id ∧ b.recs <+: b'.recs) ∨ s.nextId ≤ b'.id
  | [], b', hb' => Or.inl ⟨b', hb', rfl, List.prefix_refl _⟩
  | op :: ops, b', hb' => by
    rw [Store.run_cons] at hb'
    have hmono := nextId_monotone_partial hwf ht op
    rcases run_new_ids_from (apply_WF hwf op) (Store.apply_tight hwf ht op) ops b' hb' with
      ⟨b₁, hb₁, hid, hpre⟩ | hge
    · rcases apply_new_ids hwf (Store.Tight.ne_nil ht) op b₁ hb₁ with ⟨b, hb, hid', hpre'⟩ | ⟨hid', _⟩
      · exact Or.inl ⟨b, hb, hid.trans hid', hpre'.trans hpre⟩
      · right; rw [hid, hid']; exact Nat.le_refl _
    · right; omega

/-- nothing is ever lost: every blob is continued, under its id, in every later state -/
theorem run_log_from {s : Store} (hwf : s.WF) :
    ∀ ops : List Op, ∀ b ∈ s.blobs, ∃ b' ∈ (s.run ops).blobs, b'.id = b.id ∧ b.recs <+: b'.recs
  | [], b, hb => ⟨b, hb, rfl, List.prefix_refl _⟩
  | op :: ops, b, hb => by
    rw [Store.run_cons]
    obtain ⟨b₁, hb₁, hid, hpre, _⟩ := apply_log hwf op b hb
    obtain ⟨b', hb', hid', hpre'⟩ := run_log_from (apply_WF hwf op) ops b₁ hb₁
    exact ⟨b', hb', hid'.trans hid, hpre.trans hpre'⟩

/-- after every history `ops`, whatever happens later (`ops'`): every blob of the later state either
    continues a blob present now, or its id is greater than every id present now;
    and a later blob carrying an id present now *is* the continuation of that blob -/
theorem ids_never_reused_in_run (d : Bool) (ops ops' : List Op) :
    let s := (Store.init d).run ops
    let s' := (Store.init d).run (ops ++ ops')
    (∀ b' ∈ s'.blobs,
        (∃ b ∈ s.blobs, b'.id = b.id ∧ b.recs <+: b'.recs) ∨ ∀ b ∈ s.blobs, b.id < b'.id) ∧
      (∀ b ∈ s.blobs, ∀ b' ∈ s'.blobs, b'.id = b.id → b.recs <+: b'.recs) := by
  intro s s'
  have hs' : s' = s.run ops' := by simp [s, s', Store.run, List.foldl_append]
  have hwf : s.WF := run_WF d ops
  have hwf' : s'.WF := run_WF d (ops ++ ops')
  constructor
  · intro b' hb'
    rw [hs'] at hb'
    rcases run_new_ids_from hwf (run_nextId_tight d ops).1 ops' b' hb' with h | h
    · exact Or.inl h
    · exact Or.inr (fun b hb => Nat.lt_of_lt_of_le (hwf.2 b hb) h)
  · intro b hb b' hb' hid
    obtain ⟨b'', hb'', hid'', hpre⟩ := run_log_from hwf ops' b hb
    rw [← hs'] at hb''
    have : b'' = b' := Store.eq_of_id_eq hwf'.1 hb'' hb' (by rw [hid'', hid])
    rw [← this]; exact hpre

/-! ### non-vacuity -/

example : Demo.s2.recordsCount = 6 ∧ Spec.count Demo.s2.history = 6 := by decide
example : Demo.s2.recordsCountDetailed = [3, 2, 1] ∧ Demo.s2.blobsCount = 3 ∧
    Demo.s2.recordsCountInActive = some 1 := by decide
-- `ops2`: 4 writes stored (duplicates allowed), one delete returning 2
example : (Store.init true).storedWrites Demo.ops2 = 4 ∧ (Store.init true).deleteMarks Demo.ops2 = 2 := by
  decide
-- with duplicates disallowed the second write of key 1 at the same metadata is refused
example : (Store.init false).storedWrites [.write 1 5 none ⟨1, 1⟩, .closeActive, .write 1 6 none ⟨2, 2⟩] = 1 ∧
    ((Store.init false).run [.write 1 5 none ⟨1, 1⟩, .closeActive, .write 1 6 none ⟨2, 2⟩]).recordsCount = 1 := by
  decide
example : Demo.s1.added (.delete 1 9 none true) = 2 ∧ Demo.s1.added .replaceActive = 0 := by decide
-- `nextId` really moves, and `restart` recomputes it to the same value on reachable states
example : Demo.s2.nextId = 3 ∧ Demo.s2.maxId = 2 ∧ (Demo.s2.apply .replaceActive).nextId = 4 ∧
    (Demo.s2.apply (.restart false)).nextId = 3 := by decide
-- a later blob with a fresh id, and an old id still naming the continuation of the old blob
example : ((Demo.s1.run [.replaceActive, .write 9 1 none ⟨1, 1⟩]).blobs.map (·.id)) = [0, 1, 2] ∧
    Demo.s1.blobs.map (·.id) = [0, 1] := by decide

/-! ### the file-level part: the getters against a listing of the directory (`Pearl/Model/Acct.lean`)

`Acct.State` = the L2 `Store` + the `File::size()` / `findex.file_size()` counters + `corrupted_blobs` + the work
directory (blob files, index files) and its `corrupted` sub-directory.  `Acct.step` covers write (with rotation),
delete (also into closed blobs), close / create / restore of the active blob, `force_update_active_blob`, dump
passes, and restart (normal / lazy) with blob files found unreadable, under both settings of
`ignore_corrupted`. -/

/-- the four identities (plus the structural invariant they follow from).
    `blobs_count`: under `ignore_corrupted` the unreadable blob files stay in the work directory without being
    held, so the identity carries the term `s.ignored.length` (see `blobs_count_ne_files_when_ignoring`);
    `disk_used`: over the blobs the storage holds, blob file + index file if one is on disk. -/
structure AcctInv (c : Acct.Cfg) (s : Acct.State) : Prop where
  struct : Acct.Inv c s
  blobs_count : Acct.blobsCount s + s.ignored.length = Acct.dirBlobFiles s
  next_blob_id : Acct.nextBlobId s = Acct.dirNextId s
  corrupted_blobs_count : Acct.corruptedBlobsCount s = Acct.dirCorrupted s
  disk_used : Acct.diskUsed s = Acct.dirDiskUsed s

theorem AcctInv.of_inv {c : Acct.Cfg} {s : Acct.State} (h : Acct.Inv c s) : AcctInv c s :=
  ⟨h, h.blobsCount_eq, h.nextBlobId_eq, h.corrupted_eq, h.diskUsed_eq⟩

/-- one step -/
theorem acct_inv_step {c : Acct.Cfg} {s : Acct.State} (h : AcctInv c s) (op : Acct.AOp) :
    AcctInv c (Acct.step c s op) :=
  .of_inv (Acct.inv_step h.struct op)

/-- every history from the empty directory, no bound: `blobs_count`, `next_blob_id`, `corrupted_blobs_count`
    and `disk_used` are what a listing of the directory shows — before and after restarts and quarantines -/
theorem acct_inv_run (c : Acct.Cfg) (allowDup : Bool) (ops : List Acct.AOp) :
    AcctInv c (Acct.run c allowDup ops) :=
  .of_inv (Acct.inv_run c allowDup ops)

/-- without `ignore_corrupted`: `blobs_count` = number of blob files in the work directory, and `disk_used` =
    total length of the blob files and index files of the work directory -/
theorem acct_run_not_ignoring (c : Acct.Cfg) (allowDup : Bool) (ops : List Acct.AOp)
    (hops : ∀ op ∈ ops, Acct.NotIgnoring op) :
    let s := Acct.run c allowDup ops
    Acct.blobsCount s = Acct.dirBlobFiles s ∧ Acct.diskUsed s = Acct.dirTotal s := by
  intro s
  have hi : s.ignored = [] := Acct.runFrom_ignored_nil c rfl ops hops
  have h := Acct.inv_run c allowDup ops
  refine ⟨?_, h.diskUsed_total hi⟩
  have := h.blobsCount_eq
  rw [hi] at this
  exact this

/-- `disk_used` in terms of the history: per held blob, the blob header plus the records appended to it
    (deletion markers included) plus its index file, if one is on disk -/
theorem acct_disk_used_history (c : Acct.Cfg) (allowDup : Bool) (ops : List Acct.AOp) :
    let s := Acct.run c allowDup ops
    Acct.diskUsed s =
      (s.store.blobs.map (fun b => Fs.contentLen c.klen b.recs + Acct.idxFileLen s.dir b.id)).sum :=
  (Acct.inv_run c allowDup ops).diskUsed_history

/-- a held blob whose index is on disk: its share of `disk_used` is a function of its records — blob header +
    records + `idxLen` of the records — and its index file validates against the blob file (so the next start
    keeps it); an empty blob takes the blob header only -/
theorem acct_blob_disk_used (c : Acct.Cfg) (allowDup : Bool) (ops : List Acct.AOp) :
    let s := Acct.run c allowDup ops
    ∀ b ∈ s.store.blobs,
      (b.onDisk = true → Acct.blobDiskUsed s b = Fs.contentLen c.klen b.recs + c.idxLen b.recs ∧
        Acct.idxValid s.dir b.id = true) ∧
      (b.recs = [] → Acct.blobDiskUsed s b = blobHeaderSize) :=
  fun _ hb => ⟨fun ho => (Acct.inv_run c allowDup ops).blob_onDisk hb ho,
    fun he => (Acct.inv_run c allowDup ops).blob_empty hb he⟩

/-- right after a lazy start (whatever was damaged, whatever `ignore_corrupted`), `disk_used` is a function of
    the history alone: per held blob the header and the records, plus `idxLen` of the records if there are any -/
theorem disk_used_after_lazy_restart (c : Acct.Cfg) (allowDup : Bool) (ops : List Acct.AOp) (ignore : Bool)
    (bad : List Nat) :
    let s := Acct.run c allowDup (ops ++ [.restart true ignore bad])
    Acct.diskUsed s = (s.store.blobs.map (fun b =>
      Fs.contentLen c.klen b.recs + if b.recs.isEmpty then 0 else c.idxLen b.recs)).sum := by
  intro s
  have hs : Acct.run c allowDup (ops ++ [.restart true ignore bad]) =
      Acct.restart c (Acct.run c allowDup ops) true ignore bad := by
    simp [Acct.run, Acct.runFrom, List.foldl_append, Acct.step]
  exact (Acct.inv_run c allowDup _).diskUsed_closed_form
    (by rw [hs]; exact Acct.restart_lazy_onDisk c _ ignore bad)

/-! #### the record counters of an `Acct` state are those of L2 -/

/-- the `store` component of every step but `restart` is the L2 store after the L2 operations `Acct.l2 s op` -/
theorem acct_step_store (c : Acct.Cfg) (s : Acct.State) (op : Acct.AOp)
    (hr : ∀ lazy ignore bad, op ≠ .restart lazy ignore bad) :
    (Acct.step c s op).store = s.store.run (Acct.l2 s op) :=
  Acct.step_store c s op hr

/-- `restart`: the blobs found unreadable leave the history (quarantined or skipped), nothing else changes
    except that a new empty blob may appear -/
theorem acct_restart_history {c : Acct.Cfg} {s : Acct.State} (h : AcctInv c s) (lazy ignore : Bool)
    (bad : List Nat) :
    ∃ e : History, (Acct.restart c s lazy ignore bad).store.history =
        s.store.history.filter (fun p => !(Acct.unreadable s bad).contains p.1) ++ e ∧
      (∀ p ∈ e, p.2 = []) ∧ e.length ≤ 1 :=
  Acct.restart_history h.struct lazy ignore bad

/-- a history without damage is an L2 history: `recordsCount_eq_history`, `recordsCountDetailed_eq`,
    `run_count`, `run_nextId_tight`, `ids_never_reused_in_run` … speak about its `store` -/
theorem acct_run_store (c : Acct.Cfg) (allowDup : Bool) (ops : List Acct.AOp)
    (hops : ∀ op ∈ ops, Acct.NoDamage op) :
    (Acct.run c allowDup ops).store =
      (Store.init allowDup).run (Acct.l2run c (Acct.init allowDup) ops) :=
  (Acct.run_clean c allowDup ops hops).1

theorem acct_run_count (c : Acct.Cfg) (allowDup : Bool) (ops : List Acct.AOp)
    (hops : ∀ op ∈ ops, Acct.NoDamage op) :
    (Acct.run c allowDup ops).store.recordsCount =
      (Store.init allowDup).storedWrites (Acct.l2run c (Acct.init allowDup) ops) +
        (Store.init allowDup).deleteMarks (Acct.l2run c (Acct.init allowDup) ops) := by
  rw [acct_run_store c allowDup ops hops]; exact run_count allowDup _

/-- with or without damage the per-blob counters are the per-blob lengths of the history of the state -/
theorem acct_counts_eq_history (c : Acct.Cfg) (allowDup : Bool) (ops : List Acct.AOp) :
    let s := Acct.run c allowDup ops
    s.store.recordsCount = Spec.count s.store.history ∧
      s.store.recordsCountDetailed = s.store.history.map (·.2.length) ∧
      s.store.blobsCount = s.store.history.length :=
  ⟨recordsCount_eq_history _, recordsCountDetailed_eq _, blobsCount_eq _⟩

/-! #### where the code does not give the literal identity -/

/-- `ignore_corrupted = false`: an unreadable blob file is moved to `corrupted` and counted, and its index
    file is REMOVED (`remove_index_by_blob_path`) — no index file is left behind -/
theorem acct_restart_quarantines {c : Acct.Cfg} {s : Acct.State} (h : AcctInv c s) (lazy : Bool)
    (bad : List Nat) :
    let r := Acct.restart c s lazy false bad
    (∀ i ∈ Acct.unreadable s bad,
        i ∈ r.dir.corrupted ∧ i ∉ Acct.keys r.dir.blobs ∧ Acct.get r.dir.idx i = none) ∧
      r.ignored = [] ∧
      Acct.corruptedBlobsCount r = Acct.corruptedBlobsCount s + (Acct.unreadable s bad).length :=
  Acct.restart_quarantines h.struct lazy bad

/-- `ignore_corrupted = true`: an unreadable blob file stays where it is, is not held and not counted, and
    its id stays reserved -/
theorem acct_restart_ignores {c : Acct.Cfg} {s : Acct.State} (h : AcctInv c s) (lazy : Bool)
    (bad : List Nat) :
    let r := Acct.restart c s lazy true bad
    (∀ i ∈ Acct.unreadable s bad,
        i ∈ Acct.keys r.dir.blobs ∧ (∀ b ∈ r.store.blobs, b.id ≠ i) ∧ i < Acct.nextBlobId r) ∧
      r.ignored = Acct.unreadable s bad ∧ r.dir.corrupted = s.dir.corrupted ∧
      Acct.corruptedBlobsCount r = Acct.corruptedBlobsCount s ∧
      Acct.blobsCount r + (Acct.unreadable s bad).length = Acct.dirBlobFiles r :=
  Acct.restart_ignores h.struct lazy bad

/-- an index file whose blob is not held (were one left behind; or the index file of a skipped blob, which
    does stay) changes none of the four getters and none of the four listings … -/
theorem acct_orphan_index_irrelevant (s : Acct.State) (i : Nat) (f : Acct.IdxFile)
    (hn : ∀ b ∈ s.store.blobs, b.id ≠ i) : Acct.report (Acct.addIdx s i f) = Acct.report s :=
  Acct.orphan_idx_irrelevant s i f hn

/-- … and no later blob can pick it up: every index file has an id below `next_blob_id` -/
theorem acct_index_ids_reserved (c : Acct.Cfg) (allowDup : Bool) (ops : List Acct.AOp) :
    let s := Acct.run c allowDup ops
    ∀ i ∈ Acct.keys s.dir.idx, i < Acct.nextBlobId s :=
  (Acct.inv_run c allowDup ops).idx_below

namespace Acct.Demo

def cfg : Acct.Cfg := { klen := 4, idxLen := fun rs => 100 + 10 * rs.length }
def w (k ts : Nat) : Acct.AOp := .write k ts none ⟨3, 7⟩ false false

/-- two blobs, both closed; a delete into the closed blob 0 (key 1 is live there); blob 1 restored as active
    and written to -/
def ops : List Acct.AOp :=
  [w 1 1, .closeActive, w 2 2, .closeActive, .delete 1 5 none true, .restoreActive, w 4 4]

end Acct.Demo

/-- the literal `blobs_count` identity FAILS under `ignore_corrupted`: 1 blob held, 2 blob files -/
theorem blobs_count_ne_files_when_ignoring :
    let s := Acct.run Acct.Demo.cfg true (Acct.Demo.ops ++ [.restart false true [0]])
    Acct.blobsCount s = 1 ∧ Acct.dirBlobFiles s = 2 ∧ s.ignored = [0] ∧
      -- the skipped blob and its (stale) index file are in the directory but in no counter
      Acct.diskUsed s = 284 ∧ Acct.dirTotal s = 555 ∧ Acct.get s.dir.idx 0 = some ⟨110, 92⟩ := by decide

/-- defect E6 (fixed in /repo 2401d8b): with `IndexStruct::disk_used` = 0 for an index held in memory,
    `disk_used` misses the index file that stays on disk — after a restart (the active blob's index file was
    written by `close`), and after a delete into a closed blob (its index is loaded; the stale file stays until
    the next dump).  The fixed getter agrees with the directory on both. -/
theorem disk_used_before_fix_wrong :
    (let s := Acct.run Acct.Demo.cfg true [Acct.Demo.w 1 1, .restart false false []]
     Acct.diskUsedOld s = 92 ∧ Acct.dirDiskUsed s = 202 ∧ Acct.diskUsed s = 202) ∧
    (let s := Acct.run Acct.Demo.cfg true [Acct.Demo.w 1 1, .closeActive, .settle, .delete 1 5 none true]
     Acct.diskUsedOld s = 161 ∧ Acct.dirDiskUsed s = 271 ∧ Acct.diskUsed s = 271) := by decide

/-! #### non-vacuity of the file-level theorems -/

-- delete into a closed blob + restore + write: (getter, listing) for blobs_count, next_blob_id, corrupted, disk_used
example : Acct.report (Acct.run Acct.Demo.cfg true Acct.Demo.ops) = [(2, 2), (2, 2), (0, 0), (545, 545)] := by
  decide
-- … both index files are stale (written for 92 bytes; the blob files have 161 and 164) and still counted;
-- the pre-fix getter misses both
example :
    let s := Acct.run Acct.Demo.cfg true Acct.Demo.ops
    s.dir.idx = [(0, ⟨110, 92⟩), (1, ⟨110, 92⟩)] ∧ s.dir.blobs = [(0, 161), (1, 164)] ∧
      Acct.diskUsedOld s = 325 := by decide
-- restart: the closed blob gets a fresh index file, so does the active one (`close`), whose index is in memory
example :
    let s := Acct.run Acct.Demo.cfg true (Acct.Demo.ops ++ [.restart false false []])
    Acct.report s = [(2, 2), (2, 2), (0, 0), (565, 565)] ∧
      s.dir.idx = [(1, ⟨120, 164⟩), (0, ⟨120, 161⟩)] ∧ Acct.diskUsedOld s = 445 := by decide
-- quarantine (`ignore_corrupted = false`): blob 0 moved, its index file removed, counted; its id stays reserved
example :
    let s := Acct.run Acct.Demo.cfg true (Acct.Demo.ops ++ [.restart false false [0]])
    Acct.report s = [(1, 1), (2, 2), (1, 1), (284, 284)] ∧ s.dir.corrupted = [0] ∧
      Acct.keys s.dir.idx = [1] ∧ Acct.diskUsed s = Acct.dirTotal s := by decide
-- skipped (`ignore_corrupted = true`), then quarantined by the next start without the flag; a lazy start of a
-- directory where every blob is unreadable holds nothing, and the start after that runs `init_new` and
-- creates blob 2, not blob 0
example :
    let s := Acct.run Acct.Demo.cfg true
      (Acct.Demo.ops ++ [.restart false true [0], .restart true false [1], .restart true false []])
    Acct.report s = [(1, 1), (3, 3), (2, 2), (20, 20)] ∧ s.dir.corrupted = [0, 1] ∧
      s.dir.blobs = [(2, 20)] ∧ s.store.blobs.map (·.id) = [2] := by decide
-- after a lazy start `disk_used` is the closed form: 2 blobs of 2 records, index files of 120 bytes
example :
    let s := Acct.run Acct.Demo.cfg true (Acct.Demo.ops ++ [.restart true false []])
    Acct.diskUsed s = 565 ∧ s.store.blobs.map (fun b => (Fs.contentLen 4 b.recs, b.recs.length, b.onDisk)) =
      [(161, 2, true), (164, 2, true)] := by decide
-- rotation and `force_update_active_blob`
example : Acct.report (Acct.run Acct.Demo.cfg true
      (Acct.Demo.ops ++ [.write 9 9 none ⟨1, 1⟩ true true, .force true, Acct.Demo.w 5 5])) =
    [(4, 4), (4, 4), (0, 0), (757, 757)] := by decide
-- `acct_inv_run` / `acct_restart_quarantines` / `acct_restart_ignores` instantiated; their `∀ i ∈ unreadable …` is
-- not vacuous here
example : AcctInv Acct.Demo.cfg
    (Acct.run Acct.Demo.cfg true (Acct.Demo.ops ++ [.restart false true [0], .restart true false [1]])) :=
  acct_inv_run _ _ _
example : Acct.unreadable (Acct.run Acct.Demo.cfg true Acct.Demo.ops) [0, 7] = [0] ∧
    Acct.unreadable (Acct.run Acct.Demo.cfg true (Acct.Demo.ops ++ [.restart false true [0]])) [1] = [0, 1] := by
  decide
example :
    let r := Acct.restart Acct.Demo.cfg (Acct.run Acct.Demo.cfg true Acct.Demo.ops) false false [0, 7]
    Acct.corruptedBlobsCount r = 0 + 1 ∧ Acct.get r.dir.idx 0 = none :=
  let h := acct_restart_quarantines (acct_inv_run Acct.Demo.cfg true Acct.Demo.ops) false [0, 7]
  ⟨h.2.2, (h.1 0 (by decide)).2.2⟩
-- the hypotheses of `acct_run_not_ignoring` / `acct_run_store` are satisfiable with every kind of operation
example : ∀ op ∈ Acct.Demo.ops ++ [.force true, .settle, .createActive, .restart true false [1]],
    Acct.NotIgnoring op := by decide
example : ∀ op ∈ Acct.Demo.ops ++ [.force true, .settle, .createActive, .restart true true []],
    Acct.NoDamage op := by decide
example : Acct.l2run Acct.Demo.cfg (Acct.init true) [Acct.Demo.w 1 1, .closeActive, .restart false false []] =
    [.write 1 1 none ⟨3, 7⟩, .closeActive, .settle, .restart false] := rfl
-- an orphan index file: in the directory, in no counter
example :
    let s := Acct.run Acct.Demo.cfg true Acct.Demo.ops
    Acct.report (Acct.addIdx s 7 ⟨55, 0⟩) = Acct.report s ∧
      Acct.dirTotal (Acct.addIdx s 7 ⟨55, 0⟩) = Acct.dirTotal s + 55 := by decide

/-! #### the model in lock-step with the implementation (`fcounts` correspondence)

The correspondence driver (`Pearl/Model/Driver.lean`) carries an `Acct.State` (`d.acct`, `Pearl/Model/AcctScript.lean`),
steps it by the `Acct.AOp`s every script line stands for, and answers the `fcounts` command from it; the harness
answers `fcounts` from the real `Storage` getters and a listing of the real directory, and the two answers are
compared line by line.  The theorems below say that whatever the script, the state `fcounts` is printed from is a state
of the proved model, run with the real record sizes and the real index file length. -/

/-- for every script the accounting state of the driver is `Acct.run` of some operations, under the configuration of
    the scenario the driver is in -/
theorem driver_acct_is_run (lines : List String) :
    ∃ ops : List Acct.AOp,
      (Driver.runScript lines).acct.st =
        Acct.run (Driver.runScript lines).acct.cfg (Driver.runScript lines).acct.dup ops :=
  Driver.acct_is_run lines

/-- … so the four identities hold of every state the driver answers `fcounts` from -/
theorem driver_acct_inv (lines : List String) :
    AcctInv (Driver.runScript lines).acct.cfg (Driver.runScript lines).acct.st :=
  .of_inv (Driver.acct_inv lines)

/-- `fcounts` is answered from that state, and does not change the driver state -/
theorem driver_fcounts (d : Driver.DState) (line : String)
    (h : (Driver.acctToks line).filter (fun t => !t.startsWith "@") = ["fcounts"]) :
    Driver.step d line = (d, AcctScript.showFcounts d.acct) :=
  Driver.step_fcounts d line h

/-- `Acct.Cfg.idxLen` of the driver is the length of the index file image of the L4 byte model (C09), for every key
    length below the fan-out bound of C09 -/
theorem driver_idxLen_real (a : AcctScript.AD) (hK : a.klen ≤ 2032) (b : Blob) :
    a.cfg.idxLen b.recs = (Driver.indexImage a.klen b (a.metaLen.getD 0)).length :=
  (AcctScript.idxLenReal_eq_image a.klen hK b _).symm

-- a concrete script (instantiation; the statements have no hypothesis to be vacuous about)
example := driver_acct_inv ["cfg key=4 dup=1 bloom=off ignore=0 @meta=89", "w 00000001 5 - 10 1", "force always",
  "nomodel", "restart bdmg=0:magic", "fcounts"]
-- the real index file of two 4-byte-key records without a bloom filter has 310 bytes (`indexsum` of the
-- implementation: `0:310:89:…`); two keys with 3 + 1 records: 83 + 89 + 16 + 4 * 61
example : AcctScript.idxLenReal 4 89 [⟨1, 5, false, none, ⟨10, 1⟩⟩, ⟨2, 5, false, none, ⟨10, 2⟩⟩] = 310 := by
  decide
example : AcctScript.idxLenReal 4 89
    [⟨1, 5, false, none, ⟨10, 1⟩⟩, ⟨2, 5, false, none, ⟨0, 0⟩⟩, ⟨1, 7, true, none, ⟨0, 0⟩⟩, ⟨1, 3, false, some [1], ⟨3, 3⟩⟩] =
    83 + 89 + 16 + 4 * 61 := by decide
-- seven records with 1000-byte keys: three leaf blocks under a root node of two keys; the implementation's index file
-- has 11611 bytes with a filter section of 2081 (`indexsum`: `0:11611:2081:…`)
example : AcctScript.idxLenReal 1000 2081 ((List.range 7).map fun i => ⟨i + 1, 5, false, none, ⟨0, 0⟩⟩) = 11611 := by
  decide
example : AcctScript.metaLenOf 4 0 = 89 ∧ AcctScript.metaLenOf 1 64 = 91 ∧ AcctScript.metaLenOf 1000 0 = 2081 := by
  decide

/-! #### `next_blob_id` never decreases: full strength

`nextId_monotone_partial` (L2) needs `nextId` = some held id + 1 (`nextId_monotone_false`: under `WF` alone it fails), and
`run_nextId_monotone` discharges that for every L2 history — but an L2 history has no damage.  Once blob files can be
quarantined the hypothesis fails on reachable storages, and the L2 `restart` (greatest HELD id + 1) would hand a
quarantined id out again; the implementation counts the ids of `corrupted` (`reserve_old_corrupted_blob_ids`), and so
does `Acct.restart`.  On the directory-level model monotonicity holds for every history without any hypothesis. -/

/-- full strength: along every directory-level history (restarts, quarantines, skipped blobs), `next_blob_id` never
    decreases -/
theorem acct_next_blob_id_monotone (c : Acct.Cfg) (allowDup : Bool) (ops more : List Acct.AOp) :
    Acct.nextBlobId (Acct.run c allowDup ops) ≤ Acct.nextBlobId (Acct.run c allowDup (ops ++ more)) := by
  have : Acct.run c allowDup (ops ++ more) = Acct.runFrom c (Acct.run c allowDup ops) more :=
    Acct.runFrom_append c _ ops more
  rw [this]
  exact Acct.runFrom_nextId_le (Acct.inv_run c allowDup ops) more

/-- … and exactly by the number of blob files the operation creates -/
theorem acct_next_blob_id_step (c : Acct.Cfg) (allowDup : Bool) (ops : List Acct.AOp) (op : Acct.AOp) :
    Acct.nextBlobId (Acct.run c allowDup (ops ++ [op])) =
      Acct.nextBlobId (Acct.run c allowDup ops) + (Acct.stepC c (Acct.run c allowDup ops) op).created.length := by
  have h := (Acct.stepC_fileStep (Acct.inv_run c allowDup ops) op).next
  rw [Acct.stepC_st] at h
  have : Acct.run c allowDup (ops ++ [op]) = Acct.step c (Acct.run c allowDup ops) op :=
    Acct.runFrom_append c _ ops [op]
  rw [this]; exact h

/-- why the hypothesis of `nextId_monotone_partial` cannot be dropped for the L2 store of a storage that has seen a
    quarantine: blob 1 (the highest) is quarantined, the store holds blob 0 only with `nextId` = 2 — well-formed, not
    tight — and the L2 `restart` would lower `nextId` to 1, the id of the quarantined file; the directory-level
    restart keeps 2 -/
theorem nextId_tightness_lost_by_quarantine :
    let s := Acct.run Acct.Demo.cfg true [Acct.Demo.w 1 1, .closeActive, Acct.Demo.w 2 2, .restart false false [1]]
    s.store.WF ∧ s.dir.corrupted = [1] ∧ s.store.nextId = 2 ∧ s.store.blobs.map (·.id) = [0] ∧
      ¬ (∃ b ∈ s.store.blobs, s.store.nextId = b.id + 1) ∧
      (s.store.apply (.restart false)).nextId = 1 ∧
      Acct.nextBlobId (Acct.step Acct.Demo.cfg s (.restart false false [])) = 2 := by
  refine ⟨(Acct.inv_run _ _ _).wf, ?_⟩
  decide

example := acct_next_blob_id_monotone Acct.Demo.cfg true Acct.Demo.ops [.restart false true [0], .restart true false [1]]
example : Acct.nextBlobId (Acct.run Acct.Demo.cfg true Acct.Demo.ops) = 2 ∧
    Acct.nextBlobId (Acct.run Acct.Demo.cfg true
      (Acct.Demo.ops ++ [.restart false true [0], .restart true false [1], .restart true false []])) = 3 := by decide

/-
NOT YET PROVED (C15, file part):
* the link between `Acct.step` and the real file operations is by construction of the model from the sources
  listed in `Pearl/Model/Acct.lean`, and — new — by the `fcounts` correspondence check: the driver steps `Acct.State`
  in lock-step with the script (`driver_acct_is_run`) and its answers are compared with the implementation's.  What
  the correspondence does NOT cover (the driver answers `fcounts ?`): damage whose effect the record scanner decides
  (`cut`, `dflip`: a blob that stays readable with a shorter file or without its index file is not an `Acct.AOp`),
  index damage / removal between sessions, fault injection, really cancelled operations, requests left in the
  worker's queue at `close`;  a rotation that meets a still running dump task (the dump is then deferred) is
  assumed not to happen: scripts probe (`fcounts` quiesces) between rotations;
* `idxLen` is now the real one for the driver (`driver_idxLen_real`: `fileSize` of the C09 serializer model = length
  of its byte image); the length of the filter section is an input (`@meta=` / `@bits=` from the implementation;
  `AcctScript.metaLenOf` is read off `serialize_filters` and agreed with the implementation on every configuration
  tried); the theorems over `Acct.run` stay parametric in `idxLen`;
* `disk_used` as a function of the history alone is proved where every non-empty held blob has its index on
  disk (`Acct.Inv.diskUsed_closed_form`, `disk_used_after_lazy_restart`); in between, the index-file term is the
  length of the file found in the directory (`acct_disk_used_history`), which `Acct.BlobOK.snap` ties to a
  prefix of the records (the records at the last dump) without naming that prefix in the statement;
* errors of `Blob::from_file` for which `should_save_corrupted_blob` is false make `init` fail and are outside
  the model; so are crashes (torn files) between the operations — `restart` is `close` + `init`;
* `fsync`, memory accounting (`index_memory`) and the bloom-filter getters are not covered.
-/

end Pearl
