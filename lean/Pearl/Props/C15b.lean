import Pearl.Proofs.ConcCreate
/-
C15 (accounting: "`next_blob_id` … always equal the values implied by the history … blobs that currently exist, files
on disk") and C08 (concurrency: "a blob id that was ever used is never assigned to a new blob") for CONCURRENT first
operations: `Pearl.ConcCreate` (`Pearl/Model/ConcCreate.lean`; invariant `ConcCreate.Inv` and its preservation in
`Pearl/Proofs/ConcCreate.lean`).

`N` clients, each running `firstOp` (the head of `Storage::write_with_optional_meta` = `try_create_active_blob` =
`Inner::create_active_blob`: unlocked pre-check, exclusive lock, `ensure_active_blob_exists`; the no-active-blob
branch of `delete_with_optional_meta` has the same shape) or `closeActive` (`Inner::close_active_blob`), in the atomic
steps of the code, any interleaving, `open_new` / `fsyncdata` allowed to fail at their suspension points.
No bound on `N` or on the length of the schedule: induction over the run with the explicit invariant.

For every state reachable from a state `s0` with `Start s0` (= both invariants; `start_initAt n`: a directory holding
the closed blobs `0 … n-1` and no active blob, `init` = the empty directory; `start_initActive n`: the same plus the
active blob `n`, what `Storage::init` leaves behind; the invariants are inductive, `inv_inductive`):

* `lock_exclusive`            : at most one client is between `safe.write().await` and the drop of the guard;
* `owners_are_files`          : `closed ++ active ++ uninstalled = files` AS LISTS (creation order): no file without
                                an owner, no owner without a file.  `uninstalled` is `[id]` exactly while the lock
                                holder stands between "file `id` created" and "installed", else `[]`;
* `ids_used_once`             : `files ++ taking ++ burned` has no duplicates (C08: an id, once handed out, is never
                                handed out again — also not an id whose creation failed), `files ++ taking` is strictly
                                increasing in creation order.  `taking` is `[id]` exactly while the lock holder stands
                                between "`id` taken from `next_blob_id`" and "file created";
* `in_ensure_precise`         : `taking` / `uninstalled` are what the program counters say: a client at
                                `creating id` / `created id` makes them `[id]` (and then there is no active blob), nobody
                                there makes them `[]`;
* `next_id_tight`             : no creation failed so far ⇒ `files ++ taking = [0, …, nextId-1]`,
                                `nextId = maxSucc (files ++ taking)` (`maxSucc` = largest + 1, 0 for none);
* `next_id_is_max_file_plus_one` : … and nobody between "id taken" and "file created" ⇒ `nextId = maxSucc files`;
* `next_id_bound`             : always (failures allowed) `maxSucc files ≤ nextId`,
                                `nextId = maxSucc (files ++ taking ++ burned) = #files + #taking + #burned`;
* `quiescent_one_id_per_blob` (`_sched`) : everybody returned, nothing failed ⇒ `nextId = files.length`,
                                `files = [0, …, nextId-1]`, `closed ++ active = files` — whatever `N` and the schedule;
                                with failures `nextId = #files + #burned` (`quiescent_ids_accounted`);
* `counter_and_files_monotone`: along a run the counter never decreases, `files` only grows at its end;
* `no_deadlock`, `every_run_is_finite`, `all_clients_finish`, `lock_free_at_quiescence`, `shared_count` : the lock side:
                                some client can always move until all have returned, no run is longer than `7·N`
                                steps, the shared count of the lock is the number of clients inside the pre-check.

The seeded variant (`ensureSeeded`: `next_blob_name()` hoisted above the test):
* `seeded_burns_ids`          : two clients, both pre-checks first: ends with `nextId = 2`, `files = [0]`, nothing
                                failed; `Inv` and `nextId = maxSucc files` are false there; the code as it is ends the
                                same schedule with `nextId = 1`;
* `seeded_only_overcounts`    : what the seeded variant keeps: `maxSucc files ≤ nextId` (why only an EXACT accounting
                                check, after truly simultaneous first operations, sees the change).

The window the code does have (FIXME at `next_blob_name`):
* `failed_creation_burns_id`  : `open_new` fails after the id was taken: `nextId = 2`, `files = [1]` — a hole at 0,
                                `nextId = maxSucc files` by luck of the later creation; right after the failure
                                `nextId = 1 > maxSucc files = 0`.  `next_id_bound` is the invariant that stays true.
-/
namespace Pearl
namespace C15b

open ConcCreate

/-- three clients (two first operations, one close), all of `Demo.sched3ok`: quiescent -/
def demoEnd : State :=
  { active := none, closed := [0], files := [0], nextId := 1, lock := .free, burned := []
    clients := [⟨.firstOp, .done (.created 0)⟩, ⟨.firstOp, .done .raced⟩, ⟨.closeActive, .done (.closed 0)⟩] }

theorem demoEnd_run : runSched false Demo.sched3ok (init Demo.kinds3) = some demoEnd := by decide

theorem demoEnd_reach : Reach false (initAt 0 Demo.kinds3) demoEnd := reach_of_sched demoEnd_run

/-- the same run stopped after client 0 took its id (both pre-checks done, client 1 waiting for the lock) -/
def demoMid : State :=
  { active := none, closed := [], files := [], nextId := 1, lock := .excl 0, burned := []
    clients := [⟨.firstOp, .creating 0⟩, ⟨.firstOp, .preDone false⟩, ⟨.closeActive, .start⟩] }

theorem demoMid_run : runSched false (Demo.sched3.take 6) (init Demo.kinds3) = some demoMid := by decide

theorem demoMid_reach : Reach false (initAt 0 Demo.kinds3) demoMid := reach_of_sched demoMid_run

/-- … and one step later: the file exists, the blob is not installed -/
def demoMid2 : State :=
  { active := none, closed := [], files := [0], nextId := 1, lock := .excl 0, burned := []
    clients := [⟨.firstOp, .created 0⟩, ⟨.firstOp, .preDone false⟩, ⟨.closeActive, .start⟩] }

theorem demoMid2_reach : Reach false (initAt 0 Demo.kinds3) demoMid2 :=
  reach_of_sched (ls := Demo.sched3.take 7) (by decide)

/-- `Reach` is "some schedule runs" -/
theorem reach_iff_sched {sd : Bool} {s0 s : State} : Reach sd s0 s ↔ ∃ ls, runSched sd ls s0 = some s :=
  ⟨sched_of_reach, fun ⟨_, h⟩ => reach_of_sched h⟩

/-- the invariant holds in every reachable state of the code as it is (failing I/O included) -/
theorem inv_reachable {s0 s : State} (h0 : Start s0) (hr : Reach false s0 s) : Inv s :=
  h0.inv.reach hr

/-- … and it is inductive: a run may start in ANY state satisfying it -/
theorem inv_inductive {s s' : State} (h : Inv s) (hs : Step false s s') : Inv s' := by
  obtain ⟨l, hl⟩ := hs; exact h.fire hl

example : Inv demoMid := inv_reachable (start_initAt 0 _) demoMid_reach

/-! ### (1) the invariant, clause by clause -/

/-- at most one client is inside the exclusive section -/
theorem lock_exclusive {s0 s : State} (h0 : Start s0) (hr : Reach false s0 s)
    {i j : Nat} {ci cj : Client} (hi : s.clients[i]? = some ci) (hj : s.clients[j]? = some cj)
    (hxi : ci.pc.holdsX = true) (hxj : cj.pc.holdsX = true) : i = j ∧ s.lock = .excl i :=
  ⟨(inv_reachable h0 hr).exclusive hi hj hxi hxj, (inv_reachable h0 hr).mutex i ci hi hxi⟩

/-- no file without an owner, no owner without a file; as lists, in the order of creation -/
theorem owners_are_files {s0 s : State} (h0 : Start s0) (hr : Reach false s0 s) :
    s.closed ++ s.active.toList ++ uninstalled s = s.files :=
  (inv_reachable h0 hr).own

example : demoMid2.closed ++ demoMid2.active.toList ++ uninstalled demoMid2 = demoMid2.files ∧
    uninstalled demoMid2 = [0] ∧ demoMid2.closed ++ demoMid2.active.toList ≠ demoMid2.files :=
  ⟨owners_are_files (start_initAt 0 _) demoMid2_reach, by decide, by decide⟩

/-- C08: ids are handed out once (burned ones are not reused either) and increase in creation order -/
theorem ids_used_once {s0 s : State} (h0 : Start s0) (hr : Reach false s0 s) :
    (s.files ++ taking s ++ s.burned).Nodup ∧ s.files.Nodup ∧
      (s.files ++ taking s).Pairwise (· < ·) ∧ s.files.Pairwise (· < ·) ∧
      (∀ x ∈ s.files ++ taking s ++ s.burned, x < s.nextId) := by
  have h := inv_reachable h0 hr
  refine ⟨h.ids_nodup, ?_, h.files_sorted, ?_, ?_⟩
  · exact (List.nodup_append.1 (List.nodup_append.1 h.ids_nodup).1).1
  · exact (List.pairwise_append.1 h.files_sorted).1
  · intro x hx
    rcases List.mem_append.1 hx with hx | hx
    · exact h.files_lt x hx
    · exact h.burn x hx

/-- `taking` and `uninstalled`, read off the lock holder in the model, are what the program counters of ALL the
    clients say -/
theorem in_ensure_precise {s0 s : State} (h0 : Start s0) (hr : Reach false s0 s) :
    (∀ (i : Nat) (c : Client) (id : Nat), s.clients[i]? = some c → c.pc = .creating id →
        taking s = [id] ∧ uninstalled s = [] ∧ s.active = none) ∧
    (∀ (i : Nat) (c : Client) (id : Nat), s.clients[i]? = some c → c.pc = .created id →
        taking s = [] ∧ uninstalled s = [id] ∧ s.active = none) ∧
    (∀ id, taking s = [id] → ∃ i c, s.lock = .excl i ∧ s.clients[i]? = some c ∧ c.pc = .creating id) ∧
    (∀ id, uninstalled s = [id] → ∃ i c, s.lock = .excl i ∧ s.clients[i]? = some c ∧ c.pc = .created id) ∧
    ((∀ c ∈ s.clients, ∀ id, c.pc ≠ .creating id) → taking s = []) ∧
    ((∀ c ∈ s.clients, ∀ id, c.pc ≠ .created id) → uninstalled s = []) :=
  ⟨fun _ _ _ hc hpc => (inv_reachable h0 hr).of_creating hc hpc,
   fun _ _ _ hc hpc => (inv_reachable h0 hr).of_created hc hpc,
   fun _ => exists_of_taking, fun _ => exists_of_uninstalled,
   taking_nil_of_no_creating, uninstalled_nil_of_no_created⟩

example : taking demoMid = [0] ∧ uninstalled demoMid = [] ∧ demoMid.active = none :=
  (in_ensure_precise (start_initAt 0 _) demoMid_reach).1 0 _ 0 rfl rfl

/-- no creation failed so far: the ids of the files, then the id in flight, are exactly `0, 1, …, nextId-1` -/
theorem next_id_tight {s0 s : State} (h0 : Start s0) (hr : Reach false s0 s)
    (hb : s.burned = []) :
    s.files ++ taking s = List.range s.nextId ∧ s.nextId = maxSucc (s.files ++ taking s) ∧
      s.nextId = s.files.length + (taking s).length :=
  ⟨(inv_reachable h0 hr).files_eq_range hb, (inv_reachable h0 hr).nextId_eq_maxSucc hb, by
    have := (inv_reachable h0 hr).cnt; rw [hb] at this; simpa using this.symm⟩

example : demoMid.files ++ taking demoMid = List.range demoMid.nextId ∧ demoMid.nextId = 1 ∧
    maxSucc demoMid.files = 0 :=
  ⟨(next_id_tight (start_initAt 0 _) demoMid_reach rfl).1, rfl, rfl⟩

/-- (1), as asked: nothing failed and nobody stands between "id taken" and "file created" ⇒
    `next_blob_id` = largest file id + 1 (0 without files), the files are `0 … nextId-1` -/
theorem next_id_is_max_file_plus_one {s0 s : State} (h0 : Start s0)
    (hr : Reach false s0 s) (hb : s.burned = [])
    (hno : ∀ c ∈ s.clients, ∀ id, c.pc ≠ .creating id) :
    s.nextId = maxSucc s.files ∧ s.files = List.range s.nextId ∧ s.nextId = s.files.length := by
  have ht := taking_nil_of_no_creating hno
  have := next_id_tight h0 hr hb
  rw [ht] at this
  simp only [List.append_nil, List.length_nil, Nat.add_zero] at this
  exact ⟨this.2.1, this.1, this.2.2⟩

example : demoMid2.nextId = maxSucc demoMid2.files ∧ demoMid2.files = List.range demoMid2.nextId ∧
    demoMid2.nextId = demoMid2.files.length :=
  next_id_is_max_file_plus_one (start_initAt 0 _) demoMid2_reach rfl (by
    intro c hc id
    simp only [demoMid2, List.mem_cons, List.not_mem_nil, or_false] at hc
    rcases hc with rfl | rfl | rfl <;> simp)

/-- (4) what stays true when creations fail: the counter bounds the file ids, and counts every id handed out -/
theorem next_id_bound {s0 s : State} (h0 : Start s0) (hr : Reach false s0 s) :
    maxSucc s.files ≤ s.nextId ∧ maxSucc (s.files ++ taking s) ≤ s.nextId ∧
      s.nextId = maxSucc (s.files ++ taking s ++ s.burned) ∧
      s.nextId = s.files.length + (taking s).length + s.burned.length ∧
      (s.burned = [] → s.nextId = maxSucc (s.files ++ taking s)) := by
  have h := inv_reachable h0 hr
  refine ⟨?_, h.maxSucc_le, h.nextId_eq_maxSucc_all, h.cnt.symm, h.nextId_eq_maxSucc⟩
  have := h.maxSucc_le
  rw [maxSucc_append] at this
  omega

/-- along a run: the counter never goes back, files are only appended, burned ids stay burned -/
theorem counter_and_files_monotone {sd : Bool} {s0 s : State} (hr : Reach sd s0 s) :
    s0.nextId ≤ s.nextId ∧ s0.files <+: s.files ∧ s0.burned <:+ s.burned ∧ s.clients.length = s0.clients.length :=
  reach_mono hr

/-! ### (2) quiescence -/

/-- everybody returned: nobody is inside `ensure`; every id handed out is a file or was burned by a failed creation;
    every file is closed or active -/
theorem quiescent_ids_accounted {s0 s : State} (h0 : Start s0) (hr : Reach false s0 s)
    (hq : quiescent s) :
    taking s = [] ∧ uninstalled s = [] ∧ s.closed ++ s.active.toList = s.files ∧
      s.nextId = s.files.length + s.burned.length ∧
      s.files = (List.range s.nextId).filter (fun x => decide (x ∉ s.burned)) := by
  have h := inv_reachable h0 hr
  have ht := taking_nil_of_quiescent hq
  have hu := uninstalled_nil_of_quiescent hq
  refine ⟨ht, hu, ?_, ?_, ?_⟩
  · have := h.own; rw [hu] at this; simpa using this
  · have := h.cnt; rw [ht] at this; simpa using this.symm
  · have := h.ids; rw [ht] at this; simpa using this

/-- (2): all clients finished, no creation failed: exactly one id per blob that exists, whatever `N` and the
    schedule were; from the empty directory (`n = 0`) or from `n` closed blobs -/
theorem quiescent_one_id_per_blob {s0 s : State} (h0 : Start s0) (hr : Reach false s0 s)
    (hq : quiescent s) (hb : s.burned = []) :
    s.nextId = s.files.length ∧ s.files = List.range s.nextId ∧ s.nextId = maxSucc s.files ∧
      s.closed ++ s.active.toList = s.files := by
  obtain ⟨ht, _, ho, hc, _⟩ := quiescent_ids_accounted h0 hr hq
  have := next_id_tight h0 hr hb
  rw [ht] at this
  exact ⟨by rw [hc, hb]; rfl, by simpa using this.1, by simpa using this.2.1, ho⟩

/-- the same, on schedules: a schedule without failing I/O that runs everybody to the end -/
theorem quiescent_one_id_per_blob_sched {kinds : List Kind} {ls : List Label} {s : State}
    (hrun : runSched false ls (init kinds) = some s) (hok : ∀ l ∈ ls, l.isFail = false) (hq : quiescent s) :
    s.nextId = s.files.length ∧ s.files = List.range s.nextId ∧ s.closed ++ s.active.toList = s.files := by
  have hb : s.burned = [] := burned_of_failure_free hrun hok
  have := quiescent_one_id_per_blob (start_initAt 0 kinds) (reach_of_sched hrun) hq hb
  exact ⟨this.1, this.2.1, this.2.2.2⟩

example : quiescent demoEnd ∧ demoEnd.nextId = 1 ∧ demoEnd.files = [0] := by decide
example : demoEnd.nextId = demoEnd.files.length ∧ demoEnd.files = List.range demoEnd.nextId ∧
    demoEnd.closed ++ demoEnd.active.toList = demoEnd.files :=
  quiescent_one_id_per_blob_sched demoEnd_run (by decide) (by decide)

/-- three racing first operations and nothing else: one blob, one id -/
example : (runSched false
      [.step 0, .step 1, .step 2, .step 0, .step 1, .step 2,                       -- three pre-checks: "none"
       .step 2, .step 2, .step 2, .step 2, .step 2,                                -- 2 creates blob 0
       .step 0, .step 0, .step 0, .step 1, .step 1, .step 1]                       -- 0 and 1 lose the race
      (init [.firstOp, .firstOp, .firstOp])).map (fun s => (decide (quiescent s), s.nextId, s.files, s.active)) =
    some (true, 1, [0], some 0) := by decide

/-- the usual start: an active blob exists (`initActive 0`: blob 0); a close, then two racing first operations:
    one new blob, one new id -/
def demoActiveSched : List Label :=
  [.step 0, .step 0, .step 0, .step 0, .step 0, .step 0,               -- 0 closes blob 0
   .step 1, .step 2, .step 1, .step 2,                                  -- both pre-checks: "none"
   .step 2, .step 2, .step 2, .step 2, .step 2,                         -- 2 creates blob 1
   .step 1, .step 1, .step 1]                                           -- 1 loses the race

example : (runSched false demoActiveSched (initActive 0 [.closeActive, .firstOp, .firstOp])).map
      (fun s => (decide (quiescent s), s.nextId, s.files, s.closed, s.active)) =
    some (true, 2, [0, 1], [0], some 1) := by decide

example : ∀ s, runSched false demoActiveSched (initActive 0 [.closeActive, .firstOp, .firstOp]) = some s →
    quiescent s → s.nextId = s.files.length ∧ s.files = List.range s.nextId :=
  fun s h hq =>
    have hb : s.burned = [] := burned_of_failure_free h (by decide)
    ⟨(quiescent_one_id_per_blob (start_initActive 0 _) (reach_of_sched h) hq hb).1,
     (quiescent_one_id_per_blob (start_initActive 0 _) (reach_of_sched h) hq hb).2.1⟩

/-! ### (3) the seeded variant -/

/-- `next_blob_name()` hoisted above the "already active" test: two simultaneous first operations (both pre-checks
    before either creation) leave `next_blob_id = 2` with the single file `0`; nothing failed; the invariant and
    the equation `nextId = maxSucc files` are false in that (quiescent) state.  The code as it is ends the same
    schedule with `next_blob_id = 1`. -/
def seededEnd : State :=
  { active := some 0, closed := [], files := [0], nextId := 2, lock := .free, burned := []
    clients := [⟨.firstOp, .done (.created 0)⟩, ⟨.firstOp, .done .raced⟩] }

theorem seeded_burns_ids :
    (∃ s, runSched true Demo.sched2 (init [.firstOp, .firstOp]) = some s ∧
      Reach true (init [.firstOp, .firstOp]) s ∧ quiescent s ∧
      s.nextId = 2 ∧ s.files = [0] ∧ s.active = some 0 ∧ s.closed = [] ∧ s.burned = [] ∧
      s.nextId ≠ maxSucc s.files ∧ s.nextId ≠ s.files.length ∧ ¬ Inv s) ∧
    (∃ s, runSched false Demo.sched2 (init [.firstOp, .firstOp]) = some s ∧ quiescent s ∧
      s.nextId = 1 ∧ s.files = [0] ∧ s.active = some 0) := by
  refine ⟨⟨seededEnd, ?_⟩,
          ⟨{ active := some 0, closed := [], files := [0], nextId := 1, lock := .free, burned := []
             clients := [⟨.firstOp, .done (.created 0)⟩, ⟨.firstOp, .done .raced⟩] }, by decide⟩⟩
  have hrun : runSched true Demo.sched2 (init [.firstOp, .firstOp]) = some seededEnd := by decide
  refine ⟨hrun, reach_of_sched hrun, by decide, rfl, rfl, rfl, rfl, rfl, by decide, by decide, ?_⟩
  intro h
  exact absurd h.cnt (by decide)

/-- the same with three clients (two racing first operations, then a close and a THIRD first operation that has to
    create): the seeded variant leaves a hole in the file ids -/
example : (runSched true
      (Demo.sched2 ++ [.step 2, .step 2, .step 2, .step 2, .step 2, .step 2,      -- 2 closes blob 0
                       .step 3, .step 3, .step 3, .step 3, .step 3, .step 3, .step 3])
      (init [.firstOp, .firstOp, .closeActive, .firstOp])).map (fun s => (s.nextId, s.files, s.closed, s.active)) =
    some (3, [0, 2], [0], some 2) := by decide

example : (runSched false
      (Demo.sched2 ++ [.step 2, .step 2, .step 2, .step 2, .step 2, .step 2,
                       .step 3, .step 3, .step 3, .step 3, .step 3, .step 3, .step 3])
      (init [.firstOp, .firstOp, .closeActive, .firstOp])).map (fun s => (s.nextId, s.files, s.closed, s.active)) =
    some (2, [0, 1], [0], some 1) := by decide

/-- what the seeded variant does keep (so the change is invisible to every check that only asks for "the counter is
    above the ids in use"): for BOTH variants, failures included, every file id and every id in flight is below the
    counter -/
theorem seeded_only_overcounts {sd : Bool} {s0 s : State} (h0 : Bounded s0) (hr : Reach sd s0 s) :
    maxSucc s.files ≤ s.nextId ∧
      ∀ c ∈ s.clients, ∀ id, (c.pc = .creating id ∨ c.pc = .created id) → id < s.nextId :=
  ⟨maxSucc_le (h0.reach hr).1, (h0.reach hr).2⟩

example : maxSucc seededEnd.files ≤ seededEnd.nextId :=
  (seeded_only_overcounts (bounded_initAt 0 _)
    (reach_of_sched (sd := true) (ls := Demo.sched2) (s0 := init [.firstOp, .firstOp]) (by decide))).1

/-! ### (4) the window the code does have -/

/-- `open_new` fails after the id was taken (the FIXME at `next_blob_name`): the id is gone.  Right after the
    failure `next_blob_id = 1` over an empty directory; after the next creation the only file is `1`.
    `next_id_tight` does not apply (`burned ≠ []`); `next_id_bound` does. -/
theorem failed_creation_burns_id :
    (∃ s, runSched false (Demo.sched3fail.take 8) (init Demo.kinds3) = some s ∧
      s.nextId = 1 ∧ s.files = [] ∧ s.burned = [0] ∧ taking s = [] ∧ s.nextId ≠ maxSucc s.files) ∧
    (∃ s, runSched false Demo.sched3fail (init Demo.kinds3) = some s ∧ quiescent s ∧
      s.nextId = 2 ∧ s.files = [1] ∧ s.closed = [1] ∧ s.burned = [0] ∧
      s.nextId ≠ s.files.length ∧ s.nextId = s.files.length + s.burned.length) := by
  refine ⟨⟨{ active := none, closed := [], files := [], nextId := 1, lock := .free, burned := [0]
             clients := [⟨.firstOp, .done (.createFailed 0)⟩, ⟨.firstOp, .preDone false⟩, ⟨.closeActive, .start⟩] },
           by decide⟩,
          ⟨{ active := none, closed := [1], files := [1], nextId := 2, lock := .free, burned := [0]
             clients := [⟨.firstOp, .done (.createFailed 0)⟩, ⟨.firstOp, .done (.created 1)⟩,
                         ⟨.closeActive, .done (.closed 1)⟩] },
           by decide⟩⟩

example : ∀ s, runSched false Demo.sched3fail (init Demo.kinds3) = some s →
    maxSucc s.files ≤ s.nextId ∧ s.nextId = s.files.length + (taking s).length + s.burned.length :=
  fun _ h => ⟨(next_id_bound (start_initAt 0 _) (reach_of_sched h)).1, (next_id_bound (start_initAt 0 _) (reach_of_sched h)).2.2.2.1⟩

/-! ### the lock: no deadlock, every run is finite -/

/-- as long as somebody has not returned, some client can do its next step (no failing I/O needed), whatever `N` -/
theorem no_deadlock {s0 s : State} (h0 : Start s0) (hr : Reach false s0 s)
    (hnq : ¬ quiescent s) : ∃ i s', fire false (.step i) s = some s' :=
  no_deadlock_of_inv (h0.reach hr).inv (h0.reach hr).lock hnq

example : ∃ i s', fire false (.step i) demoMid = some s' := no_deadlock (start_initAt 0 _) demoMid_reach (by decide)

/-- no schedule (of either variant, failures included) is longer than `7·N`: every step uses up `Pc.weight` -/
theorem every_run_is_finite {sd : Bool} {ls : List Label} {s0 s : State} (h : runSched sd ls s0 = some s) :
    ls.length + ConcCreate.measure s ≤ ConcCreate.measure s0 ∧
      ∀ n kinds, ConcCreate.measure (initAt n kinds) = 7 * kinds.length ∧
        ConcCreate.measure (initActive n kinds) = 7 * kinds.length :=
  ⟨run_length_bound h, fun n kinds => ⟨measure_initAt n kinds, measure_initActive n kinds⟩⟩

example : Demo.sched3ok.length = 18 ∧ 7 * Demo.kinds3.length = 21 ∧ ConcCreate.measure demoEnd = 0 := by decide

/-- from every reachable state some failure-free schedule lets everybody return; and then the lock is free and the
    shared lock count is right all along -/
theorem all_clients_finish {s0 s : State} (h0 : Start s0) (hr : Reach false s0 s) :
    ∃ ls s', runSched false ls s = some s' ∧ quiescent s' ∧ (∀ l ∈ ls, l.isFail = false) :=
  finish_of_inv (h0.reach hr).inv (h0.reach hr).lock

theorem lock_free_at_quiescence {s0 s : State} (h0 : Start s0) (hr : Reach false s0 s)
    (hq : quiescent s) : s.lock = .free :=
  lock_free_of_quiescent (h0.reach hr).inv (h0.reach hr).lock hq

/-- the lock counts its shared holders: `shared n` ⇔ exactly `n ≥ 1` clients are inside `has_active_blob`,
    `free`/`excl` ⇒ none -/
theorem shared_count {s0 s : State} (h0 : Start s0) (hr : Reach false s0 s) :
    lockOK s.lock (readersOf s.clients) :=
  (h0.reach hr).lock

example : (runSched false (Demo.sched3.take 2) (init Demo.kinds3)).map (fun s => (s.lock, readersOf s.clients)) =
    some (.shared 2, 2) := by decide

#print axioms no_deadlock
#print axioms every_run_is_finite
#print axioms all_clients_finish
#print axioms lock_free_at_quiescence
#print axioms shared_count
#print axioms inv_reachable
#print axioms inv_inductive
#print axioms lock_exclusive
#print axioms owners_are_files
#print axioms ids_used_once
#print axioms in_ensure_precise
#print axioms next_id_tight
#print axioms next_id_is_max_file_plus_one
#print axioms next_id_bound
#print axioms counter_and_files_monotone
#print axioms quiescent_ids_accounted
#print axioms quiescent_one_id_per_blob
#print axioms quiescent_one_id_per_blob_sched
#print axioms seeded_burns_ids
#print axioms seeded_only_overcounts
#print axioms failed_creation_burns_id

/-
NOT YET PROVED (C15b):
* the link between `ConcCreate.cstep` and `src/storage/core.rs` is by reading the code (the table at the head of
  `Pearl/Model/ConcCreate.lean`); unlike the sequential models it is not covered by the differential correspondence
  check, whose scripts are sequential — the generated "simultaneous first operations" runs observe only the final
  `next_blob_id` / file list, which is what `quiescent_one_id_per_blob` and `seeded_burns_ids` speak about;
* `restore_active_blob` (last closed blob becomes active again; takes no id) and the worker's
  `replace_active_blob` (takes an id under the same exclusive lock while an active blob EXISTS) are not clients of
  this system; with the latter `closed ++ active ++ uninstalled = files` needs a second "being installed" slot;
* the no-active-blob branch of `delete_with_optional_meta` is `firstOp` here only as far as this state goes; its
  `delete_core` under the exclusive lock is not modelled;
* files are never removed here (no `delete_blob`/`offload`), so "files" = "every blob ever created";
* the fairness of tokio's `RwLock` is not modelled (more interleavings are admitted than the runtime produces).
-/

end C15b
end Pearl
