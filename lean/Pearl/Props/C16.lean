import Pearl.Proofs.ToolsLemmas
import Pearl.Proofs.ToolsWriterShapes
import Pearl.Proofs.ToolsWriterBuggy
import Pearl.Props.C05
/-
C16 "Offline tools validate exactly well-formed files and recover without loss": `validate_blob`,
`recovery_blob` (with and without `skip_wrong_record`) and `migrate_blob` on blobs produced by the writer
model, intact, truncated, or with at most 4 adjacent bytes altered.

Model: Pearl/Model/Tools.lean.  Lemmas: Pearl/Proofs/ToolsLemmas.lean, where the vocabulary of the
statements is defined:
  * `IsBoundary klen recs t` : `t` is the end of the blob header or of a record;
  * `CutIn klen recs i t`    : `t` lies strictly inside record `i`;
  * `InData h p w` / `InHeaderNoLen h p w` : the window `[p, p + w)` lies in the data of the record with
    index header `h` / in its serialised header outside key length, meta_size and data_size;
  * `FlipIn klen recs i input` : `input` is the blob with at most 4 adjacent bytes altered in record `i`,
    in one of those two places.
Throughout, `hlen` bounds the blob size by 2^64 and `hts` the timestamps (they are `u64` in the code).
-/
namespace Pearl.C16
open Pearl

/-! ## validation accepts what the writer produces -/

theorem validate_accepts_produced (klen : Nat) (recs : List (Rec × List UInt8))
    (hlen : (blobBytes klen recs).length < 2 ^ 64) (hts : ∀ x ∈ recs, x.1.ts < 2 ^ 64) :
    validateBlob (blobBytes klen recs) = .ok () :=
  validateBlob_produced klen recs hlen hts

/-! ## truncation -/

/-- at a record boundary the prefix IS the blob of the records before it ... -/
theorem prefix_at_boundary_is_blob (klen : Nat) (recs : List (Rec × List UInt8)) (n : Nat) :
    (blobBytes klen recs).take (blobBytes klen (recs.take n)).length = blobBytes klen (recs.take n) :=
  blobBytes_take_boundary klen recs n

/-- ... hence accepted -/
theorem validate_accepts_boundary (klen : Nat) (recs : List (Rec × List UInt8))
    (hlen : (blobBytes klen recs).length < 2 ^ 64) (hts : ∀ x ∈ recs, x.1.ts < 2 ^ 64) (t : Nat)
    (hb : IsBoundary klen recs t) : validateBlob ((blobBytes klen recs).take t) = .ok () := by
  obtain ⟨n, _, rfl⟩ := hb
  rw [prefix_at_boundary_is_blob]
  have := blobBytes_take_length_le klen recs n
  exact validate_accepts_produced klen _ (by omega) (fun x hx => hts x (List.mem_of_mem_take hx))

/-- every proper prefix that does not end at a record boundary is rejected -/
theorem validate_rejects_truncated (klen : Nat) (recs : List (Rec × List UInt8))
    (hlen : (blobBytes klen recs).length < 2 ^ 64) (hts : ∀ x ∈ recs, x.1.ts < 2 ^ 64) (t : Nat)
    (ht : t < (blobBytes klen recs).length) (hnb : ¬ IsBoundary klen recs t) :
    ∃ e, validateBlob ((blobBytes klen recs).take t) = .error e := by
  by_cases h20 : t < 20
  · have hp : parseBlobHeader ((blobBytes klen recs).take t) = none :=
      parseBlobHeader_short (by rw [List.length_take]; omega)
    have : readBlobHeader ((blobBytes klen recs).take t) = .error .other := by
      unfold readBlobHeader; rw [hp]
    exact ⟨_, (tools_header_error this).1⟩
  · obtain ⟨i, hc⟩ := cutIn_of_not_boundary klen recs t (by omega) ht hnb
    exact (cutIn_tools klen recs i t hlen hts hc).1

/-! ## alterations -/

/-- at most 4 adjacent bytes altered inside a record — in its data, or in its header outside the three
    length fields — are detected -/
theorem validate_rejects_flip (klen : Nat) (recs : List (Rec × List UInt8)) (i : Nat) (input : List UInt8)
    (hlen : (blobBytes klen recs).length < 2 ^ 64) (hts : ∀ x ∈ recs, x.1.ts < 2 ^ 64)
    (hflip : FlipIn klen recs i input) : ∃ e, validateBlob input = .error e :=
  (flipIn_tools klen recs i input hlen hts hflip).1

/-- the data case spelled out (the checksum argument is C05 `crc32c_detects_window`) -/
theorem validate_rejects_flip_data (klen : Nat) (recs : List (Rec × List UInt8)) (i : Nat)
    (p w1 w2 s : List UInt8) (h : RecHeader)
    (hlen : (blobBytes klen recs).length < 2 ^ 64) (hts : ∀ x ∈ recs, x.1.ts < 2 ^ 64)
    (hb : blobBytes klen recs = p ++ w1 ++ s) (hl : w1.length = w2.length) (h4 : w1.length ≤ 4)
    (hne : w1 ≠ w2) (hh : (blobHeaders klen recs)[i]? = some h)
    (hin1 : h.dataOffset ≤ p.length) (hin2 : p.length + w1.length ≤ h.dataOffset + h.dataSize) :
    ∃ e, validateBlob (p ++ w2 ++ s) = .error e :=
  validate_rejects_flip klen recs i _ hlen hts
    ⟨p, w1, w2, s, h, hb, rfl, hl, h4, hne, hh, Or.inl ⟨hin1, hin2⟩⟩

/-- the header case spelled out: the window lies in the magic byte (bytes 0..8 of the header), in the key,
    or in flags / blob_offset / timestamp / data_checksum / header_checksum.
    When the window straddles data_checksum and header_checksum the header CRC alone does not decide
    (the checksum field is not part of the checksummed bytes); then the altered data checksum fails
    against the data -/
theorem validate_rejects_flip_header (klen : Nat) (recs : List (Rec × List UInt8)) (i : Nat)
    (p w1 w2 s : List UInt8) (h : RecHeader)
    (hlen : (blobBytes klen recs).length < 2 ^ 64) (hts : ∀ x ∈ recs, x.1.ts < 2 ^ 64)
    (hb : blobBytes klen recs = p ++ w1 ++ s) (hl : w1.length = w2.length) (h4 : w1.length ≤ 4)
    (hne : w1 ≠ w2) (hh : (blobHeaders klen recs)[i]? = some h)
    (hin1 : h.blobOffset ≤ p.length) (hin2 : p.length + w1.length ≤ h.blobOffset + (57 + h.key.length))
    (hnolen : p.length + w1.length ≤ h.blobOffset + 8 ∨
      (h.blobOffset + 16 ≤ p.length ∧ p.length + w1.length ≤ h.blobOffset + 16 + h.key.length) ∨
      h.blobOffset + 32 + h.key.length ≤ p.length) :
    ∃ e, validateBlob (p ++ w2 ++ s) = .error e :=
  validate_rejects_flip klen recs i _ hlen hts
    ⟨p, w1, w2, s, h, hb, rfl, hl, h4, hne, hh, Or.inr ⟨hin1, hin2, hnolen⟩⟩

/-- any alteration inside the 8 magic bytes of the blob header is detected, and the other tools refuse
    the file with the same error, before writing anything -/
theorem validate_rejects_flip_magic (klen : Nat) (recs : List (Rec × List UInt8))
    (p w1 w2 s : List UInt8) (hb : blobBytes klen recs = p ++ w1 ++ s) (hl : w1.length = w2.length)
    (hne : w1 ≠ w2) (h8 : p.length + w1.length ≤ 8) :
    ∃ e, validateBlob (p ++ w2 ++ s) = .error e ∧ (∀ skip, recoveryBlob (p ++ w2 ++ s) skip = .error e) ∧
      migrateBlob (p ++ w2 ++ s) = .error e := by
  obtain ⟨e, he⟩ := magicFlip_header klen recs p w1 w2 s hb hl hne h8
  obtain ⟨h1, h2, h3⟩ := tools_header_error he
  exact ⟨e, h1, h2, h3 _⟩

/-! ## recovery -/

/-- an intact blob is reproduced byte for byte, with and without skipping -/
theorem recover_intact (klen : Nat) (recs : List (Rec × List UInt8)) (skip : Bool)
    (hlen : (blobBytes klen recs).length < 2 ^ 64) (hts : ∀ x ∈ recs, x.1.ts < 2 ^ 64) :
    recoveryBlob (blobBytes klen recs) skip = .ok (blobBytes klen recs) :=
  recoveryBlob_intact klen recs skip hlen hts

/-- without skipping, recovery of a blob with record `i` altered keeps exactly the records before it -/
theorem recover_noskip (klen : Nat) (recs : List (Rec × List UInt8)) (i : Nat) (input : List UInt8)
    (hlen : (blobBytes klen recs).length < 2 ^ 64) (hts : ∀ x ∈ recs, x.1.ts < 2 ^ 64)
    (hflip : FlipIn klen recs i input) :
    recoveryBlob input false = .ok (blobBytes klen (recs.take i)) :=
  (flipIn_tools klen recs i input hlen hts hflip).2.1

/-- with `skip_wrong_record`, the output is the blob of exactly the records `0 .. i-1` and `i+1 ..` of
    the original — same keys, timestamps, flags, meta and data, re-addressed to their new positions -/
theorem recover_skip (klen : Nat) (recs : List (Rec × List UInt8)) (i : Nat) (input : List UInt8)
    (hlen : (blobBytes klen recs).length < 2 ^ 64) (hts : ∀ x ∈ recs, x.1.ts < 2 ^ 64)
    (hflip : FlipIn klen recs i input) :
    recoveryBlob input true = .ok (blobBytes klen (recs.eraseIdx i)) :=
  (flipIn_tools klen recs i input hlen hts hflip).2.2

/-- a blob truncated inside record `i` is recovered to the records before it, in both modes -/
theorem recover_truncated (klen : Nat) (recs : List (Rec × List UInt8)) (i t : Nat) (skip : Bool)
    (hlen : (blobBytes klen recs).length < 2 ^ 64) (hts : ∀ x ∈ recs, x.1.ts < 2 ^ 64)
    (hc : CutIn klen recs i t) :
    recoveryBlob ((blobBytes klen recs).take t) skip = .ok (blobBytes klen (recs.take i)) :=
  (cutIn_tools klen recs i t hlen hts hc).2 skip

/-- whatever recovery returns for a blob damaged in record `i` (altered or truncated there) is a valid
    blob made of original records, starting with all the records before the damaged one; and recovery
    does return -/
theorem recover_prefix (klen : Nat) (recs : List (Rec × List UInt8)) (i : Nat) (input : List UInt8)
    (hlen : (blobBytes klen recs).length < 2 ^ 64) (hts : ∀ x ∈ recs, x.1.ts < 2 ^ 64)
    (hdam : FlipIn klen recs i input ∨ ∃ t, CutIn klen recs i t ∧ input = (blobBytes klen recs).take t)
    (skip : Bool) :
    (∃ out, recoveryBlob input skip = .ok out) ∧
    ∀ out, recoveryBlob input skip = .ok out →
      validateBlob out = .ok () ∧
      ∃ S, out = blobBytes klen S ∧ recs.take i <+: S ∧ S.Sublist recs := by
  have key : ∃ S, recoveryBlob input skip = .ok (blobBytes klen S) ∧ recs.take i <+: S ∧ S.Sublist recs ∧
      (blobBytes klen S).length ≤ (blobBytes klen recs).length := by
    rcases hdam with hflip | ⟨t, hc, rfl⟩
    · cases skip
      · exact ⟨recs.take i, recover_noskip klen recs i input hlen hts hflip, List.prefix_refl _,
          List.take_sublist _ _, blobBytes_take_length_le klen recs i⟩
      · refine ⟨recs.eraseIdx i, recover_skip klen recs i input hlen hts hflip, ?_,
          List.eraseIdx_sublist _ _, blobBytes_eraseIdx_length_le klen recs i⟩
        rw [List.eraseIdx_eq_take_drop_succ]
        exact List.prefix_append _ _
    · exact ⟨recs.take i, recover_truncated klen recs i t skip hlen hts hc, List.prefix_refl _,
        List.take_sublist _ _, blobBytes_take_length_le klen recs i⟩
  obtain ⟨S, hS, hpre, hsub, hle⟩ := key
  refine ⟨⟨_, hS⟩, fun out hout => ?_⟩
  rw [hS] at hout
  cases hout
  exact ⟨validate_accepts_produced klen S (by omega) (fun x hx => hts x (hsub.subset hx)),
    S, rfl, hpre, hsub⟩

/-- what recovery with skipping wrote is addressable: it is the blob the writer would have produced for
    the surviving records, so every header's `blob_offset` is its position in the output, the header
    parses there, its checksum is valid, the start-up scan returns exactly these headers, and the storage
    serves each record with its original bytes (C05 `load_roundtrip`) -/
theorem recover_addressable (klen : Nat) (recs : List (Rec × List UInt8)) (i : Nat) (input out : List UInt8)
    (hlen : (blobBytes klen recs).length < 2 ^ 64) (hts : ∀ x ∈ recs, x.1.ts < 2 ^ 64)
    (hflip : FlipIn klen recs i input) (hrec : recoveryBlob input true = .ok out) :
    out = blobBytes klen (recs.eraseIdx i) ∧
    (∀ v, recs.eraseIdx i ≠ [] → rawRecordsLoad klen v out = .ok (blobHeaders klen (recs.eraseIdx i))) ∧
    ∀ j h r d, (blobHeaders klen (recs.eraseIdx i))[j]? = some h → (recs.eraseIdx i)[j]? = some (r, d) →
      h.blobOffset = (blobBytes klen ((recs.eraseIdx i).take j)).length ∧
      parseHeader klen (out.drop h.blobOffset) = some h ∧
      headerValidate h = .ok () ∧
      entryLoad out h = .ok (serMeta r.mt, if r.del then [] else d) ∧
      loadData out h = .ok (if r.del then [] else d) := by
  rw [recover_skip klen recs i input hlen hts hflip] at hrec
  cases hrec
  have hle := blobBytes_eraseIdx_length_le klen recs i
  have hts' : ∀ x ∈ recs.eraseIdx i, x.1.ts < 2 ^ 64 :=
    fun x hx => hts x ((List.eraseIdx_sublist _ _).subset hx)
  refine ⟨rfl, fun v hne => C05.load_roundtrip_scan_partial klen v _ hne (by omega) hts', ?_⟩
  intro j h r d hh hr
  obtain ⟨a1, a2, a3, a4⟩ := produced_addressable klen _ (by omega) hts' j h r d hh hr
  exact ⟨a1, a2, a3, a4, (C05.load_roundtrip klen _ (by omega) j h r d hh hr).2⟩

/-! ## migration -/

/-- migrating the version-0 image of a produced blob (version field 0, key bytes reversed, checksums
    accordingly) yields the blob; migrating a version-1 blob is the identity -/
theorem migrate_preserves (klen : Nat) (recs : List (Rec × List UInt8))
    (hlen : (blobBytes klen recs).length < 2 ^ 64) (hts : ∀ x ∈ recs, x.1.ts < 2 ^ 64) :
    migrateBlob (blobBytesV0 klen recs) = .ok (blobBytes klen recs) ∧
    migrateBlob (blobBytes klen recs) = .ok (blobBytes klen recs) :=
  ⟨migrate_v0_image klen recs hlen hts, migrate_v1_id klen recs hlen hts⟩

/-! ## the loop bounds of the model are never hit -/

/-- on every input, none of the tools returns the model artefact `fuel` -/
theorem tools_total (input : List UInt8) (skip : Bool) (target : Nat) :
    validateBlob input ≠ .error .fuel ∧ recoveryBlob input skip ≠ .error .fuel ∧
    migrateBlob input target ≠ .error .fuel :=
  ⟨validateBlob_ne_fuel input, recoveryBlob_ne_fuel input skip, migrateBlob_ne_fuel input target⟩

/-! ## non-vacuity -/

set_option maxRecDepth 1000000

/-- `C05.recs4`: a plain record, an empty record with meta, a deletion marker, an empty record -/
abbrev b4 : List UInt8 := blobBytes 3 C05.recs4

-- record boundaries 20, 104, 191, 259, 327; `b4` satisfies the size and timestamp hypotheses
example : b4.length = 327 ∧ b4.length < 2 ^ 64 ∧ ∀ x ∈ C05.recs4, x.1.ts < 2 ^ 64 := by decide
example : IsBoundary 3 C05.recs4 191 := ⟨2, by decide, by decide⟩
example : CutIn 3 C05.recs4 1 150 := by decide
example : ¬ IsBoundary 3 C05.recs4 150 := by
  rintro ⟨n, hn, h⟩
  have : n = 0 ∨ n = 1 ∨ n = 2 ∨ n = 3 ∨ n = 4 := by
    have : C05.recs4.length = 4 := rfl
    omega
  rcases this with rfl | rfl | rfl | rfl | rfl <;> revert h <;> decide

/-- one data byte of record 0 altered (byte 91: 9 → 0xAA) -/
theorem flip_data_example : FlipIn 3 C05.recs4 0 (b4.set 91 0xAA) :=
  ⟨b4.take 91, [9], [0xAA], b4.drop 92, (blobHeaders 3 C05.recs4)[0]!, by decide, by decide, rfl,
    by decide, by decide, by decide, Or.inl (by decide)⟩

/-- one timestamp byte in the header of record 1 altered (byte 148: 102 → 0xAA) -/
theorem flip_header_example : FlipIn 3 C05.recs4 1 (b4.set 148 0xAA) :=
  ⟨b4.take 148, [102], [0xAA], b4.drop 149, (blobHeaders 3 C05.recs4)[1]!, by decide, by decide, rfl,
    by decide, by decide, by decide, Or.inr (by decide)⟩

example : ∃ e, validateBlob (b4.set 91 0xAA) = .error e :=
  validate_rejects_flip 3 C05.recs4 0 _ (by decide) (by decide) flip_data_example

example : recoveryBlob (b4.set 91 0xAA) true = .ok (blobBytes 3 (C05.recs4.eraseIdx 0)) ∧
    recoveryBlob (b4.set 91 0xAA) false = .ok (blobBytes 3 []) :=
  ⟨recover_skip 3 C05.recs4 0 _ (by decide) (by decide) flip_data_example,
   recover_noskip 3 C05.recs4 0 _ (by decide) (by decide) flip_data_example⟩

example : recoveryBlob (b4.set 148 0xAA) true = .ok (blobBytes 3 (C05.recs4.eraseIdx 1)) :=
  recover_skip 3 C05.recs4 1 _ (by decide) (by decide) flip_header_example

-- the same results by evaluation of the model on the concrete files (independent of the proofs above)
example : validateBlob (b4.set 91 0xAA) = .error (.recordValidation 104) ∧
    recoveryBlob (b4.set 91 0xAA) true = .ok (blobBytes 3 (C05.recs4.eraseIdx 0)) ∧
    recoveryBlob (b4.set 148 0xAA) true = .ok (blobBytes 3 (C05.recs4.eraseIdx 1)) ∧
    recoveryBlob (b4.set 148 0xAA) false = .ok (blobBytes 3 (C05.recs4.take 1)) := by decide

example : ∃ e, validateBlob (b4.take 150) = .error e :=
  (cutIn_tools 3 C05.recs4 1 150 (by decide) (by decide) (by decide)).1

example : recoveryBlob (b4.take 150) true = .ok (blobBytes 3 (C05.recs4.take 1)) :=
  recover_truncated 3 C05.recs4 1 150 true (by decide) (by decide) (by decide)

example : blobBytesV0 3 C05.recs4 ≠ b4 ∧ migrateBlob (blobBytesV0 3 C05.recs4) = .ok b4 :=
  ⟨by decide, (migrate_preserves 3 C05.recs4 (by decide) (by decide)).1⟩

/-- after recovery with skipping, the record that followed the damaged one is served by the storage read
    path from the recovered file with its original bytes (it moved from offset 104 to offset 20) -/
example : ∀ out, recoveryBlob (b4.set 91 0xAA) true = .ok out →
    ∃ h, (blobHeaders 3 (C05.recs4.eraseIdx 0))[0]? = some h ∧ h.blobOffset = 20 ∧
      entryLoad out h = .ok (serMeta (some [9, 8]), []) := by
  intro out hout
  obtain ⟨_, _, hall⟩ := recover_addressable 3 C05.recs4 0 _ out (by decide) (by decide) flip_data_example hout
  obtain ⟨h, hh⟩ : ∃ h, (blobHeaders 3 (C05.recs4.eraseIdx 0))[0]? = some h := ⟨_, rfl⟩
  obtain ⟨a1, _, _, a4, _⟩ := hall 0 h _ _ hh rfl
  exact ⟨h, hh, by rw [a1]; decide, a4⟩

/-! ## findings (checked by evaluation)

(1) The header checksum has a blind spot: the checksum field itself is zeroed before the CRC is taken, so a
change that straddles `data_checksum | header_checksum` is not a burst for the header CRC. Witness: 4
adjacent bytes (74..77 of `b4`: the last two of `data_checksum`, the first two of `header_checksum` of
record 0) altered such that `Header::validate` still ACCEPTS the header. `validate_blob` rejects the file
only because the altered data checksum no longer matches the data (this is the second branch in
`validate_rejects_flip_header`); the start-up scan without data validation accepts the altered header. -/

def b4Straddle : List UInt8 := b4.take 74 ++ [160, 216, 0, 195] ++ b4.drop 78

theorem header_crc_blind_spot :
    b4 = b4.take 74 ++ [107, 14, 49, 67] ++ b4.drop 78 ∧
    (deserHeader (b4Straddle.drop 20)).map headerValidate = some (.ok ()) ∧
    validateBlob b4Straddle = .error (.recordValidation 104) ∧
    (∃ hs, rawRecordsLoad 3 false b4Straddle = .ok hs ∧ hs ≠ blobHeaders 3 C05.recs4) := by
  refine ⟨by decide, by decide, by decide, ⟨_, rfl, by decide⟩⟩

/-- the general theorem covers it (window in the header, after the length fields) -/
example : ∃ e, validateBlob b4Straddle = .error e :=
  validate_rejects_flip_header 3 C05.recs4 0 (b4.take 74) [107, 14, 49, 67] [160, 216, 0, 195] (b4.drop 78)
    (blobHeaders 3 C05.recs4)[0]! (by decide) (by decide) (by decide) rfl (by decide) (by decide)
    (by decide) (by decide) (by decide) (Or.inr (Or.inr (by decide)))

/-- (2) The tools do not look at the blob version (`validate_without_version`) nor at the flags:
    `validate_blob` accepts a blob that the storage refuses to open (`BlobVersion`: start-up FAILS, the
    one validation error that is not quarantined). -/
theorem validate_ignores_version :
    validateBlob (b4.set 8 7) = .ok () ∧ blobHeaderFromFile (b4.set 8 7) = .error .blobVersion := by
  decide

/-- (3) The metadata bytes are covered by no checksum: an altered meta value passes `validate_blob`, is
    copied by `recovery_blob`, and is served by `Entry::load`. (Byte 189 of `b4` is the first byte of the
    meta value `[9, 8]` of record 1.) -/
theorem meta_not_protected :
    validateBlob (b4.set 189 0xAA) = .ok () ∧
    recoveryBlob (b4.set 189 0xAA) true = .ok (b4.set 189 0xAA) ∧
    (∀ h, (blobHeaders 3 C05.recs4)[1]? = some h →
      entryLoad (b4.set 189 0xAA) h = .ok (serMeta (some [0xAA, 8]), [])) := by
  refine ⟨by decide, by decide, ?_⟩
  intro h hh
  have : h = (blobHeaders 3 C05.recs4)[1]! := by
    have h2 : (blobHeaders 3 C05.recs4)[1]? = some (blobHeaders 3 C05.recs4)[1]! := by decide
    rw [h2] at hh; cases hh; rfl
  subst this
  decide

/-- (4) Outside the scope of the property (the input is not something the storage writes): the tools
    deserialise the metadata and serialise it again, but keep the header's `meta_size`. A record whose
    meta region carries a trailing byte (bincode `deserialize` allows trailing bytes) is valid for the
    storage, the start-up scan and `validate_blob`; `recovery_blob` run with `validate_every = 0` writes an
    output whose meta is one byte shorter than the header claims,
    and that output is no longer a valid blob.  (With `validate_every ≠ 0` the read-back fails instead:
    `validate_every_relevant_for_noncanonical_meta`.) -/
def oddHdr : RecHeader := (RecHeader.new [0, 0, 7] 5 9 3 (crc32c [1, 2, 3])).final 20
def oddFile : List UInt8 := serBlobHeader ++ (serHeader oddHdr ++ ((le64 0 ++ [0xFF]) ++ [1, 2, 3]))

theorem recovery_output_invalid_for_noncanonical_meta :
    validateBlob oddFile = .ok () ∧ rawRecordsLoad 3 true oddFile = .ok [oddHdr] ∧
    entryLoad oddFile oddHdr = .ok (le64 0 ++ [0xFF], [1, 2, 3]) ∧
    ∃ out, recoveryBlob oddFile true = .ok out ∧ out.length + 1 = oddFile.length ∧
      validateBlob out = .error .other := by
  refine ⟨by decide, by decide, by decide, ⟨_, rfl, by decide, by decide⟩⟩

/-! ## the writer's read-back validation (`validate_every ≠ 0`)

Model: Pearl/Model/ToolsWriter.lean (`Writer`: output file, cursor, `written`, `written_cached`, `cache`;
`write_record`, `validate_written_records`, `clear_cache` in the order of `process_blob_with`).
Lemmas: Pearl/Proofs/ToolsWriter.lean (invariant, general theorem), ToolsWriterShapes.lean (the C16
inputs), ToolsWriterBuggy.lean (the two seeded variants).  `recoveryBlobV ve`, `migrateBlobV ve`,
`processBlobWithV ve` are the tools run with `validate_every = ve`; `liftW` reads a result of the
`validate_every = 0` model (`recoveryBlob`, ...) as a result of this one. -/

/-- (1), general form.  For every input (any bytes), every pair of preprocessors and every
    `validate_every`, the run with read-back validation returns the output bytes / the error of the
    `validate_every = 0` model, PROVIDED every record handed to `write_record` is canonical
    (`ToolRecord.Canon`: header sizes = sizes of the re-serialised meta and of the data, data checksum
    valid, meta re-serialises to itself, `u64` fields in range) and the output stays below 2^64 bytes.
    For `ve = 0` nothing is assumed.  Without the first hypothesis the statement is false, see
    `validate_every_relevant_for_noncanonical_meta`. -/
theorem validate_every_irrelevant_partial (ve : Nat) (input : List UInt8) (skip : Bool)
    (fRec : Nat → ToolRecord → Except ToolErr ToolRecord)
    (fHdr : Nat → BlobHeader → Except ToolErr BlobHeader)
    (hcan : ve ≠ 0 → ∀ r ∈ writtenRecords input skip fRec fHdr, r.Canon)
    (hsz : ve ≠ 0 → ∀ out, processBlobWith input skip fRec fHdr = .ok out → out.length < 2 ^ 64) :
    processBlobWithV ve input skip fRec fHdr = liftW (processBlobWith input skip fRec fHdr) :=
  processBlobWithV_eq ve input skip fRec fHdr hcan hsz

/-- (1) as asked is FALSE for arbitrary input bytes: on `oddFile` (finding (4) above: a record that the
    storage, the scan and `validate_blob` accept, whose meta region carries a trailing byte) recovery with
    `validate_every = 0` succeeds, and with `validate_every = 1` fails in the read-back: the record
    written is one byte shorter than its header says, so reading it back runs into the end of the file -/
theorem validate_every_relevant_for_noncanonical_meta :
    (∃ out, recoveryBlob oddFile true = .ok out ∧ recoveryBlobV 0 oddFile true = .ok out) ∧
    recoveryBlobV 1 oddFile true = .error (.tool .other) ∧
    recoveryBlobV 1 oddFile true ≠ liftW (recoveryBlob oddFile true) ∧
    ¬ ∀ r ∈ writtenRecords oddFile true (fun _ r => .ok r) (fun _ h => .ok h), r.Canon := by
  refine ⟨⟨_, rfl, by decide +kernel⟩, by decide +kernel, by decide +kernel, ?_⟩
  intro h
  have hw : writtenRecords oddFile true (fun _ r => .ok r) (fun _ h => .ok h) =
      [{ header := oddHdr, mt := [], data := [1, 2, 3] }] := by decide +kernel
  have := (h _ (by rw [hw]; exact List.mem_singleton.mpr rfl)).msize
  revert this
  decide

/-- (1) on the inputs of the C16 statements: a produced blob, intact, with one record altered, or
    truncated inside a record, and the version-0 image of a produced blob.  For every `validate_every`
    the tools return exactly what the `validate_every = 0` model returns. -/
theorem validate_every_irrelevant (klen : Nat) (recs : List (Rec × List UInt8)) (ve : Nat)
    (hlen : (blobBytes klen recs).length < 2 ^ 64) (hts : ∀ x ∈ recs, x.1.ts < 2 ^ 64) :
    (∀ skip, recoveryBlobV ve (blobBytes klen recs) skip = liftW (recoveryBlob (blobBytes klen recs) skip)) ∧
    (∀ i input, FlipIn klen recs i input → ∀ skip,
      recoveryBlobV ve input skip = liftW (recoveryBlob input skip)) ∧
    (∀ i t, CutIn klen recs i t → ∀ skip,
      recoveryBlobV ve ((blobBytes klen recs).take t) skip =
        liftW (recoveryBlob ((blobBytes klen recs).take t) skip)) ∧
    migrateBlobV ve (blobBytesV0 klen recs) = liftW (migrateBlob (blobBytesV0 klen recs)) ∧
    migrateBlobV ve (blobBytes klen recs) = liftW (migrateBlob (blobBytes klen recs)) := by
  refine ⟨fun skip => ?_, fun i input hflip skip => ?_, fun i t hc skip => ?_, ?_, ?_⟩
  · rw [recoveryBlobV_intact klen recs ve skip hlen hts, recover_intact klen recs skip hlen hts]; rfl
  · exact (flipIn_shape klen recs i input hlen hts hflip).recoveryV ve skip
  · exact (cutIn_shape klen recs i t hlen hts hc).recoveryV ve skip
  · rw [migrateBlobV_v0_image klen recs ve hlen hts, (migrate_preserves klen recs hlen hts).1]; rfl
  · rw [migrateBlobV_v1_id klen recs ve hlen hts, (migrate_preserves klen recs hlen hts).2]; rfl

theorem liftW_eq_ok {x : Except ToolErr (List UInt8)} {out : List UInt8} :
    liftW x = .ok out ↔ x = .ok out := by
  cases x <;> simp [liftW]

/-- `recover_intact`, `recover_noskip`, `recover_skip`, `recover_truncated` for every batch size -/
theorem recover_every (klen : Nat) (recs : List (Rec × List UInt8)) (ve : Nat)
    (hlen : (blobBytes klen recs).length < 2 ^ 64) (hts : ∀ x ∈ recs, x.1.ts < 2 ^ 64) :
    (∀ skip, recoveryBlobV ve (blobBytes klen recs) skip = .ok (blobBytes klen recs)) ∧
    (∀ i input, FlipIn klen recs i input →
      recoveryBlobV ve input false = .ok (blobBytes klen (recs.take i)) ∧
      recoveryBlobV ve input true = .ok (blobBytes klen (recs.eraseIdx i))) ∧
    (∀ i t skip, CutIn klen recs i t →
      recoveryBlobV ve ((blobBytes klen recs).take t) skip = .ok (blobBytes klen (recs.take i))) :=
  ⟨fun skip => recoveryBlobV_intact klen recs ve skip hlen hts,
   fun i input hflip => recoveryBlobV_flip klen recs i input ve hlen hts hflip,
   fun i t skip hc => recoveryBlobV_truncated klen recs i t ve skip hlen hts hc⟩

/-- `recover_prefix` for every batch size -/
theorem recover_prefix_every (klen : Nat) (recs : List (Rec × List UInt8)) (i : Nat) (input : List UInt8)
    (ve : Nat) (hlen : (blobBytes klen recs).length < 2 ^ 64) (hts : ∀ x ∈ recs, x.1.ts < 2 ^ 64)
    (hdam : FlipIn klen recs i input ∨ ∃ t, CutIn klen recs i t ∧ input = (blobBytes klen recs).take t)
    (skip : Bool) :
    (∃ out, recoveryBlobV ve input skip = .ok out) ∧
    ∀ out, recoveryBlobV ve input skip = .ok out →
      validateBlob out = .ok () ∧
      ∃ S, out = blobBytes klen S ∧ recs.take i <+: S ∧ S.Sublist recs := by
  have heq : recoveryBlobV ve input skip = liftW (recoveryBlob input skip) := by
    rcases hdam with hflip | ⟨t, hc, rfl⟩
    · exact ((validate_every_irrelevant klen recs ve hlen hts).2.1 i input hflip) skip
    · exact ((validate_every_irrelevant klen recs ve hlen hts).2.2.1 i t hc) skip
  obtain ⟨⟨out, hout⟩, hall⟩ := recover_prefix klen recs i input hlen hts hdam skip
  rw [heq]
  exact ⟨⟨out, liftW_eq_ok.mpr hout⟩, fun out' h => hall out' (liftW_eq_ok.mp h)⟩

/-- the migration round trip for every batch size -/
theorem migrate_preserves_every (klen : Nat) (recs : List (Rec × List UInt8)) (ve : Nat)
    (hlen : (blobBytes klen recs).length < 2 ^ 64) (hts : ∀ x ∈ recs, x.1.ts < 2 ^ 64) :
    migrateBlobV ve (blobBytesV0 klen recs) = .ok (blobBytes klen recs) ∧
    migrateBlobV ve (blobBytes klen recs) = .ok (blobBytes klen recs) :=
  ⟨migrateBlobV_v0_image klen recs ve hlen hts, migrateBlobV_v1_id klen recs ve hlen hts⟩

/-- (2) the invariant.  `Writer.Inv w`: cursor = `written` = length of the output file, and if there is a
    cache then the file is `base ++` the images of the cached records, the cache holds exactly those
    records (each with the header it was written with, `blob_offset` = its position), `written_cached` is
    the length of those images (so `written - written_cached` is the offset of the first cached record),
    and they are canonical.  The invariant holds after `write_header`, is kept by `write_record` and
    `clear_cache`, and in a state that satisfies it `validate_written_records` succeeds and changes
    nothing. -/
theorem readback_invariant :
    (∀ (c : Bool) (o : List UInt8), o.length = 20 → (Writer.afterHeader c o).Inv) ∧
    (∀ (w : Writer) (r : ToolRecord), w.Inv → (w.cache.isSome → r.Canon) → (w.writeRecord r).Inv) ∧
    (∀ w : Writer, w.Inv → w.clearCache.Inv) ∧
    (∀ w : Writer, w.Inv → (w.cache.isSome → w.file.length < 2 ^ 64) →
      w.validateWrittenRecords = .ok w) :=
  ⟨fun c _ ho => Writer.afterHeader_inv c ho, fun _ _ hi hc => hi.writeRecord hc,
   fun _ hi => hi.clearCache, fun _ hi hl => hi.validate_ok hl⟩

/-- (2) for whole runs: the read-back comparison never fails for records the writer itself wrote.  Under
    the hypotheses of (1), a run with any `validate_every` does not end with "Written and cached records
    is not equal", nor with the `expect` panic, and every error it does end with is the error the
    `validate_every = 0` run ends with (i.e. it comes from reading / rewriting the blob header) -/
theorem readback_never_fails_on_own_output (ve : Nat) (input : List UInt8) (skip : Bool)
    (fRec : Nat → ToolRecord → Except ToolErr ToolRecord)
    (fHdr : Nat → BlobHeader → Except ToolErr BlobHeader)
    (hcan : ve ≠ 0 → ∀ r ∈ writtenRecords input skip fRec fHdr, r.Canon)
    (hsz : ve ≠ 0 → ∀ out, processBlobWith input skip fRec fHdr = .ok out → out.length < 2 ^ 64) :
    processBlobWithV ve input skip fRec fHdr ≠ .error .notEqual ∧
    processBlobWithV ve input skip fRec fHdr ≠ .error .subPanic ∧
    ∀ e, processBlobWithV ve input skip fRec fHdr = .error (.tool e) →
      processBlobWith input skip fRec fHdr = .error e := by
  rw [processBlobWithV_eq ve input skip fRec fHdr hcan hsz]
  cases processBlobWith input skip fRec fHdr with
  | error e0 =>
    refine ⟨(by intro h; cases h), (by intro h; cases h), fun e h => ?_⟩
    cases h; rfl
  | ok out => exact ⟨(by intro h; cases h), (by intro h; cases h), fun e h => by cases h⟩

/-- (2) on the C16 inputs: no hypothesis left -/
theorem readback_never_fails_on_produced (klen : Nat) (recs : List (Rec × List UInt8)) (ve : Nat)
    (hlen : (blobBytes klen recs).length < 2 ^ 64) (hts : ∀ x ∈ recs, x.1.ts < 2 ^ 64)
    (input : List UInt8)
    (hin : input = blobBytes klen recs ∨ (∃ i, FlipIn klen recs i input) ∨
      ∃ i t, CutIn klen recs i t ∧ input = (blobBytes klen recs).take t) (skip : Bool) :
    ∃ out, recoveryBlobV ve input skip = .ok out := by
  rcases hin with rfl | ⟨i, hflip⟩ | ⟨i, t, hc, rfl⟩
  · exact ⟨_, (recover_every klen recs ve hlen hts).1 skip⟩
  · cases skip
    · exact ⟨_, ((recover_every klen recs ve hlen hts).2.1 i input hflip).1⟩
    · exact ⟨_, ((recover_every klen recs ve hlen hts).2.1 i input hflip).2⟩
  · exact ⟨_, (recover_every klen recs ve hlen hts).2.2 i t skip hc⟩

/-! ### (3) the two seeded variants -/

/-- variant 1 (`written` advances only when `cache.is_some()`), exact condition: for every input and all
    preprocessors it behaves as the real code iff `validate_every ≠ 0` or at most one record is written.
    (NOT "invisible for `validate_every = 0`": without a cache `written` never moves, and every record is
    addressed to offset 20.)  `hsz`: the first record ends below 2^64. -/
theorem buggyOffset_invisible_iff (ve : Nat) (input : List UInt8) (skip : Bool)
    (fRec : Nat → ToolRecord → Except ToolErr ToolRecord)
    (fHdr : Nat → BlobHeader → Except ToolErr BlobHeader)
    (hsz : ∀ r ∈ (writtenRecords input skip fRec fHdr).head?,
      20 + (Writer.recordImage r 20).length < 2 ^ 64) :
    processBlobWithW stepBuggyOffset ve input skip fRec fHdr = processBlobWithV ve input skip fRec fHdr ↔
      (ve ≠ 0 ∨ (writtenRecords input skip fRec fHdr).length ≤ 1) :=
  Pearl.buggyOffset_invisible_iff ve input skip fRec fHdr hsz

/-- variant 1 on produced blobs: recovery reproduces the blob iff `validate_every ≠ 0` or the blob has at
    most one record -/
theorem buggyOffset_on_produced (klen : Nat) (recs : List (Rec × List UInt8)) (ve : Nat) (skip : Bool)
    (hlen : (blobBytes klen recs).length < 2 ^ 64) (hts : ∀ x ∈ recs, x.1.ts < 2 ^ 64) :
    processBlobWithW stepBuggyOffset ve (blobBytes klen recs) skip (fun _ r => .ok r) (fun _ h => .ok h) =
        .ok (blobBytes klen recs) ↔ (ve ≠ 0 ∨ recs.length ≤ 1) := by
  have hint := recover_intact klen recs skip hlen hts
  have := Pearl.buggyOffset_invisible_iff ve (blobBytes klen recs) skip (fun _ r => .ok r)
    (fun _ h => .ok h) (head_size_of_output hint hlen)
  rw [written_length_produced klen recs skip hlen hts] at this
  rw [← this]
  rw [show processBlobWithV ve (blobBytes klen recs) skip (fun _ r => .ok r) (fun _ h => .ok h) =
    recoveryBlobV ve (blobBytes klen recs) skip from rfl, recoveryBlobV_intact klen recs ve skip hlen hts]

/-- variant 2 (`clear_cache` keeps `written_cached`), exact condition: under the hypotheses of (1) it
    behaves as the real code iff `validate_every = 0` or at most `validate_every` records are written;
    otherwise the run fails with "Written and cached records is not equal"
    (`processBlobWithW_buggyClear`) -/
theorem buggyClear_invisible_iff (ve : Nat) (input : List UInt8) (skip : Bool)
    (fRec : Nat → ToolRecord → Except ToolErr ToolRecord)
    (fHdr : Nat → BlobHeader → Except ToolErr BlobHeader)
    (hcan : ∀ r ∈ writtenRecords input skip fRec fHdr, r.Canon)
    (hsz : ∀ out, processBlobWith input skip fRec fHdr = .ok out → out.length < 2 ^ 64) :
    processBlobWithW stepBuggyClear ve input skip fRec fHdr = processBlobWithV ve input skip fRec fHdr ↔
      (ve = 0 ∨ (writtenRecords input skip fRec fHdr).length ≤ ve) :=
  Pearl.buggyClear_invisible_iff ve input skip fRec fHdr hcan hsz

/-- variant 2 on produced blobs: what recovery returns -/
theorem buggyClear_on_produced (klen : Nat) (recs : List (Rec × List UInt8)) (ve : Nat) (skip : Bool)
    (hlen : (blobBytes klen recs).length < 2 ^ 64) (hts : ∀ x ∈ recs, x.1.ts < 2 ^ 64) :
    processBlobWithW stepBuggyClear ve (blobBytes klen recs) skip (fun _ r => .ok r) (fun _ h => .ok h) =
      if ve = 0 ∨ recs.length ≤ ve then .ok (blobBytes klen recs) else .error .notEqual := by
  have hint := recover_intact klen recs skip hlen hts
  have hV := recoveryBlobV_intact klen recs ve skip hlen hts
  by_cases hve : ve = 0
  · subst hve
    rw [buggyClear_invisible_zero, if_pos (Or.inl rfl)]
    exact hV
  · rw [processBlobWithW_buggyClear ve hve _ skip _ _ (written_canon_produced klen recs skip hlen hts)
      (fun out hout => by
        rw [show processBlobWith (blobBytes klen recs) skip (fun _ r => .ok r) (fun _ h => .ok h) =
          recoveryBlob (blobBytes klen recs) skip from rfl, hint] at hout
        cases hout; exact hlen),
      written_length_produced klen recs skip hlen hts]
    by_cases hle : recs.length ≤ ve
    · rw [if_pos hle, if_pos (Or.inr hle)]; exact hV
    · rw [if_neg hle, if_neg (by omega)]

/-! ### non-vacuity of the writer theorems: a 5-record blob, `validate_every` = 0, 2, 5, 7 -/

/-- `C05.recs4` and a record with meta and data -/
def recs5 : List (Rec × List UInt8) :=
  C05.recs4 ++ [({ key := 4, ts := 105, del := false, mt := some [7], data := ⟨3, 0⟩ }, [5, 6, 7])]

abbrev b5 : List UInt8 := blobBytes 3 recs5

theorem b5_hyps : b5.length = 416 ∧ b5.length < 2 ^ 64 ∧ (∀ x ∈ recs5, x.1.ts < 2 ^ 64) ∧ recs5.length = 5 := by
  decide +kernel

/-- by evaluation of the model (independent of the theorems): the real writer, every batch size -/
theorem b5_real :
    recoveryBlobV 0 b5 true = .ok b5 ∧ recoveryBlobV 2 b5 true = .ok b5 ∧
    recoveryBlobV 5 b5 true = .ok b5 ∧ recoveryBlobV 7 b5 true = .ok b5 := by
  refine ⟨by decide +kernel, by decide +kernel, by decide +kernel, by decide +kernel⟩

/-- the same from the theorems, for all batch sizes at once -/
example (ve : Nat) (skip : Bool) : recoveryBlobV ve b5 skip = .ok b5 :=
  (recover_every 3 recs5 ve b5_hyps.2.1 b5_hyps.2.2.1).1 skip

/-- the hypotheses of (1) / (2) hold for `b5` -/
example : (∀ r ∈ writtenRecords b5 true (fun _ r => .ok r) (fun _ h => .ok h), r.Canon) ∧
    (writtenRecords b5 true (fun _ r => .ok r) (fun _ h => .ok h)).length = 5 :=
  ⟨written_canon_produced 3 recs5 true b5_hyps.2.1 b5_hyps.2.2.1,
   by rw [written_length_produced 3 recs5 true b5_hyps.2.1 b5_hyps.2.2.1]; rfl⟩

/-- damaged blobs (the examples `flip_data_example`, `flip_header_example` and the cut above), the
    version-0 image: every batch size -/
example (ve : Nat) : recoveryBlobV ve (b4.set 91 0xAA) true = .ok (blobBytes 3 (C05.recs4.eraseIdx 0)) ∧
    recoveryBlobV ve (b4.set 91 0xAA) false = .ok (blobBytes 3 []) :=
  ⟨((recover_every 3 C05.recs4 ve (by decide) (by decide)).2.1 0 _ flip_data_example).2,
   ((recover_every 3 C05.recs4 ve (by decide) (by decide)).2.1 0 _ flip_data_example).1⟩

example (ve : Nat) : recoveryBlobV ve (b4.set 148 0xAA) true = .ok (blobBytes 3 (C05.recs4.eraseIdx 1)) :=
  ((recover_every 3 C05.recs4 ve (by decide) (by decide)).2.1 1 _ flip_header_example).2

example (ve : Nat) (skip : Bool) : recoveryBlobV ve (b4.take 150) skip = .ok (blobBytes 3 (C05.recs4.take 1)) :=
  (recover_every 3 C05.recs4 ve (by decide) (by decide)).2.2 1 150 skip (by decide)

example (ve : Nat) : migrateBlobV ve (blobBytesV0 3 recs5) = .ok b5 :=
  (migrate_preserves_every 3 recs5 ve b5_hyps.2.1 b5_hyps.2.2.1).1

/-- variant 1 breaks (1): with `validate_every = 0` the output is not the blob (the records after the
    first carry `blob_offset` 20), with `validate_every = 2` it is -/
theorem buggyOffset_breaks_irrelevance :
    processBlobWithW stepBuggyOffset 0 b5 true (fun _ r => .ok r) (fun _ h => .ok h) ≠ .ok b5 ∧
    processBlobWithW stepBuggyOffset 2 b5 true (fun _ r => .ok r) (fun _ h => .ok h) = .ok b5 := by
  refine ⟨by decide +kernel, by decide +kernel⟩

/-- the same from the exact condition -/
example (ve : Nat) :
    processBlobWithW stepBuggyOffset ve b5 true (fun _ r => .ok r) (fun _ h => .ok h) = .ok b5 ↔ ve ≠ 0 := by
  rw [buggyOffset_on_produced 3 recs5 ve true b5_hyps.2.1 b5_hyps.2.2.1, b5_hyps.2.2.2]
  omega

/-- variant 2 breaks (2): 5 records, `validate_every = 2`: the second read-back fails on the writer's own
    output; `validate_every = 5` hides the bug (and so do 0 and 7, next example) -/
theorem buggyClear_breaks_readback :
    processBlobWithW stepBuggyClear 2 b5 true (fun _ r => .ok r) (fun _ h => .ok h) = .error .notEqual ∧
    processBlobWithW stepBuggyClear 5 b5 true (fun _ r => .ok r) (fun _ h => .ok h) = .ok b5 := by
  refine ⟨by decide +kernel, by decide +kernel⟩

/-- the same from the exact condition -/
example (ve : Nat) :
    processBlobWithW stepBuggyClear ve b5 true (fun _ r => .ok r) (fun _ h => .ok h) =
      if ve = 0 ∨ 5 ≤ ve then .ok b5 else .error .notEqual := by
  rw [buggyClear_on_produced 3 recs5 ve true b5_hyps.2.1 b5_hyps.2.2.1, b5_hyps.2.2.2]

end Pearl.C16

/-
NOT YET PROVED (none of the requested statements is missing; possible strengthenings)

1. `validate_rejects_flip` / `recover_skip` for alterations that touch one of the three length fields of a
   record header. The header CRC still rejects the header (≤ 4 adjacent bytes), so `validate_blob` fails;
   but `skip_wrong_record_data` then trusts the altered `meta_size` / `data_size` (or the altered key length
   moves every later field), so where recovery continues is not determined by the original blob.
   Not stated, not needed for the property.
2. DONE (section "the writer's read-back validation"): `BlobWriter` with `cache` / `written` /
   `written_cached`, `validate_written_records` every `validate_every` records and at the end
   (Pearl/Model/ToolsWriter.lean).  `validate_every_irrelevant`, `recover_every`, `recover_prefix_every`,
   `migrate_preserves_every`: every C16 recovery / migration result holds for every batch size;
   `readback_invariant`, `readback_never_fails_on_own_output`; the two seeded variants with their exact
   visibility conditions (`buggyOffset_invisible_iff`, `buggyClear_invisible_iff`, `*_on_produced`).
   What remains open here:
   * `validate_every_irrelevant` for ARBITRARY input bytes is false
     (`validate_every_relevant_for_noncanonical_meta`); the general theorem
     (`validate_every_irrelevant_partial`) assumes that the records handed to the writer are canonical.
     Not proved: that every record `read_single_record` accepts is canonical EXCEPT for the length of its
     re-serialised meta (plausible: the other fields of `ToolRecord.Canon` are checked by the reader), which
     would reduce the hypothesis to "no record of the input has trailing bytes in its meta region".
   * preprocessors other than identity / `migrate`: the hypothesis is on what they return.
   * the `HashMap` comparison of `record != &written_record` is modelled on entry lists in stream order
     (item 3).
3. Metadata maps with more than one entry: the tools re-serialise a `HashMap`, whose iteration order is not
   determined; the model (and the storage model) only has maps with at most one entry.

Statements that needed care (see the doc comments):
  * header alterations: the header CRC alone does not detect a window straddling
    `data_checksum | header_checksum` (`header_crc_blind_spot`); `validate_rejects_flip_header` holds
    because the data checksum check catches those.
-/
