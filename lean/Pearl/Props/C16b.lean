import Pearl.Proofs.ToolsMany
import Pearl.Props.C16
/-
C16b: the offline tools on a blob with SEVERAL damaged records (C16 has one).

Vocabulary (Pearl/Proofs/ToolsMany.lean):
  * `FlipStep klen recs i base input` : `input` is `base` with at most 4 adjacent bytes altered inside the
    region of record `i` of the produced blob, in its data or in its header outside the length fields
    (`FlipIn klen recs i input` is `FlipStep klen recs i (blobBytes klen recs) input`);
  * `FlipMany klen recs D input` : one `FlipStep` per index listed in `D`, starting from the produced blob;
    the indices are pairwise distinct, in any order (`flipMany_singleton`: `D = [i]` is `FlipIn`);
  * `eraseIdxs D recs` : `recs` without the records whose index is in `D`;
  * `skipKeeps D 0 recs` : what the reader with `skip_wrong_record` keeps: it steps over ONE unreadable
    record per `read_record` call; if the record after it is unreadable too, `read_record` fails and
    `process_blob_with` stops.
Model of the reader with the field `latest_wrong_header` explicit, and of the seeded variant C16-7:
Pearl/Model/ToolsReaderSt.lean.
-/
namespace Pearl.C16b
open Pearl

/-! ## (1) several altered records -/

/-- `FlipIn` is the singleton case of `FlipMany` -/
theorem flipMany_singleton (klen : Nat) (recs : List (Rec × List UInt8)) (i : Nat) (input : List UInt8) :
    FlipMany klen recs [i] input ↔ FlipIn klen recs i input :=
  Pearl.flipMany_singleton klen recs i input

/-- and erasing a singleton is `eraseIdx` -/
theorem eraseIdxs_singleton (recs : List (Rec × List UInt8)) (i : Nat) :
    eraseIdxs [i] recs = recs.eraseIdx i := Pearl.eraseIdxs_singleton i recs

/-- `validate_blob` rejects a blob with at least one altered record -/
theorem validate_rejects_flip_many (klen : Nat) (recs : List (Rec × List UInt8)) (D : List Nat)
    (input : List UInt8) (hlen : (blobBytes klen recs).length < 2 ^ 64) (hts : ∀ x ∈ recs, x.1.ts < 2 ^ 64)
    (hflip : FlipMany klen recs D input) (hD : D ≠ []) : ∃ e, validateBlob input = .error e :=
  flipMany_validate klen recs D input hlen hts hflip hD

/-! ## (2) recovery, altered records pairwise at least 2 apart -/

/-- Under the hypotheses of `recover_skip`, with the records listed in `D` altered and no two of them
    adjacent: recovery with `skip_wrong_record` returns the blob of exactly the other records; recovery
    without returns the records before the least element of `D` -/
theorem recover_skip_many (klen : Nat) (recs : List (Rec × List UInt8)) (D : List Nat) (input : List UInt8)
    (hlen : (blobBytes klen recs).length < 2 ^ 64) (hts : ∀ x ∈ recs, x.1.ts < 2 ^ 64)
    (hflip : FlipMany klen recs D input) (hsep : ∀ a ∈ D, a + 1 ∉ D) :
    recoveryBlob input true = .ok (blobBytes klen (eraseIdxs D recs)) ∧
    ∀ m ∈ D, (∀ j ∈ D, m ≤ j) → recoveryBlob input false = .ok (blobBytes klen (recs.take m)) := by
  obtain ⟨h1, _, h3⟩ := flipMany_tools klen recs D input hlen hts hflip 0
  rw [skipKeeps_separated hsep] at h1
  exact ⟨h1, fun m hm hmin => (h3 m hm hmin).1⟩

/-- the same for every `validate_every` (`validate_every_irrelevant` extends) -/
theorem recover_skip_many_every (klen : Nat) (recs : List (Rec × List UInt8)) (D : List Nat)
    (input : List UInt8) (ve : Nat)
    (hlen : (blobBytes klen recs).length < 2 ^ 64) (hts : ∀ x ∈ recs, x.1.ts < 2 ^ 64)
    (hflip : FlipMany klen recs D input) (hsep : ∀ a ∈ D, a + 1 ∉ D) :
    recoveryBlobV ve input true = .ok (blobBytes klen (eraseIdxs D recs)) ∧
    ∀ m ∈ D, (∀ j ∈ D, m ≤ j) → recoveryBlobV ve input false = .ok (blobBytes klen (recs.take m)) := by
  obtain ⟨_, h2, h3⟩ := flipMany_tools klen recs D input hlen hts hflip ve
  rw [skipKeeps_separated hsep] at h2
  exact ⟨h2, fun m hm hmin => (h3 m hm hmin).2⟩

/-- `validate_every_irrelevant` for several altered records: no separation hypothesis needed -/
theorem validate_every_irrelevant_many (klen : Nat) (recs : List (Rec × List UInt8)) (D : List Nat)
    (input : List UInt8) (ve : Nat)
    (hlen : (blobBytes klen recs).length < 2 ^ 64) (hts : ∀ x ∈ recs, x.1.ts < 2 ^ 64)
    (hflip : FlipMany klen recs D input) (hD : D ≠ []) (skip : Bool) :
    recoveryBlobV ve input skip = liftW (recoveryBlob input skip) := by
  obtain ⟨h1, h2, h3⟩ := flipMany_tools klen recs D input hlen hts hflip ve
  cases skip
  · obtain ⟨m, hm, hmin⟩ : ∃ m ∈ D, ∀ j ∈ D, m ≤ j := by
      clear h1 h2 h3 hflip
      induction D with
      | nil => exact absurd rfl hD
      | cons a D ih =>
        by_cases hD' : D = []
        · subst hD'; exact ⟨a, by simp, by simp⟩
        · obtain ⟨m, hm, hmin⟩ := ih hD'
          by_cases ham : a ≤ m
          · exact ⟨a, by simp, fun j hj => by
              rcases List.mem_cons.mp hj with rfl | hj
              · exact Nat.le_refl _
              · exact Nat.le_trans ham (hmin j hj)⟩
          · exact ⟨m, List.mem_cons_of_mem _ hm, fun j hj => by
              rcases List.mem_cons.mp hj with rfl | hj
              · omega
              · exact hmin j hj⟩
    rw [(h3 m hm hmin).1, (h3 m hm hmin).2]; rfl
  · rw [h1, h2]; rfl

/-- `recover_prefix` for several altered records (pairwise at least 2 apart; for adjacent ones see
    `recover_skip_general`): the output validates, is made of original records, and starts with all the
    records before the first altered one -/
theorem recover_prefix_many (klen : Nat) (recs : List (Rec × List UInt8)) (D : List Nat) (input : List UInt8)
    (hlen : (blobBytes klen recs).length < 2 ^ 64) (hts : ∀ x ∈ recs, x.1.ts < 2 ^ 64)
    (hflip : FlipMany klen recs D input) (hsep : ∀ a ∈ D, a + 1 ∉ D) (m : Nat) (hmin : ∀ j ∈ D, m ≤ j) :
    ∃ S, recoveryBlob input true = .ok (blobBytes klen S) ∧ validateBlob (blobBytes klen S) = .ok () ∧
      recs.take m <+: S ∧ S.Sublist recs ∧ (∀ i x, i ∉ D → recs[i]? = some x → x ∈ S) := by
  refine ⟨eraseIdxs D recs, (recover_skip_many klen recs D input hlen hts hflip hsep).1, ?_, ?_, ?_, ?_⟩
  · have hsub : (eraseIdxs D recs).Sublist recs := dropIdxs_sublist D 0 recs
    have hle : (blobBytes klen (eraseIdxs D recs)).length ≤ (blobBytes klen recs).length := by
      rw [blobBytes_length, blobBytes_length]
      have := (hsub.map (fun x => recordOf klen x.1 x.2)).map Record.size
      have := sublist_sum_le this
      simp only [recordsOf]
      omega
    exact C16.validate_accepts_produced klen _ (by omega) (fun x hx => hts x (hsub.subset hx))
  · exact dropIdxs_take_prefix recs 0 m (by simpa using hmin)
  · exact dropIdxs_sublist D 0 recs
  · intro i x hi hx
    exact mem_dropIdxs recs 0 i x (by simpa using hi) (by simpa using hx)

/-! ## (3) adjacent altered records

`read_record(skip_wrong = true)` retries `read_single_record` exactly once (blob_reader.rs, the `Err` arm
of `read_record`): after a record that failed it reads the next one, and if that one fails too the error is
returned and `process_blob_with` leaves its loop (`break`).  The real reader therefore behaves as the
model: everything from the first PAIR of adjacent altered records on is lost, although every record after
the pair may be intact.  (This is the behaviour of the code at /repo, not a modelling artefact.) -/

/-- no hypothesis on `D` beyond what `FlipMany` says (pairwise distinct): the output is determined by
    `skipKeeps` -/
theorem recover_skip_general (klen : Nat) (recs : List (Rec × List UInt8)) (D : List Nat) (input : List UInt8)
    (ve : Nat) (hlen : (blobBytes klen recs).length < 2 ^ 64) (hts : ∀ x ∈ recs, x.1.ts < 2 ^ 64)
    (hflip : FlipMany klen recs D input) :
    recoveryBlob input true = .ok (blobBytes klen (skipKeeps D 0 recs)) ∧
    recoveryBlobV ve input true = .ok (blobBytes klen (skipKeeps D 0 recs)) :=
  ⟨(flipMany_tools klen recs D input hlen hts hflip ve).1, (flipMany_tools klen recs D input hlen hts hflip ve).2.1⟩

/-- if `c, c + 1` is the first pair of adjacent altered records, recovery with `skip_wrong_record` returns
    the unaltered records BEFORE `c` and nothing else -/
theorem recover_skip_adjacent (klen : Nat) (recs : List (Rec × List UInt8)) (D : List Nat) (input : List UInt8)
    (hlen : (blobBytes klen recs).length < 2 ^ 64) (hts : ∀ x ∈ recs, x.1.ts < 2 ^ 64)
    (hflip : FlipMany klen recs D input) (c : Nat) (hc : c ∈ D) (hc1 : c + 1 ∈ D)
    (hfirst : ∀ a < c, a ∈ D → a + 1 ∉ D) :
    recoveryBlob input true = .ok (blobBytes klen (eraseIdxs D (recs.take c))) := by
  rw [(flipMany_tools klen recs D input hlen hts hflip 0).1,
    skipKeeps_adjacent hc hc1 recs 0 c (Nat.zero_add c) (fun a _ ha => hfirst a ha)]
  rfl

/-! ## (4) the field `latest_wrong_header`, and the seeded variant C16-7

`Model/Tools.lean` has no reader state besides the position: the wrong header travels in the error value
`headerValidation h pos`.  `Model/ToolsReaderSt.lean` is a second model of `blob_reader.rs`, written from
the code with the field explicit.  They agree on every file: -/

/-- for the real code (and for each edit of the seeded change alone) recovery over the reader with the
    explicit field is `recoveryBlob`, on ALL inputs, with and without `skip_wrong_record` -/
theorem latest_wrong_header_faithful (input : List UInt8) (skip : Bool) :
    recoveryBlobSt .real input skip = recoveryBlob input skip ∧
    recoveryBlobSt .editA input skip = recoveryBlob input skip ∧
    recoveryBlobSt .editB input skip = recoveryBlob input skip :=
  ⟨recoveryBlobSt_harmless _ (by decide) input skip, recoveryBlobSt_harmless _ (by decide) input skip,
   recoveryBlobSt_harmless _ (by decide) input skip⟩

/-- hence every C16 / C16b recovery theorem holds for the reader with the explicit field -/
theorem recover_skip_many_st (klen : Nat) (recs : List (Rec × List UInt8)) (D : List Nat) (input : List UInt8)
    (hlen : (blobBytes klen recs).length < 2 ^ 64) (hts : ∀ x ∈ recs, x.1.ts < 2 ^ 64)
    (hflip : FlipMany klen recs D input) (hsep : ∀ a ∈ D, a + 1 ∉ D) :
    recoveryBlobSt .real input true = .ok (blobBytes klen (eraseIdxs D recs)) := by
  rw [(latest_wrong_header_faithful input true).1]
  exact (recover_skip_many klen recs D input hlen hts hflip hsep).1

/-- the seeded variant, call by call, on ALL files: (i) a `read_record(true)` call of the seeded reader
    agrees with the real one (same record and position, or both fail) unless the field is set and the record
    at the position fails its DATA checksum; (ii) in that case the real reader continues at the end `p` of
    the failed record, the seeded one `data_size + meta_size` of the remembered header after `p`;
    (iii) the field, once set by a header failure, is never cleared -/
theorem stale_reader_mechanism (file : List UInt8) (st : ReaderSt) :
    ((st.lwh = none ∨ ∀ p, readSingleRecord file st.pos ≠ .error (.recordValidation p)) →
      ReadAgree (readRecord file true st.pos) (readRecordSt .stale file true st)) ∧
    (∀ h0 p, st.lwh = some h0 → readSingleRecord file st.pos = .error (.recordValidation p) →
      readRecord file true st.pos = readSingleRecord file p ∧
      readRecordSt .stale file true st =
        match skipWrongRecordData file.length h0 p with
        | .error e => (.error e, ⟨p, some h0⟩)
        | .ok p' => readSingleRecordSt .stale file ⟨p', some h0⟩) ∧
    ((readSingleRecordSt .stale file st).2.lwh = st.lwh ∨
      ∃ h p, readSingleRecord file st.pos = .error (.headerValidation h p) ∧
        (readSingleRecordSt .stale file st).2.lwh = some h) :=
  ⟨readRecordSt_stale_agree file st, fun h0 p hl hd => readRecordSt_stale_diverges file st h0 p hl hd,
   readSingleRecordSt_stale_field file st⟩

/-! ## non-vacuity: a 6-record blob -/

set_option maxRecDepth 1000000

/-- the first two records of `C05.recs4` (a plain record, an empty record with meta), a record with data,
    a record with meta and data, a deletion marker, a record with data -/
def recs6 : List (Rec × List UInt8) :=
  C05.recs4.take 2 ++
  [ ({ key := 5, ts := 103, del := false, mt := none, data := ⟨4, 0⟩ }, [1, 2, 3, 4]),
    ({ key := 4, ts := 104, del := false, mt := some [7], data := ⟨3, 0⟩ }, [5, 6, 7]),
    ({ key := 1, ts := 105, del := true, mt := none, data := ⟨0, 0⟩ }, []),
    ({ key := 3, ts := 106, del := false, mt := none, data := ⟨2, 0⟩ }, [8, 9]) ]

abbrev b6 : List UInt8 := blobBytes 3 recs6

-- record boundaries 20, 104, 191, 263, 352, 420, 490
theorem b6_hyps : b6.length = 490 ∧ b6.length < 2 ^ 64 ∧ (∀ x ∈ recs6, x.1.ts < 2 ^ 64) ∧
    recs6.length = 6 := by decide +kernel

/-- `FlipStep` from one decidable conjunction (one kernel evaluation of the blob instead of seven) -/
theorem flipStep_of {klen : Nat} {recs : List (Rec × List UInt8)} {i : Nat} {base input : List UInt8}
    (p w1 w2 s : List UInt8) (h : RecHeader)
    (hall : base = p ++ w1 ++ s ∧ input = p ++ w2 ++ s ∧ w1.length = w2.length ∧ w1.length ≤ 4 ∧ w1 ≠ w2 ∧
      (blobHeaders klen recs)[i]? = some h ∧ (InData h p.length w1.length ∨ InHeaderNoLen h p.length w1.length)) :
    FlipStep klen recs i base input := ⟨p, w1, w2, s, h, hall⟩

/-- byte 148 (a timestamp byte in the HEADER of record 1: 102 → 0xAA) and byte 349 (the first DATA byte of
    record 3: 5 → 0xAA) -/
abbrev b6_1h_3d : List UInt8 := (b6.set 148 0xAA).set 349 0xAA

theorem flip_1h : FlipIn 3 recs6 1 (b6.set 148 0xAA) :=
  flipStep_of (b6.take 148) [102] [0xAA] (b6.drop 149) (blobHeaders 3 recs6)[1]! (by decide +kernel)

theorem flip_1h_3d : FlipMany 3 recs6 [3, 1] b6_1h_3d :=
  FlipMany.cons (base := b6.set 148 0xAA) ((flipMany_singleton 3 recs6 1 _).mpr flip_1h) (by simp)
    (flipStep_of ((b6.set 148 0xAA).take 349) [5] [0xAA] ((b6.set 148 0xAA).drop 350)
      (blobHeaders 3 recs6)[3]! (by decide +kernel))

/-- `recover_skip_many` on it: records 0, 2, 4, 5 with skipping, record 0 without -/
example : recoveryBlob b6_1h_3d true = .ok (blobBytes 3 (eraseIdxs [3, 1] recs6)) ∧
    eraseIdxs [3, 1] recs6 = [recs6[0], recs6[2], recs6[4], recs6[5]] ∧
    recoveryBlob b6_1h_3d false = .ok (blobBytes 3 (recs6.take 1)) :=
  ⟨(recover_skip_many 3 recs6 [3, 1] _ b6_hyps.2.1 b6_hyps.2.2.1 flip_1h_3d (by decide)).1, rfl,
   (recover_skip_many 3 recs6 [3, 1] _ b6_hyps.2.1 b6_hyps.2.2.1 flip_1h_3d (by decide)).2 1 (by decide)
     (by decide)⟩

example (ve : Nat) : recoveryBlobV ve b6_1h_3d true = .ok (blobBytes 3 (eraseIdxs [3, 1] recs6)) :=
  (recover_skip_many_every 3 recs6 [3, 1] _ ve b6_hyps.2.1 b6_hyps.2.2.1 flip_1h_3d (by decide)).1

example : ∃ e, validateBlob b6_1h_3d = .error e :=
  validate_rejects_flip_many 3 recs6 [3, 1] _ b6_hyps.2.1 b6_hyps.2.2.1 flip_1h_3d (by simp)

example : ∃ S, recoveryBlob b6_1h_3d true = .ok (blobBytes 3 S) ∧ validateBlob (blobBytes 3 S) = .ok () ∧
    recs6.take 1 <+: S ∧ S.Sublist recs6 ∧ (∀ i x, i ∉ [3, 1] → recs6[i]? = some x → x ∈ S) :=
  recover_prefix_many 3 recs6 [3, 1] _ b6_hyps.2.1 b6_hyps.2.2.1 flip_1h_3d (by decide) 1 (by decide)

-- the same by evaluation of the model on the concrete file (independent of the proofs above)
theorem b6_1h_3d_eval :
    recoveryBlob b6_1h_3d true = .ok (blobBytes 3 [recs6[0], recs6[2], recs6[4], recs6[5]]) ∧
    recoveryBlob b6_1h_3d false = .ok (blobBytes 3 [recs6[0]]) := by
  decide +kernel

/-- the boundary of (2): the headers of records 1 AND 2 altered (bytes 148 and 235, timestamp bytes).
    Records 0, 3, 4, 5 are intact; recovery with `skip_wrong_record` returns record 0 only. -/
abbrev b6_1h_2h : List UInt8 := (b6.set 148 0xAA).set 235 0xAA

theorem flip_1h_2h : FlipMany 3 recs6 [2, 1] b6_1h_2h :=
  FlipMany.cons (base := b6.set 148 0xAA) ((flipMany_singleton 3 recs6 1 _).mpr flip_1h) (by simp)
    (flipStep_of ((b6.set 148 0xAA).take 235) [103] [0xAA] ((b6.set 148 0xAA).drop 236)
      (blobHeaders 3 recs6)[2]! (by decide +kernel))

/-- by evaluation: the statement of `recover_skip_many` FAILS without the separation hypothesis -/
theorem adjacent_boundary :
    recoveryBlob b6_1h_2h true = .ok (blobBytes 3 [recs6[0]]) ∧
    recoveryBlob b6_1h_2h true ≠ .ok (blobBytes 3 (eraseIdxs [2, 1] recs6)) ∧
    eraseIdxs [2, 1] recs6 = [recs6[0], recs6[3], recs6[4], recs6[5]] := by
  decide +kernel

/-- the same from `recover_skip_adjacent` -/
example : recoveryBlob b6_1h_2h true = .ok (blobBytes 3 (eraseIdxs [2, 1] (recs6.take 1))) ∧
    eraseIdxs [2, 1] (recs6.take 1) = [recs6[0]] :=
  ⟨recover_skip_adjacent 3 recs6 [2, 1] _ b6_hyps.2.1 b6_hyps.2.2.1 flip_1h_2h 1 (by decide) (by decide)
    (by decide), rfl⟩

/-- the seeded variant C16-7 (field not cleared after a valid header; data failures routed to
    `skip_wrong_record_data`, which accepts an empty field) on the blob with the header of record 1 and the
    data of record 3 altered: the real reader returns the four intact records 0, 2, 4, 5; the seeded one
    loses the intact records 4 and 5 (after the data failure of record 3 it seeks on by the sizes of the
    stale header of record 1, lands inside record 4 and gives up).  Each edit alone changes nothing; and
    with one of the two damages only, the seeded variant is indistinguishable from the real reader. -/
theorem stale_reader_loses_records :
    recoveryBlobSt .real b6_1h_3d true = .ok (blobBytes 3 [recs6[0], recs6[2], recs6[4], recs6[5]]) ∧
    recoveryBlobSt .stale b6_1h_3d true = .ok (blobBytes 3 [recs6[0], recs6[2]]) ∧
    recoveryBlobSt .editA b6_1h_3d true = recoveryBlobSt .real b6_1h_3d true ∧
    recoveryBlobSt .editB b6_1h_3d true = recoveryBlobSt .real b6_1h_3d true := by
  have h := latest_wrong_header_faithful b6_1h_3d true
  refine ⟨?_, by decide +kernel, by rw [h.1, h.2.1], by rw [h.1, h.2.2]⟩
  rw [h.1]
  exact b6_1h_3d_eval.1

/-- the mechanism on the witness: reading at record 1 (offset 104) the seeded reader steps over the altered
    header, returns record 2 and stands at 263 with the header of record 1 (`meta_size` 27, `data_size` 0)
    still remembered; record 3 at 263 fails its data checksum at 352; the real reader continues at 352 and
    returns record 4 (ending at 420); the seeded one seeks to 352 + 27 = 379, inside record 4, and fails -/
theorem stale_reader_trace :
    ∃ h0, (readRecordSt .stale b6_1h_3d true ⟨104, none⟩).2 = ⟨263, some h0⟩ ∧
      h0.metaSize = 27 ∧ h0.dataSize = 0 ∧
      readSingleRecord b6_1h_3d 263 = .error (.recordValidation 352) ∧
      skipWrongRecordData b6_1h_3d.length h0 352 = .ok 379 ∧
      (readRecord b6_1h_3d true 263).toOption.map Prod.snd = some 420 ∧
      (readRecordSt .stale b6_1h_3d true ⟨263, some h0⟩).1 = .error .other :=
  ⟨((readRecordSt .stale b6_1h_3d true ⟨104, none⟩).2.lwh).get!, by decide +kernel⟩

/-- with ONE of the two damages (or none) the seeded variant returns what the real reader returns
    (`C16.recover_skip`, `C16.recover_intact`): it survives every single-damage check -/
theorem stale_reader_single_damage :
    recoveryBlobSt .stale (b6.set 148 0xAA) true = .ok (blobBytes 3 (recs6.eraseIdx 1)) ∧
    recoveryBlobSt .stale (b6.set 349 0xAA) true = .ok (blobBytes 3 (recs6.eraseIdx 3)) ∧
    recoveryBlobSt .stale b6 true = .ok b6 := by
  decide +kernel

/-- the other pairings of two isolated damages are handled by the seeded variant as by the real reader:
    data then header (bytes 259 of record 2, 396 of record 4), two headers (148, 396), two data (259, 349) -/
theorem stale_reader_other_pairings :
    recoveryBlobSt .stale ((b6.set 259 0xAA).set 396 0xAA) true =
      recoveryBlobSt .real ((b6.set 259 0xAA).set 396 0xAA) true ∧
    recoveryBlobSt .stale ((b6.set 148 0xAA).set 396 0xAA) true =
      recoveryBlobSt .real ((b6.set 148 0xAA).set 396 0xAA) true ∧
    recoveryBlobSt .stale ((b6.set 259 0xAA).set 349 0xAA) true =
      recoveryBlobSt .real ((b6.set 259 0xAA).set 349 0xAA) true := by
  decide +kernel

/-- the seeded variant is not `Harmless`; the real reader and the single edits are -/
example : ¬ ReaderVariant.stale.Harmless ∧ ReaderVariant.real.Harmless ∧ ReaderVariant.editA.Harmless ∧
    ReaderVariant.editB.Harmless := by decide

end Pearl.C16b

#print axioms Pearl.C16b.flipMany_singleton
#print axioms Pearl.C16b.eraseIdxs_singleton
#print axioms Pearl.C16b.validate_rejects_flip_many
#print axioms Pearl.C16b.recover_skip_many
#print axioms Pearl.C16b.recover_skip_many_every
#print axioms Pearl.C16b.validate_every_irrelevant_many
#print axioms Pearl.C16b.recover_prefix_many
#print axioms Pearl.C16b.recover_skip_general
#print axioms Pearl.C16b.recover_skip_adjacent
#print axioms Pearl.C16b.latest_wrong_header_faithful
#print axioms Pearl.C16b.recover_skip_many_st
#print axioms Pearl.C16b.flip_1h_3d
#print axioms Pearl.C16b.flip_1h_2h
#print axioms Pearl.C16b.b6_1h_3d_eval
#print axioms Pearl.C16b.adjacent_boundary
#print axioms Pearl.C16b.stale_reader_mechanism
#print axioms Pearl.C16b.stale_reader_trace
#print axioms Pearl.C16b.stale_reader_loses_records
#print axioms Pearl.C16b.stale_reader_single_damage
#print axioms Pearl.C16b.stale_reader_other_pairings

/-
NOT YET PROVED (none of the requested statements is missing; boundaries and possible strengthenings)

1. `FlipMany` lists one `FlipStep` per record: at most 4 adjacent bytes altered in EACH listed record, in the
   classes `FlipIn` covers (data, or header outside key length / meta_size / data_size).  Two windows in the same
   record, and alterations of a length field, are outside (as in C16, item 1 there).
2. The order of `D` is the order in which the alterations are applied; no theorem says that `FlipMany` is
   invariant under permutation of `D` (the results do not depend on the order: they are stated with `∈ D`).
3. Adjacent altered records (`recover_skip_adjacent`, `adjacent_boundary`): the output stops before the first
   adjacent pair.  This is what `read_record` does (one retry, then `Err`, then `break` in `process_blob_with`);
   it is a LOSS of intact records that the property text ("after an isolated damaged record") does not cover.
4. The seeded variant (`ReaderVariant.stale`): whole runs are characterised on the witness blob only
   (`stale_reader_loses_records`, `stale_reader_single_damage`, `stale_reader_other_pairings`,
   `stale_reader_trace`, all by evaluation).  General (all files): one `read_record` call
   (`stale_reader_mechanism`), and the harmless variants (`recoveryBlobSt_harmless`: real, edit (a) alone,
   edit (b) alone).  Not proved: a theorem in the vocabulary of `FlipMany` saying for which `D` / damage classes
   (header-altered record before a data-altered one that is not the last) the seeded variant loses records;
   it needs the slots of `Proofs/ToolsMany.lean` split by the class of the alteration, which `BadRegion`
   (= `DamagedAt`) deliberately hides.
5. The reader with the explicit field is compared with `recoveryBlob` (`validate_every = 0`); for
   `validate_every ≠ 0` the writer side is unchanged (`recover_skip_many_every` is about `recoveryBlobV`
   over the reader of `Model/Tools.lean`).
-/
