import Pearl.Proofs.EndToEndSteps
import Pearl.Proofs.FsLemmas
import Pearl.Proofs.EndToEndGhost
/-
End-to-end read path: the composition of C01 (rank order / `prune_transparent`), C10 (filters and the
hierarchical container never give a false negative), C09 (look-ups through the B+tree file image equal look-ups
in the in-memory vector) and C05 (a record read back from the blob bytes is the record that was written).

Model: `Pearl/Model/EndToEnd.lean` — a concrete storage in which every blob carries its file bytes (L5), its
index in memory or as the L4 file image, its `CombinedFilter` (L3), the closed blobs sitting in the arena
container; operations and the read path are written with the layer functions only.
Lemmas: `Pearl/Proofs/EndToEnd{Index,Blob,BlobOps,Cont,Lemmas,Steps,Ghost}.lean`.

No layer interface is left as a hypothesis.  What remains are range side-conditions on the *inputs*:
* `Cfg.OK`      : `K::LEN ≤ 2032` (C09 `valid_real`), `group_size > 0` (C10 `push_total`), bloom parameters fit
                  their `u64` wire fields (C10 `filters_roundtrip`);
* `COp.OK`      : keys `< 256^K::LEN`, timestamps `< 2^64` (C05 `parse_ser_header`, needed: see `key_range_needed`);
* `StoreSized`  : every blob of the final L2 history has an L5 image shorter than `2^64` bytes
                  (C05 `load_roundtrip`); blobs only grow (`C01.apply_log`), so it holds on the way.

Design decisions / findings (also in the report):
* `Store.closeActive` (L2) and `Inner::close_active_blob` do NOT dump; the dump is `try_dump_old_blob_indexes`
  (`settle`).  The concrete operations mirror the L2 operations one to one, so "close + dump" is
  `[.closeActive, .settle]` (as in the non-vacuity example).
* `C10.check_filter_no_fn` is stated for `Container Combined FBlob` only; the storage keeps whole blobs in the
  container.  It is re-derived here for children of any type from its two ingredients, which are generic
  (`C10.possible_rev_complete_stack`, `C10.blob_check_filter_no_fn` on the projection `CBlob.toF`).
* `C05.load_roundtrip_scan_partial` needs a non-empty blob; `Blob::from_file` provides exactly that (it scans only
  when `size > header_size`), see `regen`.
* the L2 record (`Rec`, value = `(len, seed)`) cannot be recovered from bytes, so the abstraction function reads a
  history variable `CBlob.ghost`; no concrete operation and no part of the read path reads it — proved for
  arbitrary states, without the invariant (`ghost_not_read`, `ghost_not_read_by_ops`).
* L4 is generic in the header type (`Keyed H`) but had no instance for the L5 header `RecHeader`, and the L1
  insertion `push` exists for `Rec` only; `Pearl/Model/EndToEnd.lean` adds `hdrKey` / `vecPush` (the same
  transcription, generic in the element type) and `EndToEndIndex.lean` proves it is the stable insertion `ins`.
* `C01.prune_transparent` takes a predicate on L2 blobs, while the container prunes by slot; the predicate used is
  "the blob is not among the consulted ones that pass `check_filter`", which needs blob ids to be distinct
  (`Store.WF`).
Left out: metadata (`read_with`), bloom off-loading.
-/
namespace Pearl.E2E
open Pearl Pearl.BPTree Pearl.Container

/-! ## (1) abstraction, invariant, refinement -/

/-- what the invariant says about one blob: the file is the L5 image of the records (each written with the L5
    writer at the current end of file) and is shorter than `2^64`; the index is the map of the headers the writes
    pushed — in memory, or as the L4 file image the serializer builds from that map, next to the serialized
    filter; the filter is the fold of `add` over the keys and covers every key of the records -/
theorem invariant_blob {cfg : Cfg} {c : CState} (hinv : CInv cfg c) (b : CBlob) (hb : b ∈ c.blobs) :
    b.file = blobBytes cfg.klen (b.ghost.map (fun r => (r, dataOf r.data))) ∧
    b.file.length < 2 ^ 64 ∧
    (match b.index with
      | .mem m => m = indexOf (blobHeaders cfg.klen (b.ghost.map (fun r => (r, dataOf r.data))))
      | .disk f metaBuf off =>
        serializeFilters cfg.klen b.filter = some (metaBuf, off) ∧
        f = build (Params.real cfg.klen) metaBuf.length
          (indexOf (blobHeaders cfg.klen (b.ghost.map (fun r => (r, dataOf r.data)))))) ∧
    b.filter = (b.ghost.map (·.key)).foldl (Combined.add cfg.h) (newFilter cfg) ∧
    (∀ r ∈ b.ghost, b.filter.containsFast cfg.h r.key ≠ .notContains) ∧
    (∀ r ∈ b.ghost, b.checkFilter cfg r.key ≠ .notContains) := by
  have h : BlobInv cfg b := CInvG.blobInv hinv hb
  refine ⟨h.file, h.size, ?_, h.filter, fun r hr => h.filter_covers r hr,
    fun r hr => h.checkFilter_no_fn r.key ⟨r, hr, rfl⟩⟩
  have hi := h.index
  unfold IndexInv at hi
  cases hidx : b.index with
  | mem m => rw [hidx] at hi; exact hi
  | disk f mb off => rw [hidx] at hi; exact ⟨hi.2.1, hi.2.2⟩

/-- … and about the container: `Container.Inv` for some list `g` of push-time filters, each of which covers
    every key of the blob in its slot -/
theorem invariant_container {cfg : Cfg} {c : CState} (hinv : CInv cfg c) :
    ∃ g, Container.Inv (fops cfg) Combined.WF c.cont g ∧
      ∀ j lf, c.cont.getChild j = some lf → ∀ r ∈ lf.data.ghost, (fops cfg).coversOpt (g.getD j none) r.key := by
  obtain ⟨g, h1, h2⟩ := hinv.cont
  exact ⟨g, h1, fun j lf hlf r hr => h2 j lf.data (getChild_some_slots hlf) r hr⟩

/-- the invariant holds initially … -/
theorem invariant_init {cfg : Cfg} (hcfg : cfg.OK) :
    CInv cfg (CState.init cfg) ∧ (CState.init cfg).abs cfg = Store.init cfg.allowDup :=
  ⟨init_inv hcfg, init_abs cfg⟩

/-- … and **every concrete operation commutes with the abstraction function** and keeps the invariant
    (`abs (cstep c op) = (abs c).apply op'`) -/
theorem refinement {cfg : Cfg} (hcfg : cfg.OK) (c : CState) (hinv : CInv cfg c) (op : COp) (hop : op.OK cfg)
    (hsz : StoreSized cfg.klen ((c.abs cfg).apply op.abs)) :
    (c.step cfg op).abs cfg = (c.abs cfg).apply op.abs ∧ CInv cfg (c.step cfg op) :=
  step_ref hcfg hinv op hop hsz

/-- the commutation needs no size condition at all (the size condition is only needed to keep the invariant) -/
theorem refinement_abs {cfg : Cfg} (hcfg : cfg.OK) (c : CState) (hinv : CInv cfg c) (op : COp) (hop : op.OK cfg) :
    (c.step cfg op).abs cfg = (c.abs cfg).apply op.abs :=
  (step_ref0 hcfg hinv op hop).1

/-- `delete` also returns the number the L2 operation returns (the number of blobs marked) -/
theorem refinement_delete_count {cfg : Cfg} (hcfg : cfg.OK) (c : CState) (hinv : CInv cfg c) (k : Key) (ts : Nat)
    (oip : Bool) (hk : k < 256 ^ cfg.klen) (hts : ts < 2 ^ 64) :
    (c.delete cfg k ts oip).2 = ((c.abs cfg).delete k ts none oip).2 :=
  delete_count hcfg hinv k ts oip hk hts

/-- along every history from the empty storage -/
theorem refinement_run {cfg : Cfg} (hcfg : cfg.OK) (ops : List COp) (hops : ∀ op ∈ ops, op.OK cfg)
    (hsz : StoreSized cfg.klen ((Store.init cfg.allowDup).run (ops.map COp.abs))) :
    ((CState.init cfg).run cfg ops).abs cfg = (Store.init cfg.allowDup).run (ops.map COp.abs) ∧
      CInv cfg ((CState.init cfg).run cfg ops) :=
  run_ref hcfg ops hops hsz

/-- the size side-condition in arithmetic form: per blob of the L2 state,
    `20 + Σ (57 + K::LEN + |meta| + data length) < 2^64` (`Fs.contentLen`, the file length of C12) -/
theorem storeSized_iff (klen : Nat) (s : Store) :
    StoreSized klen s ↔ ∀ b ∈ s.blobs, Fs.contentLen klen b.recs < 2 ^ 64 := by
  have h : ∀ b : Blob, (blobBytes klen (full b.recs)).length = Fs.contentLen klen b.recs :=
    fun b => Fs.content_length klen b
  unfold StoreSized
  constructor
  · intro hs b hb; rw [← h]; exact hs b hb
  · intro hs b hb; rw [h]; exact hs b hb

/-- "close + dump" is the two-operation history `[closeActive, settle]`: `Inner::close_active_blob` pushes the
    blob into the container, `try_dump_old_blob_indexes` (sent right after by the observer) dumps the indexes -/
theorem close_and_dump {cfg : Cfg} (c : CState) (hinv : CInv cfg c) :
    ((c.step cfg .closeActive).step cfg .settle).abs cfg = ((c.abs cfg).apply .closeActive).apply .settle ∧
      CInv cfg ((c.step cfg .closeActive).step cfg .settle) := by
  obtain ⟨h1, i1⟩ := closeActive_ref hinv
  obtain ⟨h2, i2⟩ := settle_ref i1
  exact ⟨by rw [h2, h1], i2⟩

/-- the corollary of C10 that composes (`C10.check_filter_no_fn_stack` is stated for containers of `FBlob`s
    only): in a reachable storage a closed blob that holds `k` is yielded by `iter_possible_childs_rev(k)` as
    written, and its own `check_filter(k)` does not answer `NotContains` — the hypothesis of
    `C01.prune_transparent` -/
theorem closed_blob_never_pruned {cfg : Cfg} {c : CState} (hinv : CInv cfg c) (j : Nat) (lf : FLeaf CBlob)
    (hj : c.cont.getChild j = some lf) (k : Key) (hk : ∃ r ∈ lf.data.ghost, r.key = k) :
    j ∈ Container.iterPossibleStack (fops cfg) c.cont true k ∧ lf.data.checkFilter cfg k ≠ .notContains := by
  obtain ⟨g, hci, hcov⟩ := invariant_container hinv
  obtain ⟨r, hr, rfl⟩ := hk
  refine ⟨(C10.possible_rev_complete_stack c.cont g r.key hci).2.2.2 j lf hj (hcov j lf hj r hr), ?_⟩
  exact (hinv.closed lf.data (List.mem_of_getElem? (getChild_some_slots hj))).checkFilter_no_fn r.key ⟨r, hr, rfl⟩

/-- the history variable is not read by the read path: for ANY state, erasing every `ghost` changes no answer -/
theorem ghost_not_read (cfg : Cfg) (c : CState) (k : Key) :
    c.eraseGhost.read cfg k = c.read cfg k ∧ c.eraseGhost.contains cfg k = c.contains cfg k :=
  read_ghost_irrelevant cfg c k

/-- … nor by any operation: for ANY state and operation, the physical part (files, indexes, filters, container) of
    the next state is a function of the physical part of the current state; hence the answers after any history
    depend on the physical part of the starting state only.  `ghost` is pure instrumentation. -/
theorem ghost_not_read_by_ops (cfg : Cfg) (c : CState) (op : COp) :
    (c.step cfg op).eraseGhost = (c.eraseGhost.step cfg op).eraseGhost ∧
    ∀ (c' : CState), c.eraseGhost = c'.eraseGhost → ∀ (ops : List COp) (k : Key),
      (c.run cfg ops).read cfg k = (c'.run cfg ops).read cfg k :=
  ⟨step_eraseGhost cfg c op, fun c' h ops k => (run_read_phys cfg c c' h ops k).1⟩

/-! ## (2), (3) the read path -/

/-- in any state satisfying the invariant: no error, and the L2 answer with the bytes of its value -/
theorem read_of_inv {cfg : Cfg} (hcfg : cfg.OK) (c : CState) (hinv : CInv cfg c) (k : Key) :
    c.read cfg k = .ok ((Spec.latest (c.abs cfg).history k).map (fun p => dataOf p.r.data)) ∧
    c.contains cfg k = .ok ((Spec.latest (c.abs cfg).history k).map (·.r.ts)) := by
  refine ⟨?_, ?_⟩
  · rw [read_eq hcfg hinv k, read_eq_spec hinv.wf k, ReadResult.map_map]
  · rw [contains_eq hcfg hinv k, contains_eq_spec hinv.wf k]

/-- **`end_to_end_read`**: for every history of concrete operations from the empty storage and every key, the
    concrete read — active blob, then `iter_possible_childs_rev` over the container with filter pruning at group
    and blob level, per blob `check_filter` and the index look-up (vector or file image), `ReadResult::latest`
    across blobs, then `Entry::load` of the winner with header and data checksum validation — returns without
    error `Found bytes` with the bytes of the first-ranked record of the key, `Deleted ts`, or `NotFound`,
    exactly as `Spec.latest` of the history says. -/
theorem end_to_end_read {cfg : Cfg} (hcfg : cfg.OK) (ops : List COp) (hops : ∀ op ∈ ops, op.OK cfg)
    (hsz : StoreSized cfg.klen ((Store.init cfg.allowDup).run (ops.map COp.abs))) (k : Key) :
    ((CState.init cfg).run cfg ops).read cfg k =
      .ok ((Spec.latest ((Store.init cfg.allowDup).run (ops.map COp.abs)).history k).map
        (fun p => dataOf p.r.data)) := by
  obtain ⟨habs, hinv⟩ := run_ref hcfg ops hops hsz
  rw [(read_of_inv hcfg _ hinv k).1, habs]

/-- **`end_to_end_contains`** -/
theorem end_to_end_contains {cfg : Cfg} (hcfg : cfg.OK) (ops : List COp) (hops : ∀ op ∈ ops, op.OK cfg)
    (hsz : StoreSized cfg.klen ((Store.init cfg.allowDup).run (ops.map COp.abs))) (k : Key) :
    ((CState.init cfg).run cfg ops).contains cfg k =
      .ok ((Spec.latest ((Store.init cfg.allowDup).run (ops.map COp.abs)).history k).map (·.r.ts)) := by
  obtain ⟨habs, hinv⟩ := run_ref hcfg ops hops hsz
  rw [(read_of_inv hcfg _ hinv k).2, habs]

/-- the record served is a record of the history: the answers classify exactly -/
theorem end_to_end_read_cases {cfg : Cfg} (hcfg : cfg.OK) (ops : List COp) (hops : ∀ op ∈ ops, op.OK cfg)
    (hsz : StoreSized cfg.klen ((Store.init cfg.allowDup).run (ops.map COp.abs))) (k : Key) :
    let h := ((Store.init cfg.allowDup).run (ops.map COp.abs)).history
    (∀ p, Spec.latest h k = .found p → ((CState.init cfg).run cfg ops).read cfg k = .ok (.found (dataOf p.r.data))) ∧
    (∀ ts, Spec.latest h k = .deleted ts → ((CState.init cfg).run cfg ops).read cfg k = .ok (.deleted ts)) ∧
    (Spec.latest h k = .notFound → ((CState.init cfg).run cfg ops).read cfg k = .ok .notFound) := by
  intro h
  have := end_to_end_read hcfg ops hops hsz k
  refine ⟨fun p hp => ?_, fun ts hp => ?_, fun hp => ?_⟩ <;> rw [this, hp] <;> rfl

/-! ## (4) restart without index files -/

/-- in any state satisfying the invariant, close + init *without index files* (scan of the blob bytes,
    regeneration of indexes and filters, dump, rebuilt container) changes no answer -/
theorem restart_of_inv {cfg : Cfg} (hcfg : cfg.OK) (c : CState) (hinv : CInv cfg c) (lazy : Bool) (k : Key) :
    (c.restart cfg lazy).read cfg k = c.read cfg k ∧ (c.restart cfg lazy).contains cfg k = c.contains cfg k ∧
      CInv cfg (c.restart cfg lazy) := by
  obtain ⟨habs, hinv'⟩ := restart_ref hcfg hinv lazy
  have hstep : c.step cfg (.restart lazy) = c.restart cfg lazy := rfl
  have happly : (c.abs cfg).apply (Op.restart lazy) = (c.abs cfg).restart lazy := rfl
  rw [hstep, happly] at habs
  rw [hstep] at hinv'
  have hans := restart_answers hinv.wf lazy k
  refine ⟨?_, ?_, hinv'⟩
  · rw [read_eq hcfg hinv' k, read_eq hcfg hinv k, habs, hans.1]
  · rw [contains_eq hcfg hinv' k, contains_eq hcfg hinv k, habs, hans.2.2.1]

/-- **`end_to_end_restart`**: after every history, reads after a restart without index files equal reads
    before it -/
theorem end_to_end_restart {cfg : Cfg} (hcfg : cfg.OK) (ops : List COp) (hops : ∀ op ∈ ops, op.OK cfg)
    (hsz : StoreSized cfg.klen ((Store.init cfg.allowDup).run (ops.map COp.abs))) (lazy : Bool) (k : Key) :
    (((CState.init cfg).run cfg ops).restart cfg lazy).read cfg k = ((CState.init cfg).run cfg ops).read cfg k ∧
    (((CState.init cfg).run cfg ops).restart cfg lazy).contains cfg k
      = ((CState.init cfg).run cfg ops).contains cfg k := by
  obtain ⟨_, hinv⟩ := run_ref hcfg ops hops hsz
  exact ⟨(restart_of_inv hcfg _ hinv lazy k).1, (restart_of_inv hcfg _ hinv lazy k).2.1⟩

/-- the scan rebuilds exactly the index and the filter (not merely equivalent ones): the restarted blobs are the
    old blobs with their index back in memory -/
theorem restart_regenerates {cfg : Cfg} (c : CState) (hinv : CInv cfg c) (b : CBlob) (hb : b ∈ c.blobs) :
    regen cfg b = some { b with index := .mem (indexOf (blobHeaders cfg.klen (b.ghost.map (fun r => (r, dataOf r.data))))) } :=
  regen_eq (CInvG.blobInv hinv hb)

/-! ## non-vacuity -/

namespace Demo

/-- key length 1, groups of 2, a 100-bit bloom filter with two hashers, duplicates allowed (for the tie) -/
def cfg : Cfg :=
  { klen := 1, group := 2, bloom := some (⟨10, 2, 100, 1, 0⟩, 100), h := fun j k => 7 * k + 13 * j,
    allowDup := true }

theorem cfg_ok : cfg.OK :=
  ⟨by decide, by decide, fun p hp => by cases hp; exact ⟨⟨by decide, by decide, by decide, by decide, by decide⟩, by decide⟩⟩

/-- two blobs; blob 0 is closed and dumped (index on disk); key 1 has a tie at timestamp 5 across the blobs;
    key 2 is deleted (a marker in the active blob, and one in the dumped blob 0, whose index is loaded for it) -/
def ops : List COp :=
  [.write 1 5 ⟨2, 1⟩, .write 2 6 ⟨1, 2⟩, .closeActive, .settle, .write 1 5 ⟨3, 3⟩, .delete 2 9 false]

def s : CState := (CState.init cfg).run cfg ops

theorem ops_ok : ∀ op ∈ ops, op.OK cfg := by decide

set_option maxRecDepth 100000 in
theorem ops_sized : StoreSized cfg.klen ((Store.init cfg.allowDup).run (ops.map COp.abs)) := by
  unfold StoreSized; decide

end Demo

-- the concrete read path, evaluated: the tie is won by the newer blob, key 2 is deleted, key 3 is absent
set_option maxRecDepth 1000000 in
example : Demo.s.read Demo.cfg 1 = .ok (.found [3, 107, 223]) ∧ dataOf ⟨3, 3⟩ = [3, 107, 223] ∧
    Demo.s.read Demo.cfg 2 = .ok (.deleted 9) ∧ Demo.s.read Demo.cfg 3 = .ok .notFound ∧
    Demo.s.contains Demo.cfg 1 = .ok (.found 5) := by decide

-- two blobs, the closed one with its index on disk until the delete loads it again
example : (Demo.s.abs Demo.cfg).blobs.map (fun b => (b.id, b.recs.length, b.onDisk)) = [(0, 3, false), (1, 2, false)] := by
  decide
example : (((CState.init Demo.cfg).run Demo.cfg (Demo.ops.take 5)).abs Demo.cfg).blobs.map (fun b => (b.id, b.onDisk))
    = [(0, true), (1, false)] := by decide

-- the theorems instantiated on it
example : Demo.s.read Demo.cfg 1 =
    .ok ((Spec.latest ((Store.init true).run (Demo.ops.map COp.abs)).history 1).map (fun p => dataOf p.r.data)) :=
  end_to_end_read Demo.cfg_ok Demo.ops Demo.ops_ok Demo.ops_sized 1

example : CInv Demo.cfg Demo.s := (refinement_run Demo.cfg_ok Demo.ops Demo.ops_ok Demo.ops_sized).2

-- restart without index files, evaluated and by the theorem
set_option maxRecDepth 1000000 in
example : (Demo.s.restart Demo.cfg false).read Demo.cfg 1 = .ok (.found [3, 107, 223]) ∧
    (Demo.s.restart Demo.cfg true).read Demo.cfg 2 = .ok (.deleted 9) ∧
    ((Demo.s.restart Demo.cfg false).abs Demo.cfg).blobs.map (fun b => (b.id, b.onDisk)) = [(0, true), (1, false)] := by
  decide

example (k : Key) : (Demo.s.restart Demo.cfg true).read Demo.cfg k = Demo.s.read Demo.cfg k :=
  (end_to_end_restart Demo.cfg_ok Demo.ops Demo.ops_ok Demo.ops_sized true k).1

-- pruning happens: key 1 lives in both blobs, key 2's records too, but for key 40 neither blob is consulted
-- beyond its filter
set_option maxRecDepth 1000000 in
example : (Demo.s.consulted Demo.cfg 1).map (·.id) = [1, 0] ∧
    ((Demo.s.consulted Demo.cfg 40).filter (fun b => b.checkFilter Demo.cfg 40 != .notContains)).map (·.id) = [] := by
  decide

set_option maxRecDepth 1000000 in
/-- the key range hypothesis `COp.OK` is needed: a key that does not fit `K::LEN` bytes is stored under its
    low-order bytes; the scan at restart files the record under that other key -/
theorem key_range_needed :
    let c := (CState.init Demo.cfg).run Demo.cfg [.write 257 5 ⟨1, 1⟩, .restart false]
    c.read Demo.cfg 1 = .ok (.found (dataOf ⟨1, 1⟩)) ∧
    Spec.latest ((Store.init true).run [.write 257 5 none ⟨1, 1⟩, .restart false]).history 1 = .notFound := by
  refine ⟨?_, ?_⟩
  · decide
  · rw [show Spec.latest ((Store.init true).run [.write 257 5 none ⟨1, 1⟩, .restart false]).history 1 = .notFound ↔
        ((Store.init true).run [.write 257 5 none ⟨1, 1⟩, .restart false]).read 1 none = .notFound from by
      rw [run_read_eq_spec true _ 1]
      cases Spec.latest ((Store.init true).run [.write 257 5 none ⟨1, 1⟩, .restart false]).history 1 <;>
        simp [ReadResult.map]]
    decide

end Pearl.E2E

#print axioms Pearl.E2E.invariant_blob
#print axioms Pearl.E2E.invariant_container
#print axioms Pearl.E2E.invariant_init
#print axioms Pearl.E2E.refinement
#print axioms Pearl.E2E.refinement_abs
#print axioms Pearl.E2E.refinement_delete_count
#print axioms Pearl.E2E.refinement_run
#print axioms Pearl.E2E.storeSized_iff
#print axioms Pearl.E2E.close_and_dump
#print axioms Pearl.E2E.closed_blob_never_pruned
#print axioms Pearl.E2E.ghost_not_read
#print axioms Pearl.E2E.ghost_not_read_by_ops
#print axioms Pearl.E2E.read_of_inv
#print axioms Pearl.E2E.end_to_end_read
#print axioms Pearl.E2E.end_to_end_contains
#print axioms Pearl.E2E.end_to_end_read_cases
#print axioms Pearl.E2E.restart_of_inv
#print axioms Pearl.E2E.end_to_end_restart
#print axioms Pearl.E2E.restart_regenerates
#print axioms Pearl.E2E.key_range_needed

/-
NOT YET PROVED
* metadata (`read_with`, `write_with`, delete markers with metadata) and bloom off-loading are not part of the
  concrete operations;
* `read_all` / `read_all_with_deletion_marker` are not composed (only `read` and `contains`);
* concurrency: the concrete operations are sequential (the read-side LTS of C08 is not composed with the bytes);
* the on-disk index is the structured `IndexFile` of L4 (node / header granularity), not the byte string of
  `BPTreeBytes.lean`; the blob file is at byte level.
-/
