import Pearl.Proofs.EndToEndSteps
import Pearl.Proofs.FsLemmas
import Pearl.Proofs.EndToEndGhost
import Pearl.Proofs.EndToEndMetaRun
import Pearl.Proofs.EndToEndMetaReadAll
import Pearl.Proofs.EndToEndMetaBytesStore
import Pearl.Proofs.EndToEndMetaBytesSize
import Pearl.Proofs.EndToEndMetaGhost
import Pearl.Proofs.EndToEndStartStore
import Pearl.Proofs.EndToEndStartOffloadBytes
import Pearl.Proofs.EndToEndStartDir
import Pearl.Props.C03b
import Pearl.Proofs.EndToEndCfgRun
import Pearl.Proofs.EndToEndCfgMerge
/-
End-to-end read path: the composition of C01 (rank order / `prune_transparent`), C10 (filters and the
hierarchical container never give a false negative), C09 (look-ups through the B+tree file image equal look-ups
in the in-memory vector) and C05 (a record read back from the blob bytes is the record that was written).

Model: `Pearl/Model/EndToEnd.lean` — a concrete storage in which every blob carries its file bytes (L5), its
index in memory or as the L4 file image, its `CombinedFilter` (L3), the closed blobs sitting in the arena
container; operations and the read path are written with the layer functions only.
Lemmas: `Pearl/Proofs/EndToEnd{Index,Blob,BlobOps,Cont,Lemmas,Steps,Ghost}.lean`.

No layer interface is left as a hypothesis.  What remains are range side-conditions on the *inputs*:
* `Cfg.OK`      : `K::LEN ≤ 2032` (C09 `valid_real`), `group_size > 0` (C10 `push_total`), bloom parameters fit
                  their `u64` wire fields (C10 `filters_roundtrip`);
* `COp.OK`      : keys `< 256^K::LEN`, timestamps `< 2^64` (C05 `parse_ser_header`, needed: see `key_range_needed`);
* `StoreSized`  : every blob of the final L2 history has an L5 image shorter than `2^64` bytes
                  (C05 `load_roundtrip`); blobs only grow (`C01.apply_log`), so it holds on the way.

Design decisions / findings (also in the report):
* `Store.closeActive` (L2) and `Inner::close_active_blob` do NOT dump; the dump is `try_dump_old_blob_indexes`
  (`settle`).  The concrete operations mirror the L2 operations one to one, so "close + dump" is
  `[.closeActive, .settle]` (as in the non-vacuity example).
* `C10.check_filter_no_fn` is stated for `Container Combined FBlob` only; the storage keeps whole blobs in the
  container.  It is re-derived here for children of any type from its two ingredients, which are generic
  (`C10.possible_rev_complete_stack`, `C10.blob_check_filter_no_fn` on the projection `CBlob.toF`).
* `C05.load_roundtrip_scan_partial` needs a non-empty blob; `Blob::from_file` provides exactly that (it scans only
  when `size > header_size`), see `regen`.
* the L2 record (`Rec`, value = `(len, seed)`) cannot be recovered from bytes, so the abstraction function reads a
  history variable `CBlob.ghost`; no concrete operation and no part of the read path reads it — proved for
  arbitrary states, without the invariant (`ghost_not_read`, `ghost_not_read_by_ops`).
* L4 is generic in the header type (`Keyed H`) but had no instance for the L5 header `RecHeader`, and the L1
  insertion `push` exists for `Rec` only; `Pearl/Model/EndToEnd.lean` adds `hdrKey` / `vecPush` (the same
  transcription, generic in the element type) and `EndToEndIndex.lean` proves it is the stable insertion `ins`.
* `C01.prune_transparent` takes a predicate on L2 blobs, while the container prunes by slot; the predicate used is
  "the blob is not among the consulted ones that pass `check_filter`", which needs blob ids to be distinct
  (`Store.WF`).
Left out in this first part: metadata (`read_with`), bloom off-loading, index files at start-up — see the
extensions further down.
-/
namespace Pearl.E2E
open Pearl Pearl.BPTree Pearl.Container

/-! ## (1) abstraction, invariant, refinement -/

/-- what the invariant says about one blob: the file is the L5 image of the records (each written with the L5
    writer at the current end of file) and is shorter than `2^64`; the index is the map of the headers the writes
    pushed — in memory, or as the L4 file image the serializer builds from that map, next to the serialized
    filter; the filter is the fold of `add` over the keys and covers every key of the records -/
theorem invariant_blob {cfg : Cfg} {c : CState} (hinv : CInv cfg c) (b : CBlob) (hb : b ∈ c.blobs) :
    b.file = blobBytes cfg.klen (b.ghost.map (fun r => (r, dataOf r.data))) ∧
    b.file.length < 2 ^ 64 ∧
    (match b.index with
      | .mem m => m = indexOf (blobHeaders cfg.klen (b.ghost.map (fun r => (r, dataOf r.data))))
      | .disk f metaBuf off =>
        serializeFilters cfg.klen b.filter = some (metaBuf, off) ∧
        f = build (Params.real cfg.klen) metaBuf.length
          (indexOf (blobHeaders cfg.klen (b.ghost.map (fun r => (r, dataOf r.data)))))) ∧
    b.filter = (b.ghost.map (·.key)).foldl (Combined.add cfg.h) (newFilter cfg) ∧
    (∀ r ∈ b.ghost, b.filter.containsFast cfg.h r.key ≠ .notContains) ∧
    (∀ r ∈ b.ghost, b.checkFilter cfg r.key ≠ .notContains) := by
  have h : BlobInv cfg b := CInvG.blobInv hinv hb
  refine ⟨h.file, h.size, ?_, h.filter, fun r hr => h.filter_covers r hr,
    fun r hr => h.checkFilter_no_fn r.key ⟨r, hr, rfl⟩⟩
  have hi := h.index
  unfold IndexInv at hi
  cases hidx : b.index with
  | mem m => rw [hidx] at hi; exact hi
  | disk f mb off => rw [hidx] at hi; exact ⟨hi.2.1, hi.2.2⟩

/-- … and about the container: `Container.Inv` for some list `g` of push-time filters, each of which covers
    every key of the blob in its slot -/
theorem invariant_container {cfg : Cfg} {c : CState} (hinv : CInv cfg c) :
    ∃ g, Container.Inv (fops cfg) Combined.WF c.cont g ∧
      ∀ j lf, c.cont.getChild j = some lf → ∀ r ∈ lf.data.ghost, (fops cfg).coversOpt (g.getD j none) r.key := by
  obtain ⟨g, h1, h2⟩ := hinv.cont
  exact ⟨g, h1, fun j lf hlf r hr => h2 j lf.data (getChild_some_slots hlf) r hr⟩

/-- the invariant holds initially … -/
theorem invariant_init {cfg : Cfg} (hcfg : cfg.OK) :
    CInv cfg (CState.init cfg) ∧ (CState.init cfg).abs cfg = Store.init cfg.allowDup :=
  ⟨init_inv hcfg, init_abs cfg⟩

/-- … and **every concrete operation commutes with the abstraction function** and keeps the invariant
    (`abs (cstep c op) = (abs c).apply op'`) -/
theorem refinement {cfg : Cfg} (hcfg : cfg.OK) (c : CState) (hinv : CInv cfg c) (op : COp) (hop : op.OK cfg)
    (hsz : StoreSized cfg.klen ((c.abs cfg).apply op.abs)) :
    (c.step cfg op).abs cfg = (c.abs cfg).apply op.abs ∧ CInv cfg (c.step cfg op) :=
  step_ref hcfg hinv op hop hsz

/-- the commutation needs no size condition at all (the size condition is only needed to keep the invariant) -/
theorem refinement_abs {cfg : Cfg} (hcfg : cfg.OK) (c : CState) (hinv : CInv cfg c) (op : COp) (hop : op.OK cfg) :
    (c.step cfg op).abs cfg = (c.abs cfg).apply op.abs :=
  (step_ref0 hcfg hinv op hop).1

/-- `delete` also returns the number the L2 operation returns (the number of blobs marked) -/
theorem refinement_delete_count {cfg : Cfg} (hcfg : cfg.OK) (c : CState) (hinv : CInv cfg c) (k : Key) (ts : Nat)
    (oip : Bool) (hk : k < 256 ^ cfg.klen) (hts : ts < 2 ^ 64) :
    (c.delete cfg k ts oip).2 = ((c.abs cfg).delete k ts none oip).2 :=
  delete_count hcfg hinv k ts oip hk hts

/-- along every history from the empty storage -/
theorem refinement_run {cfg : Cfg} (hcfg : cfg.OK) (ops : List COp) (hops : ∀ op ∈ ops, op.OK cfg)
    (hsz : StoreSized cfg.klen ((Store.init cfg.allowDup).run (ops.map COp.abs))) :
    ((CState.init cfg).run cfg ops).abs cfg = (Store.init cfg.allowDup).run (ops.map COp.abs) ∧
      CInv cfg ((CState.init cfg).run cfg ops) :=
  run_ref hcfg ops hops hsz

/-- the size side-condition in arithmetic form: per blob of the L2 state,
    `20 + Σ (57 + K::LEN + |meta| + data length) < 2^64` (`Fs.contentLen`, the file length of C12) -/
theorem storeSized_iff (klen : Nat) (s : Store) :
    StoreSized klen s ↔ ∀ b ∈ s.blobs, Fs.contentLen klen b.recs < 2 ^ 64 := by
  have h : ∀ b : Blob, (blobBytes klen (full b.recs)).length = Fs.contentLen klen b.recs :=
    fun b => Fs.content_length klen b
  unfold StoreSized
  constructor
  · intro hs b hb; rw [← h]; exact hs b hb
  · intro hs b hb; rw [h]; exact hs b hb

/-- "close + dump" is the two-operation history `[closeActive, settle]`: `Inner::close_active_blob` pushes the
    blob into the container, `try_dump_old_blob_indexes` (sent right after by the observer) dumps the indexes -/
theorem close_and_dump {cfg : Cfg} (c : CState) (hinv : CInv cfg c) :
    ((c.step cfg .closeActive).step cfg .settle).abs cfg = ((c.abs cfg).apply .closeActive).apply .settle ∧
      CInv cfg ((c.step cfg .closeActive).step cfg .settle) := by
  obtain ⟨h1, i1⟩ := closeActive_ref hinv
  obtain ⟨h2, i2⟩ := settle_ref i1
  exact ⟨by rw [h2, h1], i2⟩

/-- the corollary of C10 that composes (`C10.check_filter_no_fn_stack` is stated for containers of `FBlob`s
    only): in a reachable storage a closed blob that holds `k` is yielded by `iter_possible_childs_rev(k)` as
    written, and its own `check_filter(k)` does not answer `NotContains` — the hypothesis of
    `C01.prune_transparent` -/
theorem closed_blob_never_pruned {cfg : Cfg} {c : CState} (hinv : CInv cfg c) (j : Nat) (lf : FLeaf CBlob)
    (hj : c.cont.getChild j = some lf) (k : Key) (hk : ∃ r ∈ lf.data.ghost, r.key = k) :
    j ∈ Container.iterPossibleStack (fops cfg) c.cont true k ∧ lf.data.checkFilter cfg k ≠ .notContains := by
  obtain ⟨g, hci, hcov⟩ := invariant_container hinv
  obtain ⟨r, hr, rfl⟩ := hk
  refine ⟨(C10.possible_rev_complete_stack c.cont g r.key hci).2.2.2 j lf hj (hcov j lf hj r hr), ?_⟩
  exact (hinv.closed lf.data (List.mem_of_getElem? (getChild_some_slots hj))).checkFilter_no_fn r.key ⟨r, hr, rfl⟩

/-- the history variable is not read by the read path: for ANY state, erasing every `ghost` changes no answer -/
theorem ghost_not_read (cfg : Cfg) (c : CState) (k : Key) :
    c.eraseGhost.read cfg k = c.read cfg k ∧ c.eraseGhost.contains cfg k = c.contains cfg k :=
  read_ghost_irrelevant cfg c k

/-- … nor by any operation: for ANY state and operation, the physical part (files, indexes, filters, container) of
    the next state is a function of the physical part of the current state; hence the answers after any history
    depend on the physical part of the starting state only.  `ghost` is pure instrumentation. -/
theorem ghost_not_read_by_ops (cfg : Cfg) (c : CState) (op : COp) :
    (c.step cfg op).eraseGhost = (c.eraseGhost.step cfg op).eraseGhost ∧
    ∀ (c' : CState), c.eraseGhost = c'.eraseGhost → ∀ (ops : List COp) (k : Key),
      (c.run cfg ops).read cfg k = (c'.run cfg ops).read cfg k :=
  ⟨step_eraseGhost cfg c op, fun c' h ops k => (run_read_phys cfg c c' h ops k).1⟩

/-! ## (2), (3) the read path -/

/-- in any state satisfying the invariant: no error, and the L2 answer with the bytes of its value -/
theorem read_of_inv {cfg : Cfg} (hcfg : cfg.OK) (c : CState) (hinv : CInv cfg c) (k : Key) :
    c.read cfg k = .ok ((Spec.latest (c.abs cfg).history k).map (fun p => dataOf p.r.data)) ∧
    c.contains cfg k = .ok ((Spec.latest (c.abs cfg).history k).map (·.r.ts)) := by
  refine ⟨?_, ?_⟩
  · rw [read_eq hcfg hinv k, read_eq_spec hinv.wf k, ReadResult.map_map]
  · rw [contains_eq hcfg hinv k, contains_eq_spec hinv.wf k]

/-- **`end_to_end_read`**: for every history of concrete operations from the empty storage and every key, the
    concrete read — active blob, then `iter_possible_childs_rev` over the container with filter pruning at group
    and blob level, per blob `check_filter` and the index look-up (vector or file image), `ReadResult::latest`
    across blobs, then `Entry::load` of the winner with header and data checksum validation — returns without
    error `Found bytes` with the bytes of the first-ranked record of the key, `Deleted ts`, or `NotFound`,
    exactly as `Spec.latest` of the history says. -/
theorem end_to_end_read {cfg : Cfg} (hcfg : cfg.OK) (ops : List COp) (hops : ∀ op ∈ ops, op.OK cfg)
    (hsz : StoreSized cfg.klen ((Store.init cfg.allowDup).run (ops.map COp.abs))) (k : Key) :
    ((CState.init cfg).run cfg ops).read cfg k =
      .ok ((Spec.latest ((Store.init cfg.allowDup).run (ops.map COp.abs)).history k).map
        (fun p => dataOf p.r.data)) := by
  obtain ⟨habs, hinv⟩ := run_ref hcfg ops hops hsz
  rw [(read_of_inv hcfg _ hinv k).1, habs]

/-- **`end_to_end_contains`** -/
theorem end_to_end_contains {cfg : Cfg} (hcfg : cfg.OK) (ops : List COp) (hops : ∀ op ∈ ops, op.OK cfg)
    (hsz : StoreSized cfg.klen ((Store.init cfg.allowDup).run (ops.map COp.abs))) (k : Key) :
    ((CState.init cfg).run cfg ops).contains cfg k =
      .ok ((Spec.latest ((Store.init cfg.allowDup).run (ops.map COp.abs)).history k).map (·.r.ts)) := by
  obtain ⟨habs, hinv⟩ := run_ref hcfg ops hops hsz
  rw [(read_of_inv hcfg _ hinv k).2, habs]

/-- the record served is a record of the history: the answers classify exactly -/
theorem end_to_end_read_cases {cfg : Cfg} (hcfg : cfg.OK) (ops : List COp) (hops : ∀ op ∈ ops, op.OK cfg)
    (hsz : StoreSized cfg.klen ((Store.init cfg.allowDup).run (ops.map COp.abs))) (k : Key) :
    let h := ((Store.init cfg.allowDup).run (ops.map COp.abs)).history
    (∀ p, Spec.latest h k = .found p → ((CState.init cfg).run cfg ops).read cfg k = .ok (.found (dataOf p.r.data))) ∧
    (∀ ts, Spec.latest h k = .deleted ts → ((CState.init cfg).run cfg ops).read cfg k = .ok (.deleted ts)) ∧
    (Spec.latest h k = .notFound → ((CState.init cfg).run cfg ops).read cfg k = .ok .notFound) := by
  intro h
  have := end_to_end_read hcfg ops hops hsz k
  refine ⟨fun p hp => ?_, fun ts hp => ?_, fun hp => ?_⟩ <;> rw [this, hp] <;> rfl

/-! ## (4) restart without index files -/

/-- in any state satisfying the invariant, close + init *without index files* (scan of the blob bytes,
    regeneration of indexes and filters, dump, rebuilt container) changes no answer -/
theorem restart_of_inv {cfg : Cfg} (hcfg : cfg.OK) (c : CState) (hinv : CInv cfg c) (lazy : Bool) (k : Key) :
    (c.restart cfg lazy).read cfg k = c.read cfg k ∧ (c.restart cfg lazy).contains cfg k = c.contains cfg k ∧
      CInv cfg (c.restart cfg lazy) := by
  obtain ⟨habs, hinv'⟩ := restart_ref hcfg hinv lazy
  have hstep : c.step cfg (.restart lazy) = c.restart cfg lazy := rfl
  have happly : (c.abs cfg).apply (Op.restart lazy) = (c.abs cfg).restart lazy := rfl
  rw [hstep, happly] at habs
  rw [hstep] at hinv'
  have hans := restart_answers hinv.wf lazy k
  refine ⟨?_, ?_, hinv'⟩
  · rw [read_eq hcfg hinv' k, read_eq hcfg hinv k, habs, hans.1]
  · rw [contains_eq hcfg hinv' k, contains_eq hcfg hinv k, habs, hans.2.2.1]

/-- **`end_to_end_restart`**: after every history, reads after a restart without index files equal reads
    before it -/
theorem end_to_end_restart {cfg : Cfg} (hcfg : cfg.OK) (ops : List COp) (hops : ∀ op ∈ ops, op.OK cfg)
    (hsz : StoreSized cfg.klen ((Store.init cfg.allowDup).run (ops.map COp.abs))) (lazy : Bool) (k : Key) :
    (((CState.init cfg).run cfg ops).restart cfg lazy).read cfg k = ((CState.init cfg).run cfg ops).read cfg k ∧
    (((CState.init cfg).run cfg ops).restart cfg lazy).contains cfg k
      = ((CState.init cfg).run cfg ops).contains cfg k := by
  obtain ⟨_, hinv⟩ := run_ref hcfg ops hops hsz
  exact ⟨(restart_of_inv hcfg _ hinv lazy k).1, (restart_of_inv hcfg _ hinv lazy k).2.1⟩

/-- the scan rebuilds exactly the index and the filter (not merely equivalent ones): the restarted blobs are the
    old blobs with their index back in memory -/
theorem restart_regenerates {cfg : Cfg} (c : CState) (hinv : CInv cfg c) (b : CBlob) (hb : b ∈ c.blobs) :
    regen cfg b = some { b with index := .mem (indexOf (blobHeaders cfg.klen (b.ghost.map (fun r => (r, dataOf r.data))))) } :=
  regen_eq (CInvG.blobInv hinv hb)

/-! ## non-vacuity -/

namespace Demo

/-- key length 1, groups of 2, a 100-bit bloom filter with two hashers, duplicates allowed (for the tie) -/
def cfg : Cfg :=
  { klen := 1, group := 2, bloom := some (⟨10, 2, 100, 1, 0⟩, 100), h := fun j k => 7 * k + 13 * j,
    allowDup := true }

theorem cfg_ok : cfg.OK :=
  ⟨by decide, by decide, fun p hp => by cases hp; exact ⟨⟨by decide, by decide, by decide, by decide, by decide⟩, by decide⟩⟩

/-- two blobs; blob 0 is closed and dumped (index on disk); key 1 has a tie at timestamp 5 across the blobs;
    key 2 is deleted (a marker in the active blob, and one in the dumped blob 0, whose index is loaded for it) -/
def ops : List COp :=
  [.write 1 5 ⟨2, 1⟩, .write 2 6 ⟨1, 2⟩, .closeActive, .settle, .write 1 5 ⟨3, 3⟩, .delete 2 9 false]

def s : CState := (CState.init cfg).run cfg ops

theorem ops_ok : ∀ op ∈ ops, op.OK cfg := by decide

set_option maxRecDepth 100000 in
theorem ops_sized : StoreSized cfg.klen ((Store.init cfg.allowDup).run (ops.map COp.abs)) := by
  unfold StoreSized; decide

end Demo

-- the concrete read path, evaluated: the tie is won by the newer blob, key 2 is deleted, key 3 is absent
set_option maxRecDepth 1000000 in
example : Demo.s.read Demo.cfg 1 = .ok (.found [3, 107, 223]) ∧ dataOf ⟨3, 3⟩ = [3, 107, 223] ∧
    Demo.s.read Demo.cfg 2 = .ok (.deleted 9) ∧ Demo.s.read Demo.cfg 3 = .ok .notFound ∧
    Demo.s.contains Demo.cfg 1 = .ok (.found 5) := by decide

-- two blobs, the closed one with its index on disk until the delete loads it again
example : (Demo.s.abs Demo.cfg).blobs.map (fun b => (b.id, b.recs.length, b.onDisk)) = [(0, 3, false), (1, 2, false)] := by
  decide
example : (((CState.init Demo.cfg).run Demo.cfg (Demo.ops.take 5)).abs Demo.cfg).blobs.map (fun b => (b.id, b.onDisk))
    = [(0, true), (1, false)] := by decide

-- the theorems instantiated on it
example : Demo.s.read Demo.cfg 1 =
    .ok ((Spec.latest ((Store.init true).run (Demo.ops.map COp.abs)).history 1).map (fun p => dataOf p.r.data)) :=
  end_to_end_read Demo.cfg_ok Demo.ops Demo.ops_ok Demo.ops_sized 1

example : CInv Demo.cfg Demo.s := (refinement_run Demo.cfg_ok Demo.ops Demo.ops_ok Demo.ops_sized).2

-- restart without index files, evaluated and by the theorem
set_option maxRecDepth 1000000 in
example : (Demo.s.restart Demo.cfg false).read Demo.cfg 1 = .ok (.found [3, 107, 223]) ∧
    (Demo.s.restart Demo.cfg true).read Demo.cfg 2 = .ok (.deleted 9) ∧
    ((Demo.s.restart Demo.cfg false).abs Demo.cfg).blobs.map (fun b => (b.id, b.onDisk)) = [(0, true), (1, false)] := by
  decide

example (k : Key) : (Demo.s.restart Demo.cfg true).read Demo.cfg k = Demo.s.read Demo.cfg k :=
  (end_to_end_restart Demo.cfg_ok Demo.ops Demo.ops_ok Demo.ops_sized true k).1

-- pruning happens: key 1 lives in both blobs, key 2's records too, but for key 40 neither blob is consulted
-- beyond its filter
set_option maxRecDepth 1000000 in
example : (Demo.s.consulted Demo.cfg 1).map (·.id) = [1, 0] ∧
    ((Demo.s.consulted Demo.cfg 40).filter (fun b => b.checkFilter Demo.cfg 40 != .notContains)).map (·.id) = [] := by
  decide

set_option maxRecDepth 1000000 in
/-- the key range hypothesis `COp.OK` is needed: a key that does not fit `K::LEN` bytes is stored under its
    low-order bytes; the scan at restart files the record under that other key -/
theorem key_range_needed :
    let c := (CState.init Demo.cfg).run Demo.cfg [.write 257 5 ⟨1, 1⟩, .restart false]
    c.read Demo.cfg 1 = .ok (.found (dataOf ⟨1, 1⟩)) ∧
    Spec.latest ((Store.init true).run [.write 257 5 none ⟨1, 1⟩, .restart false]).history 1 = .notFound := by
  refine ⟨?_, ?_⟩
  · decide
  · rw [show Spec.latest ((Store.init true).run [.write 257 5 none ⟨1, 1⟩, .restart false]).history 1 = .notFound ↔
        ((Store.init true).run [.write 257 5 none ⟨1, 1⟩, .restart false]).read 1 none = .notFound from by
      rw [run_read_eq_spec true _ 1]
      cases Spec.latest ((Store.init true).run [.write 257 5 none ⟨1, 1⟩, .restart false]).history 1 <;>
        simp [ReadResult.map]]
    decide

end Pearl.E2E

#print axioms Pearl.E2E.invariant_blob
#print axioms Pearl.E2E.invariant_container
#print axioms Pearl.E2E.invariant_init
#print axioms Pearl.E2E.refinement
#print axioms Pearl.E2E.refinement_abs
#print axioms Pearl.E2E.refinement_delete_count
#print axioms Pearl.E2E.refinement_run
#print axioms Pearl.E2E.storeSized_iff
#print axioms Pearl.E2E.close_and_dump
#print axioms Pearl.E2E.closed_blob_never_pruned
#print axioms Pearl.E2E.ghost_not_read
#print axioms Pearl.E2E.ghost_not_read_by_ops
#print axioms Pearl.E2E.read_of_inv
#print axioms Pearl.E2E.end_to_end_read
#print axioms Pearl.E2E.end_to_end_contains
#print axioms Pearl.E2E.end_to_end_read_cases
#print axioms Pearl.E2E.restart_of_inv
#print axioms Pearl.E2E.end_to_end_restart
#print axioms Pearl.E2E.restart_regenerates
#print axioms Pearl.E2E.key_range_needed

/-! # Extension: metadata, `read_all`, `delete(only_if_presented)`, the byte image of the index file

Model: `Pearl/Model/EndToEndMeta.lean` (new definitions only; nothing of `Pearl/Model/EndToEnd.lean` is changed).
Lemmas: `Pearl/Proofs/EndToEndMeta{Blob,Steps,L2,Run,ReadAll}.lean`, `Pearl/Proofs/EndToEndMetaBytes{Enc,Sim,Image,Cont,Blob,Store,Size}.lean`, `Pearl/Proofs/EndToEndMetaGhost.lean`.

Operations with metadata are `MOp` (`write k ts (m : Option Meta) d` = `write` / `write_with`, `delete k ts m oip` =
`delete` / `delete_with`, the lifecycle operations as before); `COp.toM` embeds the old operations and
`stepM_toM : c.stepM cfg op.toM = c.step cfg op`.

Additional side-condition on the inputs:
* `MOp.OK` also asks the meta value to be a byte string (`MetaOK`: every element `< 256`).  The L2 record keeps the
  meta as a list of naturals and compares those; the file keeps bytes and `filter_entries` compares the bytes.  It
  is needed: `meta_range_needed`.  The same condition is asked of the meta of a query.
-/
namespace Pearl.E2E
open Pearl Pearl.BPTree Pearl.Container

/-! ## (5) metadata: `write_with`, `delete_with`, `contains_with`, `read_with` -/

/-- every operation with metadata commutes with the abstraction function, keeps the invariant and the meta range
    invariant -/
theorem refinement_meta {cfg : Cfg} (hcfg : cfg.OK) (c : CState) (hinv : CInv cfg c)
    (hmeta : StoreMetaOK (c.abs cfg)) (op : MOp) (hop : op.OK cfg)
    (hsz : StoreSized cfg.klen ((c.abs cfg).apply op.abs)) :
    (c.stepM cfg op).abs cfg = (c.abs cfg).apply op.abs ∧ CInv cfg (c.stepM cfg op) ∧
      StoreMetaOK ((c.stepM cfg op).abs cfg) := by
  obtain ⟨h1, h2⟩ := stepM_ref hcfg hinv hmeta op hop hsz
  exact ⟨h1, h2, by rw [h1]; exact stepM_metaOK hinv.wf hmeta op hop⟩

/-- along every history from the empty storage -/
theorem refinement_meta_run {cfg : Cfg} (hcfg : cfg.OK) (ops : List MOp) (hops : ∀ op ∈ ops, op.OK cfg)
    (hsz : StoreSized cfg.klen ((Store.init cfg.allowDup).run (ops.map MOp.abs))) :
    ((CState.init cfg).runM cfg ops).abs cfg = (Store.init cfg.allowDup).run (ops.map MOp.abs) ∧
      CInv cfg ((CState.init cfg).runM cfg ops) ∧ StoreMetaOK (((CState.init cfg).runM cfg ops).abs cfg) :=
  runM_ref hcfg ops hops hsz

/-- the operations of the first part are the operations without metadata -/
theorem meta_ops_extend (cfg : Cfg) (c : CState) (op : COp) (ops : List COp) :
    c.stepM cfg op.toM = c.step cfg op ∧ c.runM cfg (ops.map COp.toM) = c.run cfg ops ∧
    op.toM.abs = op.abs ∧ (op.OK cfg → op.toM.OK cfg) :=
  ⟨stepM_toM cfg c op, runM_toM cfg ops c, toM_abs op, toM_OK⟩

/-- in any state satisfying the invariants: `read_with(meta)` and `contains_with(meta)` do not fail and return the
    L2 answer, which is the answer of the specification (C02 `readWith_eq_spec`) -/
theorem read_with_of_inv {cfg : Cfg} (hcfg : cfg.OK) (c : CState) (hinv : CInv cfg c)
    (hmeta : StoreMetaOK (c.abs cfg)) (k : Key) (m : Meta) (hm : MetaOK m) :
    c.readWith cfg k m = .ok (((c.abs cfg).read k (some m)).map (fun r => dataOf r.data)) ∧
    c.readWith cfg k m = .ok ((Spec.readWith (c.abs cfg).history k m).map (fun p => dataOf p.r.data)) ∧
    c.containsWith cfg k (some m) = .ok ((Spec.readWith (c.abs cfg).history k m).map (·.r.ts)) := by
  have hm' : ∀ x, some m = some x → MetaOK x := by intro x hx; cases hx; exact hm
  have h1 := readWithOpt_eq hcfg hinv hmeta k (some m) hm'
  have h2 := containsWith_eq hcfg hinv hmeta k (some m) hm'
  have hs : (c.abs cfg).getLatestEntry k (some m) = (Spec.readWith (c.abs cfg).history k m).map (·.r) :=
    readWith_eq_spec hinv.wf k m
  refine ⟨h1, ?_, ?_⟩
  · show c.readWithOpt cfg k (some m) = _
    rw [h1]
    show Except.ok (((c.abs cfg).getLatestEntry k (some m)).map _) = _
    rw [hs, ReadResult.map_map]
  · rw [h2, hs, ReadResult.map_map]

/-- **`end_to_end_read_with`**: for every history of concrete operations with metadata from the empty storage,
    every key and every meta, the concrete `read_with(meta)` — active blob, then `iter_possible_childs_rev` with
    filter pruning, per blob `check_filter`, `get_all_with_deletion_marker` through the vector or the index file,
    the local marker split off, `load_meta` of every candidate from the blob bytes newest first, the answers merged
    by `ReadResult::latest`, then `Entry::load` of the winner — returns without error the bytes of the record
    `Store.read k (some m)` selects, which is `Spec.readWith` of the history -/
theorem end_to_end_read_with {cfg : Cfg} (hcfg : cfg.OK) (ops : List MOp) (hops : ∀ op ∈ ops, op.OK cfg)
    (hsz : StoreSized cfg.klen ((Store.init cfg.allowDup).run (ops.map MOp.abs))) (k : Key) (m : Meta)
    (hm : MetaOK m) :
    ((CState.init cfg).runM cfg ops).readWith cfg k m =
      .ok ((((Store.init cfg.allowDup).run (ops.map MOp.abs)).read k (some m)).map (fun r => dataOf r.data)) ∧
    ((CState.init cfg).runM cfg ops).readWith cfg k m =
      .ok ((Spec.readWith ((Store.init cfg.allowDup).run (ops.map MOp.abs)).history k m).map
        (fun p => dataOf p.r.data)) := by
  obtain ⟨habs, hinv, hmeta⟩ := runM_ref hcfg ops hops hsz
  have := read_with_of_inv hcfg _ hinv hmeta k m hm
  rw [habs] at this
  exact ⟨this.1, this.2.1⟩

/-- **`end_to_end_contains_with`** (the duplicate check of `write_with`) -/
theorem end_to_end_contains_with {cfg : Cfg} (hcfg : cfg.OK) (ops : List MOp) (hops : ∀ op ∈ ops, op.OK cfg)
    (hsz : StoreSized cfg.klen ((Store.init cfg.allowDup).run (ops.map MOp.abs))) (k : Key) (m : Meta)
    (hm : MetaOK m) :
    ((CState.init cfg).runM cfg ops).containsWith cfg k (some m) =
      .ok ((Spec.readWith ((Store.init cfg.allowDup).run (ops.map MOp.abs)).history k m).map (·.r.ts)) := by
  obtain ⟨habs, hinv, hmeta⟩ := runM_ref hcfg ops hops hsz
  have := read_with_of_inv hcfg _ hinv hmeta k m hm
  rw [habs] at this
  exact this.2.2

/-- `read` and `contains` (no meta) after a history WITH metadata: `end_to_end_read` / `end_to_end_contains` on the
    larger set of histories -/
theorem end_to_end_read_meta_history {cfg : Cfg} (hcfg : cfg.OK) (ops : List MOp) (hops : ∀ op ∈ ops, op.OK cfg)
    (hsz : StoreSized cfg.klen ((Store.init cfg.allowDup).run (ops.map MOp.abs))) (k : Key) :
    ((CState.init cfg).runM cfg ops).read cfg k =
      .ok ((Spec.latest ((Store.init cfg.allowDup).run (ops.map MOp.abs)).history k).map
        (fun p => dataOf p.r.data)) ∧
    ((CState.init cfg).runM cfg ops).contains cfg k =
      .ok ((Spec.latest ((Store.init cfg.allowDup).run (ops.map MOp.abs)).history k).map (·.r.ts)) := by
  obtain ⟨habs, hinv, _⟩ := runM_ref hcfg ops hops hsz
  have := read_of_inv hcfg _ hinv k
  rw [habs] at this
  exact this

/-- the duplicate check of `write_with` when duplicates are not allowed: if the specification finds a record with
    this key and this meta (`Spec.readWith … = Found`), the write appends nothing -/
theorem write_with_dedup {cfg : Cfg} (hcfg : cfg.OK) (c : CState) (hinv : CInv cfg c)
    (hmeta : StoreMetaOK (c.abs cfg)) (k : Key) (ts : Nat) (m : Meta) (d : Data)
    (hk : k < 256 ^ cfg.klen) (hts : ts < 2 ^ 64) (hm : MetaOK m) (hd : cfg.allowDup = false)
    (hf : (Spec.readWith (c.abs cfg).ensureActive.history k m).isFound = true) :
    (c.writeWithOpt cfg k ts (some m) d).abs cfg = (c.abs cfg).ensureActive := by
  have hm' : ∀ x, some m = some x → MetaOK x := by intro x hx; cases hx; exact hm
  rw [(writeWithOpt_ref0 hcfg hinv hmeta k ts (some m) d hk hts hm').1]
  apply dedup_write (c.abs cfg) k ts (some m) d hd
  have := readWith_eq_spec (Store.ensureActive_WF hinv.wf) k m
  unfold Store.read at this
  rw [this, ReadResult.isFound_map]
  exact hf

/-- the history variable is not read by the operations and read paths with metadata either: for ANY state -/
theorem ghost_not_read_meta (cfg : Cfg) (c : CState) (op : MOp) (k : Key) (m : Option Meta) :
    (c.stepM cfg op).eraseGhost = (c.eraseGhost.stepM cfg op).eraseGhost ∧
    c.eraseGhost.readWithOpt cfg k m = c.readWithOpt cfg k m ∧
    c.eraseGhost.containsWith cfg k m = c.containsWith cfg k m ∧
    c.eraseGhost.readAllMarked cfg k = c.readAllMarked cfg k ∧ c.eraseGhost.readAll cfg k = c.readAll cfg k :=
  ⟨stepM_eraseGhost cfg c op, (readWithOpt_ghost_irrelevant cfg c k m).1, (readWithOpt_ghost_irrelevant cfg c k m).2,
    (readAll_ghost_irrelevant cfg c k).1, (readAll_ghost_irrelevant cfg c k).2⟩

/-! ## (6) `read_all_with_deletion_marker`, `read_all` -/

/-- in any state satisfying the invariant, `read_all_with_deletion_marker` and `read_all` do not fail, and the
    entries they return are — one by one, in order — entries of the records of `Spec.allCut` / `Spec.allLive`
    (C02 `readAllMarked_eq_spec`, `readAll_eq_spec`): same key, timestamp and marker flag, and `Entry::load` (with
    its header and data checksum validation) returns the serialized meta and the bytes of the value.
    `entryView e = (key, timestamp, is_deleted, Entry::load)`, `recView r` the same of a record. -/
theorem read_all_of_inv {cfg : Cfg} (hcfg : cfg.OK) (c : CState) (hinv : CInv cfg c) (k : Key) :
    (∃ es, c.readAllMarked cfg k = .ok es ∧
      es.map entryView = (Spec.allCut (c.abs cfg).history k).map (fun p => recView p.r)) ∧
    (∃ es, c.readAll cfg k = .ok es ∧
      es.map entryView = (Spec.allLive (c.abs cfg).history k).map (fun p => recView p.r)) := by
  constructor
  · obtain ⟨Z, h1, h2, h3⟩ := readAllMarked_rr hcfg hinv k
    refine ⟨_, h1, ?_⟩
    rw [views_eq Z h3, ← h2, readAllMarked_eq_spec hinv.wf k, List.map_map]
    rfl
  · obtain ⟨Z, h1, h2, h3⟩ := readAll_rr hcfg hinv k
    refine ⟨_, h1, ?_⟩
    rw [views_eq Z h3, ← h2, readAll_eq_spec hinv.wf k, List.map_map]
    rfl

/-- **`end_to_end_read_all`**: for every history (with or without metadata) from the empty storage and every key,
    the concrete `read_all_with_deletion_marker` — per blob `get_all_with_deletion_marker` through the vector or
    the index file, over the active blob and the children `iter_possible_childs_rev` yields, the cross-blob stable
    sort by timestamp, the global cut after the first marker — and `read_all` return without error entries whose
    loaded records are exactly `Spec.allCut` / `Spec.allLive` of the history, in rank order -/
theorem end_to_end_read_all {cfg : Cfg} (hcfg : cfg.OK) (ops : List MOp) (hops : ∀ op ∈ ops, op.OK cfg)
    (hsz : StoreSized cfg.klen ((Store.init cfg.allowDup).run (ops.map MOp.abs))) (k : Key) :
    let c := (CState.init cfg).runM cfg ops
    let h := ((Store.init cfg.allowDup).run (ops.map MOp.abs)).history
    (∃ es, c.readAllMarked cfg k = .ok es ∧ es.map entryView = (Spec.allCut h k).map (fun p => recView p.r)) ∧
    (∃ es, c.readAll cfg k = .ok es ∧ es.map entryView = (Spec.allLive h k).map (fun p => recView p.r)) := by
  intro c h
  obtain ⟨habs, hinv, _⟩ := runM_ref hcfg ops hops hsz
  have := read_all_of_inv hcfg c hinv k
  rw [habs] at this
  exact this

/-- the same for the histories without metadata of the first part -/
theorem end_to_end_read_all_plain {cfg : Cfg} (hcfg : cfg.OK) (ops : List COp) (hops : ∀ op ∈ ops, op.OK cfg)
    (hsz : StoreSized cfg.klen ((Store.init cfg.allowDup).run (ops.map COp.abs))) (k : Key) :
    let c := (CState.init cfg).run cfg ops
    let h := ((Store.init cfg.allowDup).run (ops.map COp.abs)).history
    (∃ es, c.readAllMarked cfg k = .ok es ∧ es.map entryView = (Spec.allCut h k).map (fun p => recView p.r)) ∧
    (∃ es, c.readAll cfg k = .ok es ∧ es.map entryView = (Spec.allLive h k).map (fun p => recView p.r)) := by
  intro c h
  obtain ⟨habs, hinv⟩ := run_ref hcfg ops hops hsz
  have := read_all_of_inv hcfg c hinv k
  rw [habs] at this
  exact this

/-! ## (7) `delete` with `only_if_presented` -/

/-- **`end_to_end_delete`**: `delete` / `delete_with`, in particular with `only_if_presented = true`, where every
    blob decides through its concrete index (vector, or the index file image) whether the key is live in it:
    the decision is `Spec.liveIn` of the blob's records, the state afterwards is the L2 state, and the number
    returned is the number the L2 operation returns — and what the L2 operation does is C02 `delete_spec` -/
theorem delete_of_inv {cfg : Cfg} (hcfg : cfg.OK) (c : CState) (hinv : CInv cfg c) (k : Key) (ts : Nat)
    (m : Option Meta) (oip : Bool) (hk : k < 256 ^ cfg.klen) (hts : ts < 2 ^ 64) :
    (c.deleteWithOpt cfg k ts m oip).1.abs cfg = ((c.abs cfg).delete k ts m oip).1 ∧
    (c.deleteWithOpt cfg k ts m oip).2 = ((c.abs cfg).delete k ts m oip).2 ∧
    (∀ b ∈ c.blobs, (b.deleteM cfg k ts m true).2 = Spec.liveIn b.id b.ghost k) :=
  ⟨(deleteWithOpt_ref0 hcfg hinv k ts m oip hk hts).1, deleteWithOpt_count hcfg hinv k ts m oip hk hts,
    fun _ hb => deleteM_live hcfg (CInvG.blobInv hinv hb) k ts m⟩

theorem end_to_end_delete {cfg : Cfg} (hcfg : cfg.OK) (ops : List MOp) (hops : ∀ op ∈ ops, op.OK cfg)
    (hsz : StoreSized cfg.klen ((Store.init cfg.allowDup).run (ops.map MOp.abs))) (k : Key) (ts : Nat)
    (m : Option Meta) (oip : Bool) (hk : k < 256 ^ cfg.klen) (hts : ts < 2 ^ 64) :
    let c := (CState.init cfg).runM cfg ops
    let s := (Store.init cfg.allowDup).run (ops.map MOp.abs)
    (c.deleteWithOpt cfg k ts m oip).1.abs cfg = (s.delete k ts m oip).1 ∧
    (c.deleteWithOpt cfg k ts m oip).2 = (s.delete k ts m oip).2 ∧
    (∀ b ∈ c.blobs, (b.deleteM cfg k ts m true).2 = Spec.liveIn b.id b.ghost k) := by
  intro c s
  obtain ⟨habs, hinv, _⟩ := runM_ref hcfg ops hops hsz
  have := delete_of_inv hcfg c hinv k ts m oip hk hts
  rw [habs] at this
  exact this

/-! ## (8) the index file as its byte image

`BState` (`Pearl/Model/EndToEndMeta.lean`, second half) is the same storage with every dumped index held as the
byte string `indexFileBytes` of `Pearl/Model/BPTreeBytes.lean` (C09 `bytes_length`, C03b) and every access to it —
`from_file`, `get_latest`, `find_by_key`, `get_records_headers`, `read_meta`, `read_meta_at` — done on the bytes
(`BIdx`).  The byte-level look-up functions did not exist (only the image and the start-up validation of C03b were
modelled at byte level); they are transcribed in the model file and tied to the structured look-ups of L4 by a
simulation (`Pearl/Proofs/EndToEndMetaBytes{Enc,Sim,Image,Cont,Blob,Store}.lean`): on the image of a file `build`
produces, whenever the structured look-up returns normally — and by C09 it always does — the byte-level look-up
returns the same.  The record headers in the index file are the L5 serialisation (`rawBytes_eq_serHeader`), read back
by the L5 deserializer.

Additional side-conditions (`BytesOK`, `IdxSized`):
* the hash function has 32-byte values (SHA-256 itself is not modelled: the hash check of `get_records_headers`
  is the one step that is not performed at byte level; every other check of `validate_header` is);
* every index file on disk, in every state passed through, is shorter than `2^64` bytes (its header fields and the
  offsets in its nodes are `u64`; a longer file has no byte image) — `IdxSized`; it follows from a bound on the blobs
  of the final L2 state, `StoreIdxSized` (`idx_sized_of_inputs`, `end_to_end_read_bytes_inputs`;
  `Pearl/Proofs/EndToEndMetaBytesSize.lean`).
-/

/-- the four accesses to an on-disk index, through the byte image and through the structured file -/
theorem index_bytes_lookups {cfg : Cfg} {sha : List Nat → List Nat} (hB : BytesOK cfg sha) (c : CState)
    (hinv : CInv cfg c) (hs : c.IdxSized) (b : CBlob) (hb : b ∈ c.blobs) (k : Key) :
    (b.toB sha).index.getLatest cfg.klen k = b.index.getLatest k ∧
    (b.toB sha).index.getAllMarked cfg.klen k = b.index.getAllMarked k ∧
    (b.toB sha).checkFilter cfg k = b.checkFilter cfg k ∧
    (b.toB sha).loadIndex cfg = (b.loadIndex cfg).toB sha :=
  ⟨index_getLatest_toB hB (CInvG.blobInv hinv hb) (hs b hb) k,
    index_getAllMarked_toB hB (CInvG.blobInv hinv hb) (hs b hb) k,
    checkFilter_toB hB (CInvG.blobInv hinv hb) (hs b hb) k,
    loadIndex_toB hB (CInvG.blobInv hinv hb) (hs b hb)⟩

/-- in any state satisfying the invariant: every read through the byte images gives the answer of the structured
    storage, and every operation commutes with the translation -/
theorem bytes_of_inv {cfg : Cfg} {sha : List Nat → List Nat} (hB : BytesOK cfg sha) (c : CState)
    (hinv : CInv cfg c) (hs : c.IdxSized) :
    (∀ k m, (c.toB sha).readWithOpt cfg k m = c.readWithOpt cfg k m) ∧
    (∀ k m, (c.toB sha).containsWith cfg k m = c.containsWith cfg k m) ∧
    (∀ k, (c.toB sha).readAllMarked cfg k = c.readAllMarked cfg k) ∧
    (∀ k, (c.toB sha).readAll cfg k = c.readAll cfg k) ∧
    (∀ op, (c.stepM cfg op).toB sha = (c.toB sha).stepB cfg sha op) ∧
    (∀ k ts m oip, (c.deleteWithOpt cfg k ts m oip).2 = ((c.toB sha).deleteWithOpt cfg k ts m oip).2) :=
  ⟨fun k m => readWithOpt_toB hB hinv hs k m, fun k m => containsWith_toB hB hinv hs k m,
    fun k => readAllMarked_toB hB hinv hs k, fun k => readAll_toB hB hinv hs k,
    fun op => stepM_toB hB hinv hs op, fun k ts m oip => (deleteWithOpt_toB hB hinv hs k ts m oip).2⟩

/-- the byte-level storage run from the empty directory is the translation of the structured one -/
theorem refinement_bytes_run {cfg : Cfg} {sha : List Nat → List Nat} (hB : BytesOK cfg sha) (ops : List MOp)
    (hops : ∀ op ∈ ops, op.OK cfg)
    (hsz : StoreSized cfg.klen ((Store.init cfg.allowDup).run (ops.map MOp.abs)))
    (hidx : ∀ n, n ≤ ops.length → ((CState.init cfg).runM cfg (ops.take n)).IdxSized) :
    (BState.init cfg).runB cfg sha ops = ((CState.init cfg).runM cfg ops).toB sha :=
  runB_eq hB ops hops hsz hidx

/-- **`end_to_end_read_bytes`**: with every dumped index held as its byte image and looked up through the
    byte-level functions — for every history of operations (with metadata) from the empty directory — the answers
    of `read`, `contains`, `read_with`, `contains_with`, `read_all_with_deletion_marker` and `read_all` are those of
    the structured storage, hence those of the specification -/
theorem end_to_end_read_bytes {cfg : Cfg} {sha : List Nat → List Nat} (hB : BytesOK cfg sha) (ops : List MOp)
    (hops : ∀ op ∈ ops, op.OK cfg)
    (hsz : StoreSized cfg.klen ((Store.init cfg.allowDup).run (ops.map MOp.abs)))
    (hidx : ∀ n, n ≤ ops.length → ((CState.init cfg).runM cfg (ops.take n)).IdxSized) (k : Key) :
    let b := (BState.init cfg).runB cfg sha ops
    let c := (CState.init cfg).runM cfg ops
    let h := ((Store.init cfg.allowDup).run (ops.map MOp.abs)).history
    -- unchanged
    (∀ m, b.readWithOpt cfg k m = c.readWithOpt cfg k m) ∧
    (∀ m, b.containsWith cfg k m = c.containsWith cfg k m) ∧
    b.readAllMarked cfg k = c.readAllMarked cfg k ∧ b.readAll cfg k = c.readAll cfg k ∧
    -- and equal to the specification
    b.readWithOpt cfg k none = .ok ((Spec.latest h k).map (fun p => dataOf p.r.data)) ∧
    b.containsWith cfg k none = .ok ((Spec.latest h k).map (·.r.ts)) ∧
    (∀ m, MetaOK m →
      b.readWithOpt cfg k (some m) = .ok ((Spec.readWith h k m).map (fun p => dataOf p.r.data)) ∧
      b.containsWith cfg k (some m) = .ok ((Spec.readWith h k m).map (·.r.ts))) ∧
    (∃ es, b.readAllMarked cfg k = .ok es ∧ es.map entryView = (Spec.allCut h k).map (fun p => recView p.r)) ∧
    (∃ es, b.readAll cfg k = .ok es ∧ es.map entryView = (Spec.allLive h k).map (fun p => recView p.r)) := by
  intro b c h
  have hb : b = c.toB sha := runB_eq hB ops hops hsz hidx
  obtain ⟨habs, hinv, hmeta⟩ := runM_ref hB.ok ops hops hsz
  have hs : c.IdxSized := by
    have := hidx ops.length (Nat.le_refl _)
    rwa [List.take_length] at this
  obtain ⟨e1, e2, e3, e4, _, _⟩ := bytes_of_inv hB c hinv hs
  have hr := read_of_inv hB.ok c hinv k
  have hall := read_all_of_inv hB.ok c hinv k
  rw [habs] at hr hall
  refine ⟨fun m => by rw [hb]; exact e1 k m, fun m => by rw [hb]; exact e2 k m, by rw [hb]; exact e3 k,
    by rw [hb]; exact e4 k, ?_, ?_, ?_, ?_, ?_⟩
  · rw [hb, e1]; exact hr.1
  · rw [hb, e2]; exact hr.2
  · intro m hm
    have := read_with_of_inv hB.ok c hinv hmeta k m hm
    rw [habs] at this
    exact ⟨by rw [hb, e1]; exact this.2.1, by rw [hb, e2]; exact this.2.2⟩
  · rw [hb, e3]; exact hall.1
  · rw [hb, e4]; exact hall.2

/-- the size side-condition on every state passed through follows from a bound on the blobs of the FINAL L2
    state: an index file is at most three times as long as its blob file, plus the filter section (whose length
    `filterLen cfg = 2 K + 81 + 8 ⌈bits / 64⌉` is fixed by the configuration), plus a constant -/
theorem idx_sized_of_inputs {cfg : Cfg} (hcfg : cfg.OK) (ops : List MOp) (hops : ∀ op ∈ ops, op.OK cfg)
    (h : StoreIdxSized cfg ((Store.init cfg.allowDup).run (ops.map MOp.abs))) :
    StoreSized cfg.klen ((Store.init cfg.allowDup).run (ops.map MOp.abs)) ∧
    ∀ n, n ≤ ops.length → ((CState.init cfg).runM cfg (ops.take n)).IdxSized :=
  ⟨h.toStoreSized, idxSized_of_final hcfg ops hops h⟩

/-- `StoreIdxSized` in arithmetic form: per blob of the L2 state,
    `3 · (20 + Σ (57 + K::LEN + |meta| + data length)) + filterLen cfg + 4200 < 2^64` -/
theorem storeIdxSized_iff (cfg : Cfg) (s : Store) :
    StoreIdxSized cfg s ↔ ∀ b ∈ s.blobs, 3 * Fs.contentLen cfg.klen b.recs + filterLen cfg + 4200 < 2 ^ 64 := by
  have h : ∀ b : Blob, (blobBytes cfg.klen (full b.recs)).length = Fs.contentLen cfg.klen b.recs :=
    fun b => Fs.content_length cfg.klen b
  unfold StoreIdxSized
  constructor
  · intro hs b hb; rw [← h]; exact hs b hb
  · intro hs b hb; rw [h]; exact hs b hb

/-- **`end_to_end_read_bytes`, all side-conditions on the inputs**: the configuration (`cfg.OK`), a 32-byte hash,
    the operations (`MOp.OK`), and the size bound `StoreIdxSized` on the final L2 state -/
theorem end_to_end_read_bytes_inputs {cfg : Cfg} {sha : List Nat → List Nat} (hB : BytesOK cfg sha) (ops : List MOp)
    (hops : ∀ op ∈ ops, op.OK cfg)
    (hsz : StoreIdxSized cfg ((Store.init cfg.allowDup).run (ops.map MOp.abs))) (k : Key) :
    let b := (BState.init cfg).runB cfg sha ops
    let c := (CState.init cfg).runM cfg ops
    let h := ((Store.init cfg.allowDup).run (ops.map MOp.abs)).history
    (∀ m, b.readWithOpt cfg k m = c.readWithOpt cfg k m) ∧
    (∀ m, b.containsWith cfg k m = c.containsWith cfg k m) ∧
    b.readAllMarked cfg k = c.readAllMarked cfg k ∧ b.readAll cfg k = c.readAll cfg k ∧
    b.readWithOpt cfg k none = .ok ((Spec.latest h k).map (fun p => dataOf p.r.data)) ∧
    b.containsWith cfg k none = .ok ((Spec.latest h k).map (·.r.ts)) ∧
    (∀ m, MetaOK m →
      b.readWithOpt cfg k (some m) = .ok ((Spec.readWith h k m).map (fun p => dataOf p.r.data)) ∧
      b.containsWith cfg k (some m) = .ok ((Spec.readWith h k m).map (·.r.ts))) ∧
    (∃ es, b.readAllMarked cfg k = .ok es ∧ es.map entryView = (Spec.allCut h k).map (fun p => recView p.r)) ∧
    (∃ es, b.readAll cfg k = .ok es ∧ es.map entryView = (Spec.allLive h k).map (fun p => recView p.r)) :=
  end_to_end_read_bytes hB ops hops hsz.toStoreSized (idxSized_of_final hB.ok ops hops hsz) k

/-! ## non-vacuity (metadata, delete) -/

namespace DemoM

/-- two blobs; blob 0 (three records: key 1 with meta `{"m": [7]}`, key 1 without meta and newer, key 2 with meta
    `{"m": [9]}`) is closed and dumped; then key 1 is written once more with meta `{"m": [8]}`; finally
    `delete_with(2, meta {"m": [1]}, only_if_presented)` marks blob 0 (through its index file) and not blob 1 -/
def ops : List MOp :=
  [.write 1 5 (some (some [7])) ⟨2, 1⟩, .write 1 6 none ⟨1, 2⟩, .write 2 4 (some (some [9])) ⟨1, 5⟩,
   .closeActive, .settle, .write 1 7 (some (some [8])) ⟨3, 3⟩, .delete 2 9 (some (some [1])) true]

/-- before the delete: blob 0 has its index on disk -/
def s6 : CState := (CState.init Demo.cfg).runM Demo.cfg (ops.take 6)
def s : CState := (CState.init Demo.cfg).runM Demo.cfg ops

theorem ops_ok : ∀ op ∈ ops, op.OK Demo.cfg := by decide

set_option maxRecDepth 100000 in
theorem ops_sized : StoreSized Demo.cfg.klen ((Store.init Demo.cfg.allowDup).run (ops.map MOp.abs)) := by
  unfold StoreSized; decide

theorem ops6_ok : ∀ op ∈ ops.take 6, op.OK Demo.cfg := by decide

set_option maxRecDepth 100000 in
theorem ops6_sized : StoreSized Demo.cfg.klen ((Store.init Demo.cfg.allowDup).run ((ops.take 6).map MOp.abs)) := by
  unfold StoreSized; decide

end DemoM

example : (DemoM.s6.abs Demo.cfg).blobs.map (fun b => (b.id, b.recs.length, b.onDisk)) = [(0, 3, true), (1, 1, false)] ∧
    (DemoM.s.abs Demo.cfg).blobs.map (fun b => (b.id, b.recs.length, b.onDisk)) = [(0, 4, false), (1, 1, false)] := by
  decide

-- `read_with`, evaluated: the older record of key 1 is found below a newer one with another meta, through the index
-- file of the dumped blob and `load_meta` on the blob bytes; the empty meta selects the record written by `write`;
-- key 2 is found before the delete and `Deleted` after it; key 3 is absent
set_option maxRecDepth 1000000 in
example : DemoM.s6.readWith Demo.cfg 1 (some [7]) = .ok (.found [1, 47]) ∧ dataOf ⟨2, 1⟩ = [1, 47] ∧
    DemoM.s6.readWith Demo.cfg 1 none = .ok (.found [2]) ∧
    DemoM.s6.readWith Demo.cfg 1 (some [8]) = .ok (.found [3, 107, 223]) ∧
    DemoM.s6.readWith Demo.cfg 2 (some [9]) = .ok (.found [5]) ∧
    DemoM.s.readWith Demo.cfg 2 (some [9]) = .ok (.deleted 9) ∧
    DemoM.s.readWith Demo.cfg 3 none = .ok .notFound ∧
    DemoM.s6.containsWith Demo.cfg 1 (some (some [7])) = .ok (.found 5) := by decide

-- the theorems instantiated on it
example : DemoM.s6.readWith Demo.cfg 1 (some [7]) =
    .ok ((Spec.readWith ((Store.init true).run ((DemoM.ops.take 6).map MOp.abs)).history 1 (some [7])).map
      (fun p => dataOf p.r.data)) :=
  (end_to_end_read_with Demo.cfg_ok (DemoM.ops.take 6) DemoM.ops6_ok DemoM.ops6_sized 1 (some [7]) (by decide)).2

example (k : Key) (m : Meta) (hm : MetaOK m) : DemoM.s.readWith Demo.cfg k m =
    .ok ((Spec.readWith ((Store.init true).run (DemoM.ops.map MOp.abs)).history k m).map (fun p => dataOf p.r.data)) :=
  (end_to_end_read_with Demo.cfg_ok DemoM.ops DemoM.ops_ok DemoM.ops_sized k m hm).2

example : CInv Demo.cfg DemoM.s ∧ StoreMetaOK (DemoM.s.abs Demo.cfg) :=
  (refinement_meta_run Demo.cfg_ok DemoM.ops DemoM.ops_ok DemoM.ops_sized).2

-- `delete(only_if_presented)`, evaluated on the state before the delete: one blob is marked (blob 0, whose index is
-- on disk); and by the theorem
set_option maxRecDepth 1000000 in
example : (DemoM.s6.deleteWithOpt Demo.cfg 2 9 (some (some [1])) true).2 = 1 ∧
    (DemoM.s6.deleteWithOpt Demo.cfg 1 9 none true).2 = 2 ∧ (DemoM.s6.deleteWithOpt Demo.cfg 3 9 none true).2 = 0 := by
  decide

example : (DemoM.s6.deleteWithOpt Demo.cfg 2 9 (some (some [1])) true).2 =
    (((Store.init true).run ((DemoM.ops.take 6).map MOp.abs)).delete 2 9 (some (some [1])) true).2 :=
  (end_to_end_delete Demo.cfg_ok (DemoM.ops.take 6) DemoM.ops6_ok DemoM.ops6_sized 2 9 (some (some [1])) true
    (by decide) (by decide)).2.1

/-! ### non-vacuity (`read_all`) -/

namespace DemoRA

/-- blob 0 (dumped): key 1 at ts 5 with a meta and at ts 7; blob 1 (active): key 1 at ts 5 again (a cross-blob
    tie), then a marker at ts 6 -/
def ops : List MOp :=
  [.write 1 5 (some (some [7])) ⟨2, 1⟩, .write 1 7 none ⟨1, 2⟩, .closeActive, .settle,
   .write 1 5 none ⟨3, 3⟩, .delete 1 6 none false]

def s5 : CState := (CState.init Demo.cfg).runM Demo.cfg (ops.take 5)
def s : CState := (CState.init Demo.cfg).runM Demo.cfg ops

theorem ops_ok : ∀ op ∈ ops, op.OK Demo.cfg := by decide

set_option maxRecDepth 100000 in
theorem ops_sized : StoreSized Demo.cfg.klen ((Store.init Demo.cfg.allowDup).run (ops.map MOp.abs)) := by
  unfold StoreSized; decide

/-- timestamps and marker flags of an answer -/
def shape (r : Except CErr (List CEntry)) : Option (List (Nat × Bool)) :=
  match r with
  | .ok es => some (es.map (fun e => (e.hdr.timestamp, e.hdr.isDeleted)))
  | .error _ => none

/-- what `Entry::load` returns for the entries of an answer -/
def loads (r : Except CErr (List CEntry)) : Option (List (Except LoadErr (List UInt8 × List UInt8))) :=
  match r with
  | .ok es => some (es.map (fun e => entryLoad e.file e.hdr))
  | .error _ => none

end DemoRA

-- evaluated: before the delete the three records in rank order (the tie at ts 5: the newer blob first; blob 0 is
-- read through its index file); after it the list is cut after the marker, and `read_all` drops the marker
set_option maxRecDepth 1000000 in
example : DemoRA.shape (DemoRA.s5.readAllMarked Demo.cfg 1) = some [(7, false), (5, false), (5, false)] ∧
    DemoRA.loads (DemoRA.s5.readAllMarked Demo.cfg 1) = some [.ok (serMeta none, [2]),
      .ok (serMeta none, [3, 107, 223]), .ok (serMeta (some [7]), [1, 47])] ∧
    DemoRA.shape (DemoRA.s.readAllMarked Demo.cfg 1) = some [(7, false), (6, true)] ∧
    DemoRA.shape (DemoRA.s.readAll Demo.cfg 1) = some [(7, false)] ∧
    DemoRA.shape (DemoRA.s.readAll Demo.cfg 2) = some [] := by decide

example : ∃ es, DemoRA.s.readAllMarked Demo.cfg 1 = .ok es ∧
    es.map entryView =
      (Spec.allCut ((Store.init true).run (DemoRA.ops.map MOp.abs)).history 1).map (fun p => recView p.r) :=
  (end_to_end_read_all Demo.cfg_ok DemoRA.ops DemoRA.ops_ok DemoRA.ops_sized 1).1

/-! ### non-vacuity (bytes) -/

namespace DemoB

/-- a stand-in for SHA-256 -/
def sha : List Nat → List Nat := fun l => List.replicate 32 (l.length % 256)

theorem ok : BytesOK Demo.cfg sha := ⟨Demo.cfg_ok, fun _ => by simp [sha]⟩

set_option maxRecDepth 100000 in
theorem idx_sized : ∀ n, n ≤ DemoM.ops.length → ((CState.init Demo.cfg).runM Demo.cfg (DemoM.ops.take n)).IdxSized := by
  decide

set_option maxRecDepth 100000 in
/-- … and the bound on the final L2 state from which it follows -/
theorem store_idx_sized : StoreIdxSized Demo.cfg ((Store.init Demo.cfg.allowDup).run (DemoM.ops.map MOp.abs)) := by
  unfold StoreIdxSized; decide

/-- the byte-level storage after the first six operations of `DemoM.ops`: blob 0 has its index on disk, as bytes -/
def s6 : BState := (BState.init Demo.cfg).runB Demo.cfg sha (DemoM.ops.take 6)

end DemoB

-- the index file of blob 0: 83 (header) + 99 (filters) + 16 (tree meta) + 3 · 58 (record headers) = 372 bytes; it is opened
-- by `from_file`, and the look-ups on the bytes find key 1 (two versions) and do not find key 3
set_option maxRecDepth 1000000 in
example : DemoB.s6.blobs.map (fun b => (b.id, b.index.onDisk)) = [(0, true), (1, false)] ∧
    (match DemoB.s6.blobs.head? with
      | some b =>
        (match b.index with
          | .disk img _ => (BIdx.fromFile img).isSome && decide (img.length = 83 + 99 + 16 + 3 * 58)
          | .mem _ => false) &&
        ((b.index.getAllMarked 1 1).map (·.map (·.timestamp)) == some [6, 5]) &&
        ((b.index.getLatest 1 3) == some none)
      | none => false) = true := by decide +kernel

-- reads through the bytes, evaluated
set_option maxRecDepth 1000000 in
example : DemoB.s6.readWithOpt Demo.cfg 1 (some (some [7])) = .ok (.found [1, 47]) ∧
    DemoB.s6.readWithOpt Demo.cfg 2 (some (some [9])) = .ok (.found [5]) ∧
    DemoB.s6.readWithOpt Demo.cfg 3 none = .ok .notFound ∧
    (DemoB.s6.deleteWithOpt Demo.cfg 2 9 (some (some [1])) true).2 = 1 := by decide +kernel

-- and by the theorem, for every key and meta
example (k : Key) (m : Meta) (hm : MetaOK m) :
    ((BState.init Demo.cfg).runB Demo.cfg DemoB.sha DemoM.ops).readWithOpt Demo.cfg k (some m) =
      .ok ((Spec.readWith ((Store.init true).run (DemoM.ops.map MOp.abs)).history k m).map (fun p => dataOf p.r.data)) :=
  ((end_to_end_read_bytes DemoB.ok DemoM.ops DemoM.ops_ok DemoM.ops_sized DemoB.idx_sized k).2.2.2.2.2.2.1 m hm).1

example (k : Key) :
    ((BState.init Demo.cfg).runB Demo.cfg DemoB.sha DemoM.ops).readWithOpt Demo.cfg k none =
      .ok ((Spec.latest ((Store.init true).run (DemoM.ops.map MOp.abs)).history k).map (fun p => dataOf p.r.data)) :=
  (end_to_end_read_bytes_inputs DemoB.ok DemoM.ops DemoM.ops_ok DemoB.store_idx_sized k).2.2.2.2.1

example : filterLen Demo.cfg = 99 := by decide

/-- the simulation on an index file with an inner node: 80 keys of one byte, one header each (two leaves under a
    root node, 4764 bytes) -/
def DemoB.hd (k : Nat) : RecHeader :=
  { magicByte := RECORD_MAGIC_BYTE, key := [UInt8.ofNat k], metaSize := 8, dataSize := 1, flags := 0,
    blobOffset := 20 + 67 * k, timestamp := k, dataChecksum := 0, headerChecksum := 0 }
def DemoB.m80 : InMem RecHeader := indexOf ((List.range 80).map DemoB.hd)
def DemoB.F80 : IndexFile RecHeader := build (Params.real 1) 0 DemoB.m80
def DemoB.img80 : List Nat := imageOf (fun _ => List.replicate 32 0) DemoB.F80 [] 5400

-- evaluated: the descent through the root node on the bytes, the leaf windows, present and absent keys
set_option maxRecDepth 1000000 in
example : DemoB.F80.nodes.length = 1 ∧ DemoB.img80.length = 4764 ∧
    (match BIdx.fromFile DemoB.img80 with
      | some x => (BIdx.getLatest 1 x 0 == DemoB.F80.getLatest 0) && (BIdx.getLatest 1 x 79 == DemoB.F80.getLatest 79) &&
          (BIdx.getLatest 1 x 75 == some (some (DemoB.hd 75))) && (BIdx.findByKey 1 x 100 == some none) &&
          (BIdx.findByKey 1 x 3 == some (some [DemoB.hd 3]))
      | none => false) = true := by decide +kernel

-- and by the simulation theorem, for every key
example (k : Nat) :
    BIdx.getLatest 1 (openedImage 1 [] DemoB.m80 (List.replicate 32 0) 5400) k = DemoB.F80.getLatest k := by
  have hq : ∀ h ∈ (List.range 80).map DemoB.hd, HdrOK 1 h := by
    intro h hh
    obtain ⟨i, hi, rfl⟩ := List.mem_map.mp hh
    have hi' : i < 80 := List.mem_range.mp hi
    refine ⟨rfl, rfl, show RECORD_MAGIC_BYTE < 2 ^ 64 by decide, show 1 < 2 ^ 64 by decide,
      show 8 < 2 ^ 64 by decide, show 1 < 2 ^ 64 by decide, ?_, ?_⟩
    · show 20 + 67 * i < 2 ^ 64
      omega
    · show i < 2 ^ 64
      omega
  have sim := image_sim 1 [] DemoB.m80 (by decide) (indexOf_WF _) (List.replicate 32 0) (by decide) 5400 (by decide)
    (indexOf_keys_lt _ hq) (indexOf_leaf_ok _ hq) (by decide)
  have hst := C09.ondisk_latest_eq (Params.real 1) (C09.valid_real 1 (by decide)) 0 DemoB.m80 (indexOf_WF _)
    (by decide) k
  exact (getLatest_sim sim k _ hst).trans hst.symm

/-- duplicates not allowed: the second `write_with` of the same key and meta appends nothing, another meta does -/
def DemoM.cfgND : Cfg := { Demo.cfg with allowDup := false }

set_option maxRecDepth 1000000 in
example :
    let c := (CState.init DemoM.cfgND).runM DemoM.cfgND
      [.write 1 5 (some (some [7])) ⟨2, 1⟩, .closeActive, .settle, .write 1 6 (some (some [7])) ⟨1, 1⟩,
       .write 1 7 (some (some [8])) ⟨1, 2⟩]
    (c.abs DemoM.cfgND).blobs.map (fun b => b.recs.length) = [1, 1] := by decide

set_option maxRecDepth 1000000 in
/-- the meta range hypothesis is needed: the meta value `[256]` is stored as the byte `0`; a `read_with` for the meta
    value `[0]` finds that record, while the L2 store and the specification (which compare the lists) do not -/
theorem meta_range_needed :
    let ops : List MOp := [.write 1 5 (some (some [256])) ⟨1, 1⟩]
    ((CState.init Demo.cfg).runM Demo.cfg ops).readWith Demo.cfg 1 (some [0]) = .ok (.found (dataOf ⟨1, 1⟩)) ∧
    ((Store.init true).run (ops.map MOp.abs)).read 1 (some (some [0])) = .notFound ∧
    ¬ (∀ op ∈ ops, op.OK Demo.cfg) := by
  refine ⟨by decide, by decide, by decide⟩

end Pearl.E2E

#print axioms Pearl.E2E.refinement_meta
#print axioms Pearl.E2E.refinement_meta_run
#print axioms Pearl.E2E.meta_ops_extend
#print axioms Pearl.E2E.read_with_of_inv
#print axioms Pearl.E2E.end_to_end_read_with
#print axioms Pearl.E2E.end_to_end_contains_with
#print axioms Pearl.E2E.end_to_end_read_meta_history
#print axioms Pearl.E2E.write_with_dedup
#print axioms Pearl.E2E.ghost_not_read_meta
#print axioms Pearl.E2E.read_all_of_inv
#print axioms Pearl.E2E.end_to_end_read_all
#print axioms Pearl.E2E.end_to_end_read_all_plain
#print axioms Pearl.E2E.delete_of_inv
#print axioms Pearl.E2E.end_to_end_delete
#print axioms Pearl.E2E.meta_range_needed
#print axioms Pearl.E2E.index_bytes_lookups
#print axioms Pearl.E2E.bytes_of_inv
#print axioms Pearl.E2E.refinement_bytes_run
#print axioms Pearl.E2E.end_to_end_read_bytes
#print axioms Pearl.E2E.idx_sized_of_inputs
#print axioms Pearl.E2E.storeIdxSized_iff
#print axioms Pearl.E2E.end_to_end_read_bytes_inputs

/-! # Extension: start-up WITH index files

Model: `Pearl/Model/EndToEndStart.lean` (new definitions only), on the byte-level storage `BState`:
`openIndex` = `IndexStruct::from_file(name, cfg, io, blob_size)` on the bytes of an index file (`BPTreeFileIndex::from_file`:
`read_index_header`, `read_tree_meta`, `check_file_size`, `read_root`; `validate(blob_size)`: `written` bit, version,
key size, `blob_size` vs the length of the blob file, magic; `read_meta`; `deserialize_filters`), `fromFileB` =
`Blob::from_file` (accepted → `State::OnDisk` with the deserialized filters and `bloom_offset`; rejected →
`is_index_corrupted`, `Index::new`, `try_regenerate_index`), `loadIndexOrRegenB` = `Blob::load_index` (with the
regeneration fallback), `BState.restartWithIndexes cfg sha c dir lazy` = close + `init` on a directory in which
`dir id` is the content of the index file of blob `id` (ANY byte string) or `none`.
Lemmas: `Pearl/Proofs/EndToEndStart.lean`, `Pearl/Proofs/EndToEndStartStore.lean`.

The index-file choices of the theorem are `IdxChoice cfg sha recs idx` for a blob holding the records `recs`:
`absent`; `current`: `idx = dumpedImage cfg sha recs`, the image `Blob::dump` leaves for a blob into which exactly `recs`
were written; `stale n`: the image dumped when the blob held the strict prefix `recs.take n` (this is what is on disk
after dump → `delete` (the index is loaded, the file stays) → the marker is appended); `rejected`: any bytes for which
`openIndex` answers `rejected`.

FINDING (start-up fails).  `Blob::from_file` sets `is_index_corrupted` for a rejected index file and then calls
`try_regenerate_index` even when the blob file holds the header only; `RawRecords::start` then reads 16 bytes past the
end of the file and `from_file` returns `Err`.  So a rejected index file next to a blob WITHOUT records (the fresh active
blob) makes `Blob::from_file` fail, whereas the same blob without any index file is opened.  The storage itself never
writes an index file for a blob without records (`dump_in_memory` returns at once for an empty map), so this needs a
foreign / left-over file.  `end_to_end_restart_with_indexes` therefore states exactly when the start-up fails
(`restart_with_indexes_fails_on_empty_blob` is the concrete witness) and `…_partial` is the statement under the
hypothesis that excludes it.
-/
namespace Pearl.E2E
open Pearl Pearl.BPTree Pearl.Container

/-- in any state satisfying the invariant (with at least one blob, as on every run), for every directory of index
    files that are absent, current, stale or rejected: the start-up with index files fails exactly when an index file
    lies next to a blob without records; otherwise it returns the very storage the start-up WITHOUT index files
    returns (`BState.restart`: every index regenerated by the L5 scan of the blob bytes), and every answer is the
    answer before the restart -/
theorem restart_with_indexes_of_inv {cfg : Cfg} {sha : List Nat → List Nat} (hB : BytesOK cfg sha) (c : CState)
    (hinv : CInv cfg c) (hmeta : StoreMetaOK (c.abs cfg)) (hne : (c.abs cfg).blobs ≠ [])
    (hsz : StoreIdxSized cfg (c.abs cfg)) (dir : Nat → Option (List Nat))
    (hdir : ∀ b ∈ c.blobs, IdxChoice cfg sha b.ghost (dir b.id)) (lazy : Bool) :
    ((c.toB sha).restartWithIndexes cfg sha dir lazy = none ↔
      ∃ b ∈ c.blobs, b.ghost = [] ∧ (dir b.id).isSome = true) ∧
    ∀ b', (c.toB sha).restartWithIndexes cfg sha dir lazy = some b' →
      b' = (c.toB sha).restart cfg sha lazy ∧ SameAnswers cfg (c.toB sha) b' :=
  restartWithIndexes_of_inv hB hinv hmeta hne hsz dir hdir lazy

/-- **`end_to_end_restart_with_indexes`**: for every history of operations (with metadata) from the empty directory,
    every choice of per-blob index-file bytes that is (i) the image the storage itself dumped for the current records
    of the blob, (ii) the image dumped for a strict prefix of them (stale), or (iii) any byte string that the
    validation of `Index::from_file` rejects (or no file), and both start-up modes:

    * the start-up fails if and only if an index file lies next to a blob that holds no record (see the FINDING
      above; with the choices (i)–(iii) such a file is necessarily a rejected one);
    * otherwise the storage after the start-up IS the storage after the start-up without index files — accepted files
      are used as they are, and what they hold is byte for byte what the regeneration from the blob file followed by a
      dump produces; stale and rejected files are replaced by it — and the answers of `read` / `read_with`
      (`readWithOpt`), `contains` / `contains_with`, `read_all_with_deletion_marker` and `read_all` equal those before
      the restart (`SameAnswers`: equal results; for the two entry lists, equal views = key, timestamp, marker flag
      and what `Entry::load` returns). -/
theorem end_to_end_restart_with_indexes {cfg : Cfg} {sha : List Nat → List Nat} (hB : BytesOK cfg sha)
    (ops : List MOp) (hops : ∀ op ∈ ops, op.OK cfg)
    (hsz : StoreIdxSized cfg ((Store.init cfg.allowDup).run (ops.map MOp.abs)))
    (dir : Nat → Option (List Nat))
    (hdir : ∀ x ∈ ((Store.init cfg.allowDup).run (ops.map MOp.abs)).blobs, IdxChoice cfg sha x.recs (dir x.id))
    (lazy : Bool) :
    let b := (BState.init cfg).runB cfg sha ops
    let s := (Store.init cfg.allowDup).run (ops.map MOp.abs)
    (b.restartWithIndexes cfg sha dir lazy = none ↔ ∃ x ∈ s.blobs, x.recs = [] ∧ (dir x.id).isSome = true) ∧
    ∀ b', b.restartWithIndexes cfg sha dir lazy = some b' →
      b' = b.restart cfg sha lazy ∧ SameAnswers cfg b b' := by
  intro b s
  have hb : b = ((CState.init cfg).runM cfg ops).toB sha :=
    runB_eq hB ops hops hsz.toStoreSized (idxSized_of_final hB.ok ops hops hsz)
  obtain ⟨habs, hinv, hmeta⟩ := runM_ref hB.ok ops hops hsz.toStoreSized
  have hne : (((CState.init cfg).runM cfg ops).abs cfg).blobs ≠ [] := by
    rw [habs]; exact run_blobs_ne_nil _ _
  have hdir' : DirChoice cfg sha ((CState.init cfg).runM cfg ops) dir :=
    dirChoice_of_abs (by rw [habs]; exact hdir)
  obtain ⟨h1, h2⟩ := restartWithIndexes_of_inv hB hinv hmeta hne (by rw [habs]; exact hsz) dir hdir' lazy
  rw [hb]
  refine ⟨?_, h2⟩
  rw [h1, indexBesideEmpty_iff cfg, habs]

/-- the statement under the hypothesis that excludes the failing case: no index file lies next to a blob without
    records.  Then the start-up succeeds and no answer changes. -/
theorem end_to_end_restart_with_indexes_partial {cfg : Cfg} {sha : List Nat → List Nat} (hB : BytesOK cfg sha)
    (ops : List MOp) (hops : ∀ op ∈ ops, op.OK cfg)
    (hsz : StoreIdxSized cfg ((Store.init cfg.allowDup).run (ops.map MOp.abs)))
    (dir : Nat → Option (List Nat))
    (hdir : ∀ x ∈ ((Store.init cfg.allowDup).run (ops.map MOp.abs)).blobs, IdxChoice cfg sha x.recs (dir x.id))
    (hempty : ∀ x ∈ ((Store.init cfg.allowDup).run (ops.map MOp.abs)).blobs, x.recs = [] → dir x.id = none)
    (lazy : Bool) :
    ∃ b', ((BState.init cfg).runB cfg sha ops).restartWithIndexes cfg sha dir lazy = some b' ∧
      b' = ((BState.init cfg).runB cfg sha ops).restart cfg sha lazy ∧
      SameAnswers cfg ((BState.init cfg).runB cfg sha ops) b' := by
  obtain ⟨h1, h2⟩ := end_to_end_restart_with_indexes hB ops hops hsz dir hdir lazy
  cases hr : ((BState.init cfg).runB cfg sha ops).restartWithIndexes cfg sha dir lazy with
  | none =>
    obtain ⟨x, hx, he, hs⟩ := h1.mp hr
    rw [hempty x hx he] at hs
    cases hs
  | some b' => exact ⟨b', rfl, h2 b' hr⟩

/-- the answers after the start-up are therefore those of the specification -/
theorem end_to_end_restart_with_indexes_spec {cfg : Cfg} {sha : List Nat → List Nat} (hB : BytesOK cfg sha)
    (ops : List MOp) (hops : ∀ op ∈ ops, op.OK cfg)
    (hsz : StoreIdxSized cfg ((Store.init cfg.allowDup).run (ops.map MOp.abs)))
    (dir : Nat → Option (List Nat))
    (hdir : ∀ x ∈ ((Store.init cfg.allowDup).run (ops.map MOp.abs)).blobs, IdxChoice cfg sha x.recs (dir x.id))
    (lazy : Bool) (b' : BState)
    (hb' : ((BState.init cfg).runB cfg sha ops).restartWithIndexes cfg sha dir lazy = some b') (k : Key) :
    let h := ((Store.init cfg.allowDup).run (ops.map MOp.abs)).history
    b'.readWithOpt cfg k none = .ok ((Spec.latest h k).map (fun p => dataOf p.r.data)) ∧
    b'.containsWith cfg k none = .ok ((Spec.latest h k).map (·.r.ts)) ∧
    (∀ m, MetaOK m →
      b'.readWithOpt cfg k (some m) = .ok ((Spec.readWith h k m).map (fun p => dataOf p.r.data))) := by
  intro h
  obtain ⟨_, hsame⟩ := (end_to_end_restart_with_indexes hB ops hops hsz dir hdir lazy).2 b' hb'
  obtain ⟨h1, h2, _, _⟩ := hsame k
  have hspec := end_to_end_read_bytes_inputs hB ops hops hsz k
  have hnone : ∀ x, (none : Option Meta) = some x → MetaOK x := by intro x hx; cases hx
  refine ⟨by rw [h1 none hnone]; exact hspec.2.2.2.2.1, by rw [h2 none hnone]; exact hspec.2.2.2.2.2.1, ?_⟩
  intro m hm
  rw [h1 (some m) (by intro x hx; cases hx; exact hm)]
  exact (hspec.2.2.2.2.2.2.1 m hm).1

/-! ## what the validation checks, and the boundary of C03: (iv) accepted bytes that are not an image of the records -/

/-- **what is checked** of an index file that the start-up uses (arbitrary bytes `img`, blob file of `blobSize`
    bytes): it passes the C03b test `acceptIndex` — hence (C03b `accepted_has_declared_length`) its header has the
    `written` bit, the current version, the compile-time key size, `blob_size =` the length of the blob file, the magic
    number, `tree_offset ≤ leaves_offset`, and the file has exactly the length `records_count * record_header_size +
    leaves_offset` its own header and tree meta declare, with header, filter section and tree meta inside it — and its
    filter section deserializes (to the filters and `bloom_offset` the blob then uses).  NOTHING ELSE is looked at:
    not the tree nodes, not the record headers, and not the `hash` (`validate`: "FIXME: check hash here?"; the hash is
    compared by `get_records_headers` only, i.e. when the index is loaded into memory). -/
theorem accepted_index_checked_fields {cfg : Cfg} {blobSize : Nat} {img : List Nat} {flt : Combined} {off : Nat}
    (h : openIndex cfg blobSize img = .accepted flt off) :
    acceptIndex cfg.klen blobSize img = true ∧
    (∃ hd tm, readIndexHeader img = some hd ∧ readTreeMeta img hd = some tm ∧
      hd.isWritten = true ∧ hd.version = indexHeaderVersion ∧ hd.keySize = cfg.klen ∧ hd.blobSize = blobSize ∧
      hd.magic = magicByte ∧ tm.treeOffset ≤ tm.leavesOffset ∧
      img.length = hd.recordsCount * hd.recordHeaderSize + tm.leavesOffset ∧
      hd.serializedSize + hd.metaSize + treeMetaSize ≤ img.length) ∧
    (∃ x mb, BIdx.fromFile img = some x ∧ x.readMeta = some mb ∧
      combinedOfFile cfg.bloomIsOn mb = some (flt, off)) := by
  obtain ⟨ha, x, mb, hx, _, hm, hc⟩ := openIndex_accepted h
  exact ⟨ha, C03b.accepted_has_declared_length cfg.klen blobSize img ha, x, mb, hx, hm, hc⟩

/-- conversely an index file that fails the C03b test is rejected, so every rejection theorem of C03b (truncated,
    half-written, stale `blob_size`, other key size, other version: `damage_never_accepted`) is a case (iii) of
    `end_to_end_restart_with_indexes` -/
theorem rejected_of_c03b {cfg : Cfg} {blobSize : Nat} {img : List Nat}
    (h : acceptIndex cfg.klen blobSize img = false) : openIndex cfg blobSize img = .rejected :=
  openIndex_of_not_accept h

/-! ## non-vacuity (start-up with index files) -/

namespace DemoS

/-- the byte-level storage after the seven operations of `DemoM.ops`: blob 0 was dumped after three records, then
    `delete_with(only_if_presented)` loaded its index and appended a marker — the index file on disk is STALE -/
def s : BState := (BState.init Demo.cfg).runB Demo.cfg DemoB.sha DemoM.ops

/-- the records of blob 0 at the end -/
def recs0 : List Rec :=
  [⟨1, 5, false, some [7], ⟨2, 1⟩⟩, ⟨1, 6, false, none, ⟨1, 2⟩⟩, ⟨2, 4, false, some [9], ⟨1, 5⟩⟩,
   ⟨2, 9, true, some [1], ⟨0, 0⟩⟩]
def recs1 : List Rec := [⟨1, 7, false, some [8], ⟨3, 3⟩⟩]

set_option maxRecDepth 1000000 in
theorem blobs_eq : ((Store.init Demo.cfg.allowDup).run (DemoM.ops.map MOp.abs)).blobs
    = [{ id := 0, recs := recs0 }, { id := 1, recs := recs1 }] := by decide

/-- the directory a real run leaves: next to blob 0 the image dumped when it held its first three records (stale),
    nothing next to the active blob 1 -/
def dirStale : Nat → Option (List Nat)
  | 0 => dumpedImage Demo.cfg DemoB.sha (recs0.take 3)
  | _ => none

/-- blob 0 with its CURRENT image (dumped by hand after the delete), a damaged file next to blob 1 -/
def dirCurrent : Nat → Option (List Nat)
  | 0 => dumpedImage Demo.cfg DemoB.sha recs0
  | 1 => some [1, 2, 3]
  | _ => none

theorem isSome_choice {recs : List Rec} {o : Option (List Nat)} (h : o.isSome = true)
    (hc : ∀ img, o = some img → IdxChoice Demo.cfg DemoB.sha recs (some img)) :
    IdxChoice Demo.cfg DemoB.sha recs o := by
  cases o with
  | none => cases h
  | some img => exact hc img rfl

set_option maxRecDepth 1000000 in
theorem dirStale_ok : ∀ x ∈ ((Store.init Demo.cfg.allowDup).run (DemoM.ops.map MOp.abs)).blobs,
    IdxChoice Demo.cfg DemoB.sha x.recs (dirStale x.id) := by
  rw [blobs_eq]
  intro x hx
  simp only [List.mem_cons, List.not_mem_nil, or_false] at hx
  rcases hx with rfl | rfl
  · exact isSome_choice (by decide +kernel) (fun img h => .stale 3 img (by decide) h)
  · exact .absent

set_option maxRecDepth 1000000 in
theorem dirCurrent_ok : ∀ x ∈ ((Store.init Demo.cfg.allowDup).run (DemoM.ops.map MOp.abs)).blobs,
    IdxChoice Demo.cfg DemoB.sha x.recs (dirCurrent x.id) := by
  rw [blobs_eq]
  intro x hx
  simp only [List.mem_cons, List.not_mem_nil, or_false] at hx
  rcases hx with rfl | rfl
  · exact isSome_choice (by decide +kernel) (fun img h => .current img h)
  · exact .rejected [1, 2, 3] (by decide +kernel)

end DemoS

-- evaluated: the stale file is 372 bytes long and is rejected for the blob file of 342 bytes; the current image is
-- accepted; three junk bytes are rejected
set_option maxRecDepth 1000000 in
example : (DemoS.dirStale 0).map (·.length) = some 372 ∧ blobFileLen Demo.cfg DemoS.recs0 = 342 ∧
    (DemoS.dirStale 0).map (openIndex Demo.cfg 342) = some .rejected ∧
    (DemoS.dirStale 0).map (openIndex Demo.cfg 258) ≠ some .rejected ∧
    ((DemoS.dirCurrent 0).map (openIndex Demo.cfg 342)).isSome = true ∧
    (DemoS.dirCurrent 0).map (openIndex Demo.cfg 342) ≠ some .rejected ∧
    openIndex Demo.cfg 107 [1, 2, 3] = .rejected := by decide +kernel

-- evaluated: the start-up with the stale file regenerates and dumps blob 0; with the current file it uses it; the
-- answers are those before the restart
set_option maxRecDepth 1000000 in
example : (DemoS.s.restartWithIndexes Demo.cfg DemoB.sha DemoS.dirStale false).map
      (fun b => (b.readWithOpt Demo.cfg 2 none, b.readWithOpt Demo.cfg 1 (some (some [7])),
        b.blobs.map (fun x => (x.id, x.index.onDisk))))
      = some (.ok (.deleted 9), .ok (.found [1, 47]), [(0, true), (1, false)]) ∧
    (DemoS.s.readWithOpt Demo.cfg 2 none, DemoS.s.readWithOpt Demo.cfg 1 (some (some [7])))
      = (.ok (.deleted 9), .ok (.found [1, 47])) ∧
    (DemoS.s.restartWithIndexes Demo.cfg DemoB.sha DemoS.dirCurrent true).map
      (fun b => (b.readWithOpt Demo.cfg 2 none, b.blobs.map (fun x => (x.id, x.index.onDisk))))
      = some (.ok (.deleted 9), [(0, true), (1, true)]) := by
  refine ⟨?_, ?_, ?_⟩ <;> decide +kernel

-- and by the theorem: for every key, every meta, both directories, both modes
example (lazy : Bool) : ∃ b', DemoS.s.restartWithIndexes Demo.cfg DemoB.sha DemoS.dirStale lazy = some b' ∧
    b' = DemoS.s.restart Demo.cfg DemoB.sha lazy ∧ SameAnswers Demo.cfg DemoS.s b' :=
  end_to_end_restart_with_indexes_partial DemoB.ok DemoM.ops DemoM.ops_ok DemoB.store_idx_sized DemoS.dirStale
    DemoS.dirStale_ok (by
      rw [DemoS.blobs_eq]; intro x hx
      simp only [List.mem_cons, List.not_mem_nil, or_false] at hx
      rcases hx with rfl | rfl <;> intro h <;> cases h) lazy

example (lazy : Bool) (k : Key) (m : Meta) (hm : MetaOK m) (b' : BState)
    (h : DemoS.s.restartWithIndexes Demo.cfg DemoB.sha DemoS.dirCurrent lazy = some b') :
    b'.readWithOpt Demo.cfg k (some m) = DemoS.s.readWithOpt Demo.cfg k (some m) :=
  (((end_to_end_restart_with_indexes DemoB.ok DemoM.ops DemoM.ops_ok DemoB.store_idx_sized DemoS.dirCurrent
    DemoS.dirCurrent_ok lazy).2 b' h).2 k).1 (some m) (by intro x hx; cases hx; exact hm)

set_option maxRecDepth 1000000 in
/-- the FINDING, evaluated: blob 0 closed, blob 1 the fresh active blob (header only).  Without index files the
    start-up succeeds; with three junk bytes next to blob 1 — which the validation rejects — `Blob::from_file` of blob 1
    fails (`RawRecords::start` reads past the end of the header-only file); the same junk next to blob 0 is harmless -/
theorem restart_with_indexes_fails_on_empty_blob :
    let ops : List MOp := [.write 1 5 none ⟨1, 1⟩, .closeActive, .createActive]
    let b := (BState.init Demo.cfg).runB Demo.cfg DemoB.sha ops
    ((Store.init true).run (ops.map MOp.abs)).blobs.map (fun x => (x.id, x.recs.length)) = [(0, 1), (1, 0)] ∧
    openIndex Demo.cfg 20 [1, 2, 3] = .rejected ∧
    b.restartWithIndexes Demo.cfg DemoB.sha (fun i => if i = 1 then some [1, 2, 3] else none) false = none ∧
    (b.restartWithIndexes Demo.cfg DemoB.sha (fun _ => none) false).isSome = true ∧
    (b.restartWithIndexes Demo.cfg DemoB.sha (fun i => if i = 0 then some [1, 2, 3] else none) false).isSome = true := by
  decide +kernel

namespace DemoS

/-- (iv) the index file of blob 0 as dumped after its first three records, with ONE byte changed inside the third
    record header (byte 330: the key byte, 2 → 3).  Header, filter section, tree meta and length are untouched. -/
def badImg : List Nat := ((dumpedImage Demo.cfg DemoB.sha (recs0.take 3)).getD []).set 330 3

end DemoS

set_option maxRecDepth 1000000 in
/-- **the boundary of C03** (`accepted_is_faithful_general_false` of C03b, composed): the changed file passes the
    validation for the blob it was dumped for (`DemoB.s6`: blob 0 holds three records, 258 bytes) — the header
    checks do not cover the record headers and the `hash` is not compared at start-up —, is used as it is, and the read
    path then answers `NotFound` for key 2, which the blob holds (`Found` before the restart): the filters still pass
    the key, the look-up in the index file does not find it.  The `hash` is compared only when the index is loaded
    (`get_records_headers`: the next `delete` of a key of this blob, or `pop_active` for the last blob). -/
theorem accepted_but_wrong_index :
    DemoS.badImg.length = 372 ∧ (dumpedImage Demo.cfg DemoB.sha (DemoS.recs0.take 3)).map (·[330]?) = some (some 2) ∧
    DemoB.s6.blobs.map (fun x => (x.id, x.file.length, x.index.onDisk)) = [(0, 258, true), (1, 107, false)] ∧
    acceptIndex 1 258 DemoS.badImg = true ∧ openIndex Demo.cfg 258 DemoS.badImg ≠ .rejected ∧
    openIndex Demo.cfg 258 DemoS.badImg ≠ .panic ∧
    DemoB.s6.readWithOpt Demo.cfg 2 none = .ok (.found [5]) ∧
    (DemoB.s6.restartWithIndexes Demo.cfg DemoB.sha (fun i => if i = 0 then some DemoS.badImg else none) false).map
      (fun b => (b.readWithOpt Demo.cfg 2 none, b.readWithOpt Demo.cfg 2 (some (some [9]))))
      = some (.ok .notFound, .ok .notFound) ∧
    (DemoB.s6.restartWithIndexes Demo.cfg DemoB.sha (fun i => if i = 0 then some DemoS.badImg else none) false).map
      (fun b => (b.readWithOpt Demo.cfg 1 none, b.blobs.map (fun x => (x.id, x.index.onDisk))))
      = some (.ok (.found [3, 107, 223]), [(0, true), (1, false)]) := by
  refine ⟨?_, ?_, ?_, ?_, ?_, ?_, ?_, ?_, ?_⟩ <;> decide +kernel

set_option maxRecDepth 1000000 in
/-- a second finding on arbitrary bytes: a file with a valid header whose filter section is shorter than the 8-byte
    length prefix of the range filter passes `from_file` + `validate` + `read_meta`, and `deserialize_filters` then
    panics in `split_at` — the start-up does not fall back to regeneration.  (99 bytes: header with `meta_size = 0`,
    `records_count = 0`, `blob_size = 20`; tree meta `leaves_offset = tree_offset = 99`.) -/
theorem index_with_short_filter_section_panics :
    let hdr : List Nat := BPTree.leBytes 8 magicByte ++ BPTree.leBytes 8 0 ++ BPTree.leBytes 8 58 ++ BPTree.leBytes 8 0
      ++ (BPTree.leBytes 8 32 ++ List.replicate 32 0) ++ [13] ++ BPTree.leBytes 2 1 ++ BPTree.leBytes 8 20
    let img := hdr ++ BPTree.leBytes 8 99 ++ BPTree.leBytes 8 99
    img.length = 99 ∧ acceptIndex 1 20 img = true ∧ openIndex Demo.cfg 20 img = .panic := by
  decide +kernel

end Pearl.E2E

#print axioms Pearl.E2E.restart_with_indexes_of_inv
#print axioms Pearl.E2E.end_to_end_restart_with_indexes
#print axioms Pearl.E2E.end_to_end_restart_with_indexes_partial
#print axioms Pearl.E2E.end_to_end_restart_with_indexes_spec
#print axioms Pearl.E2E.accepted_index_checked_fields
#print axioms Pearl.E2E.rejected_of_c03b
#print axioms Pearl.E2E.restart_with_indexes_fails_on_empty_blob
#print axioms Pearl.E2E.accepted_but_wrong_index
#print axioms Pearl.E2E.index_with_short_filter_section_panics

/-! # Extension: bloom off-loading as an operation

Model: `Pearl/Model/EndToEndStart.lean`, part (b): `OOp` = the operations of `MOp`, `offloadBlob j`
(`Blob::offload_buffer` of the closed blob in slot `j`: `index.offload_filter()`, the bit vector of the bloom filter of an
on-disk index is dropped) and `offloadBuffer needed level` (`Storage::offload_buffer` = `HierarchicalFilters::
offload_buffer` on the container of the closed blobs: `Container.offload`, children first, then the filters of the
inner nodes); `CState.stepO / runO` on the structured storage, `BState.stepBO / runBO` on the byte-level storage.  An
off-loaded bloom filter is probed by `Bloom::contains_in_file` through `read_meta_at(index + bloom_offset)`: on the
structured index file `metaReadByte metaBuf off`, on the bytes `BIdx.readMetaAt` (`BBlob.checkFilter`).
Lemmas: `Pearl/Proofs/EndToEndStartOffload{,Steps,Bytes}.lean`.

Proof idea.  `CState.reload` replaces the filter of every blob by the filter of its records (what `load_index` or a
restart reads back) and leaves the arena of the container alone.  `CInvO c` = `CInv (reload c)` and every blob filter is
the filter of its records or — index on disk — that filter off-loaded.  Every read answers on `c` as on `reload c`
(C10 `contains_offload_eq`: the file probe of the off-loaded filter = the fast check of the resident one), every
operation commutes with `reload` (`stepM_reload`; node filters of the container may be off-loaded or dropped, which
C10 `node_filter_sup_offload` allows), so the L2 state is the L2 state of the history without the off-loading calls.
-/
namespace Pearl.E2E
open Pearl Pearl.BPTree Pearl.Container

/-- off-loading is invisible to the abstraction: every operation with off-loading keeps `CInvO`, and the L2 state
    moves by the L2 operation (not at all for the off-loading calls) -/
theorem refinement_offload {cfg : Cfg} (hcfg : cfg.OK) (c : CState) (hinv : CInvO cfg c)
    (hmeta : StoreMetaOK (c.abs cfg)) (op : OOp) (hop : op.OK cfg)
    (hsz : StoreSized cfg.klen (op.applyAbs (c.abs cfg))) :
    (c.stepO cfg op).abs cfg = op.applyAbs (c.abs cfg) ∧ CInvO cfg (c.stepO cfg op) ∧
      StoreMetaOK ((c.stepO cfg op).abs cfg) :=
  stepO_ref hcfg hinv hmeta op hop hsz

/-- … along every history with off-loading interleaved, from the empty storage -/
theorem refinement_offload_run {cfg : Cfg} (hcfg : cfg.OK) (ops : List OOp) (hops : ∀ op ∈ ops, op.OK cfg)
    (hsz : StoreSized cfg.klen ((Store.init cfg.allowDup).run ((OOp.erase ops).map MOp.abs))) :
    ((CState.init cfg).runO cfg ops).abs cfg = (Store.init cfg.allowDup).run ((OOp.erase ops).map MOp.abs) ∧
      CInvO cfg ((CState.init cfg).runO cfg ops) :=
  ⟨(runO_ref hcfg ops hops hsz).1, (runO_ref hcfg ops hops hsz).2.1⟩

/-- in any state satisfying `CInvO`, every read of the structured storage answers as on the reloaded state, and the
    byte-level storage answers as the structured one (the off-loaded filters being probed in the bytes of the index
    files) -/
theorem offload_reads_of_inv {cfg : Cfg} {sha : List Nat → List Nat} (hB : BytesOK cfg sha) (c : CState)
    (hinv : CInvO cfg c) (hsz : StoreIdxSized cfg (c.abs cfg)) (k : Key) :
    (∀ m, c.readWithOpt cfg k m = (c.reload cfg).readWithOpt cfg k m) ∧
    (∀ m, c.containsWith cfg k m = (c.reload cfg).containsWith cfg k m) ∧
    c.readAllMarked cfg k = (c.reload cfg).readAllMarked cfg k ∧ c.readAll cfg k = (c.reload cfg).readAll cfg k ∧
    (∀ m, (c.toB sha).readWithOpt cfg k m = c.readWithOpt cfg k m) ∧
    (∀ m, (c.toB sha).containsWith cfg k m = c.containsWith cfg k m) ∧
    (c.toB sha).readAllMarked cfg k = c.readAllMarked cfg k ∧ (c.toB sha).readAll cfg k = c.readAll cfg k := by
  have hg := goodB_of_store hB hinv hsz
  exact ⟨fun m => (readWithOpt_reload hinv k m).symm, fun m => (containsWith_reload hinv k m).symm,
    (readAllMarked_reload cfg c k).symm, (readAll_reload cfg c k).symm,
    fun m => readWithOpt_toB_good hg k m, fun m => containsWith_toB_good hg k m,
    readAllMarked_toB_good hg k, readAll_toB_good hg k⟩

/-- **`end_to_end_offload_transparent`**: for every history of operations (with metadata) with off-loading calls —
    `offloadBlob`, `offloadBuffer needed level` — interleaved anywhere, on the byte-level storage (dumped indexes held
    as the bytes of their files, off-loaded bloom filters probed with `read_meta_at` on those bytes):

    * the byte-level run is the translation of the structured run;
    * NO ANSWER CHANGES: `read` / `read_with`, `contains` / `contains_with`, `read_all_with_deletion_marker`, `read_all`
      answer as after the same history WITHOUT the off-loading calls (`SameAnswers`);
    * hence they are the answers of the specification for the history without the off-loading calls. -/
theorem end_to_end_offload_transparent {cfg : Cfg} {sha : List Nat → List Nat} (hB : BytesOK cfg sha)
    (ops : List OOp) (hops : ∀ op ∈ ops, op.OK cfg)
    (hsz : StoreIdxSized cfg ((Store.init cfg.allowDup).run ((OOp.erase ops).map MOp.abs))) :
    let b := (BState.init cfg).runBO cfg sha ops
    let b0 := (BState.init cfg).runB cfg sha (OOp.erase ops)
    let h := ((Store.init cfg.allowDup).run ((OOp.erase ops).map MOp.abs)).history
    b = ((CState.init cfg).runO cfg ops).toB sha ∧
    SameAnswers cfg b0 b ∧
    ∀ k,
      b.readWithOpt cfg k none = .ok ((Spec.latest h k).map (fun p => dataOf p.r.data)) ∧
      b.containsWith cfg k none = .ok ((Spec.latest h k).map (·.r.ts)) ∧
      (∀ m, MetaOK m →
        b.readWithOpt cfg k (some m) = .ok ((Spec.readWith h k m).map (fun p => dataOf p.r.data)) ∧
        b.containsWith cfg k (some m) = .ok ((Spec.readWith h k m).map (·.r.ts))) ∧
      (∃ es, b.readAllMarked cfg k = .ok es ∧ es.map entryView = (Spec.allCut h k).map (fun p => recView p.r)) ∧
      (∃ es, b.readAll cfg k = .ok es ∧ es.map entryView = (Spec.allLive h k).map (fun p => recView p.r)) := by
  intro b b0 h
  have hb : b = ((CState.init cfg).runO cfg ops).toB sha := runBO_eq hB ops hops hsz
  have hops0 := erase_ok hops
  have hb0 : b0 = ((CState.init cfg).runM cfg (OOp.erase ops)).toB sha :=
    runB_eq hB _ hops0 hsz.toStoreSized (idxSized_of_final hB.ok _ hops0 hsz)
  obtain ⟨habs, hinv, hmeta⟩ := runO_ref hB.ok ops hops hsz.toStoreSized
  obtain ⟨habs0, hinv0, hmeta0⟩ := runM_ref hB.ok (OOp.erase ops) hops0 hsz.toStoreSized
  have hsame : SameAnswers cfg b0 b := by
    rw [hb, hb0]
    exact sameAnswers_of_abs hB hinv0.toCInvO hinv hmeta0 (by rw [habs0]; exact hsz) (by rw [habs, habs0])
  refine ⟨hb, hsame, fun k => ?_⟩
  have hspec := end_to_end_read_bytes_inputs hB (OOp.erase ops) hops0 hsz k
  obtain ⟨s1, s2, ⟨e3, e3', h3, h3', v3⟩, ⟨e4, e4', h4, h4', v4⟩⟩ := hsame k
  have hnone : ∀ x, (none : Option Meta) = some x → MetaOK x := by intro x hx; cases hx
  refine ⟨by rw [s1 none hnone]; exact hspec.2.2.2.2.1, by rw [s2 none hnone]; exact hspec.2.2.2.2.2.1, ?_, ?_, ?_⟩
  · intro m hm
    have hsm : ∀ x, some m = some x → MetaOK x := by intro x hx; cases hx; exact hm
    exact ⟨by rw [s1 (some m) hsm]; exact (hspec.2.2.2.2.2.2.1 m hm).1,
      by rw [s2 (some m) hsm]; exact (hspec.2.2.2.2.2.2.1 m hm).2⟩
  · obtain ⟨es, he, hv⟩ := hspec.2.2.2.2.2.2.2.1
    refine ⟨e3', h3', ?_⟩
    have : e3 = es := by
      have := h3.symm.trans he
      cases this; rfl
    rw [v3, this, hv]
  · obtain ⟨es, he, hv⟩ := hspec.2.2.2.2.2.2.2.2
    refine ⟨e4', h4', ?_⟩
    have : e4 = es := by
      have := h4.symm.trans he
      cases this; rfl
    rw [v4, this, hv]

/-- the same on the structured storage (index files as `IndexFile`, `read_meta_at` = `metaReadByte`) -/
theorem end_to_end_offload_transparent_structured {cfg : Cfg} (hcfg : cfg.OK) (ops : List OOp)
    (hops : ∀ op ∈ ops, op.OK cfg)
    (hsz : StoreSized cfg.klen ((Store.init cfg.allowDup).run ((OOp.erase ops).map MOp.abs))) (k : Key) :
    let c := (CState.init cfg).runO cfg ops
    let c0 := (CState.init cfg).runM cfg (OOp.erase ops)
    (∀ m, (∀ x, m = some x → MetaOK x) → c.readWithOpt cfg k m = c0.readWithOpt cfg k m) ∧
    (∀ m, (∀ x, m = some x → MetaOK x) → c.containsWith cfg k m = c0.containsWith cfg k m) := by
  intro c c0
  obtain ⟨habs, hinv, hmeta⟩ := runO_ref hcfg ops hops hsz
  obtain ⟨habs0, hinv0, hmeta0⟩ := runM_ref hcfg (OOp.erase ops) (erase_ok hops) hsz
  have hmeta' : StoreMetaOK ((c.reload cfg).abs cfg) := by rw [reload_abs]; exact hmeta
  refine ⟨fun m hm => ?_, fun m hm => ?_⟩
  · rw [← readWithOpt_reload hinv, readWithOpt_eq hcfg hinv.inv hmeta' k m hm,
      readWithOpt_eq hcfg hinv0 hmeta0 k m hm, reload_abs, habs, habs0]
  · rw [← containsWith_reload hinv, containsWith_eq hcfg hinv.inv hmeta' k m hm,
      containsWith_eq hcfg hinv0 hmeta0 k m hm, reload_abs, habs, habs0]

/-- **start-up with index files after a history with off-loading**: the start-up does not look at the filters held
    in memory; so from the state after ANY history with off-loading calls, and for every directory of absent / current
    / stale / rejected index files, `restartWithIndexes` behaves as `end_to_end_restart_with_indexes` says, the storage
    it returns is the translation of a state satisfying `CInv` (nothing off-loaded: the filters were re-read from the
    index files or recomputed), and it is the state reached by the history `ops ++ [restart lazy]` — so any further
    history, with further off-loading, is covered by `end_to_end_offload_transparent` again -/
theorem end_to_end_offload_then_restart_with_indexes {cfg : Cfg} {sha : List Nat → List Nat} (hB : BytesOK cfg sha)
    (ops : List OOp) (hops : ∀ op ∈ ops, op.OK cfg)
    (hsz : StoreIdxSized cfg ((Store.init cfg.allowDup).run ((OOp.erase ops).map MOp.abs)))
    (dir : Nat → Option (List Nat))
    (hdir : ∀ x ∈ ((Store.init cfg.allowDup).run ((OOp.erase ops).map MOp.abs)).blobs,
      IdxChoice cfg sha x.recs (dir x.id))
    (lazy : Bool) :
    let b := (BState.init cfg).runBO cfg sha ops
    let s := (Store.init cfg.allowDup).run ((OOp.erase ops).map MOp.abs)
    (b.restartWithIndexes cfg sha dir lazy = none ↔ ∃ x ∈ s.blobs, x.recs = [] ∧ (dir x.id).isSome = true) ∧
    ∀ b', b.restartWithIndexes cfg sha dir lazy = some b' →
      b' = b.restart cfg sha lazy ∧ b' = (BState.init cfg).runBO cfg sha (ops ++ [.op (.restart lazy)]) ∧
      SameAnswers cfg b b' := by
  intro b s
  have hb : b = ((CState.init cfg).runO cfg ops).toB sha := runBO_eq hB ops hops hsz
  obtain ⟨habs, hinv, hmeta⟩ := runO_ref hB.ok ops hops hsz.toStoreSized
  have hne : (((CState.init cfg).runO cfg ops).abs cfg).blobs ≠ [] := by rw [habs]; exact run_blobs_ne_nil _ _
  have hdir' : DirChoice cfg sha ((CState.init cfg).runO cfg ops) dir := dirChoice_of_abs (by rw [habs]; exact hdir)
  obtain ⟨h1, h2⟩ := restartWithIndexes_of_invO hB hinv hmeta hne (by rw [habs]; exact hsz) dir hdir' lazy
  rw [hb]
  refine ⟨by rw [h1, indexBesideEmpty_iff cfg, habs], fun b' hb' => ?_⟩
  obtain ⟨e1, _, _, e4⟩ := h2 b' hb'
  refine ⟨e1, ?_, e4⟩
  rw [e1]
  show _ = List.foldl _ _ _
  rw [List.foldl_append]
  show _ = ((BState.init cfg).runBO cfg sha ops).stepBO cfg sha (.op (.restart lazy))
  rw [runBO_eq hB ops hops hsz]
  rfl

/-- **the filters re-read at start-up probe the same bits**: for a blob of a state reached by any history (with
    off-loading), the index file dumped for its records is accepted at start-up with the filter of the blob and the
    `bloom_offset = 8 + |range filter|` that `serialize_filters` computed (`deserialize_filters` recomputes it from
    the 8-byte length prefix), and when the re-read filter is off-loaded, the probes `read_meta_at(i + bloom_offset)`
    on the BYTES of the file answer, for every key, exactly as the resident filter -/
theorem reread_filters_probe_same_bits {cfg : Cfg} {sha : List Nat → List Nat} (hB : BytesOK cfg sha)
    (ops : List OOp) (hops : ∀ op ∈ ops, op.OK cfg)
    (hsz : StoreIdxSized cfg ((Store.init cfg.allowDup).run ((OOp.erase ops).map MOp.abs)))
    (x : Blob) (hx : x ∈ ((Store.init cfg.allowDup).run ((OOp.erase ops).map MOp.abs)).blobs) (hne : x.recs ≠ []) :
    ∃ mb off img, serializeFilters cfg.klen (filterOf cfg x.recs) = some (mb, off) ∧
      dumpedImage cfg sha x.recs = some img ∧
      openIndex cfg (blobFileLen cfg x.recs) img = .accepted (filterOf cfg x.recs) off ∧
      ∀ k, ({ id := x.id, file := blobBytes cfg.klen (full x.recs), index := .disk img off,
              filter := (filterOf cfg x.recs).offload.1 } : BBlob).checkFilter cfg k
            = (filterOf cfg x.recs).containsFast cfg.h k := by
  obtain ⟨habs, hinv, _⟩ := runO_ref hB.ok ops hops hsz.toStoreSized
  rw [← habs, abs_blobs] at hx
  obtain ⟨b, hb, rfl⟩ := List.mem_map.mp hx
  have hR := hinv.blobInv hb
  have h3 : Sized3 cfg b.ghost := by
    have := hsz b.abs (by rw [← habs, abs_blobs]; exact List.mem_map.mpr ⟨b, hb, rfl⟩)
    exact this
  obtain ⟨mb, off, hs⟩ := serializeFilters_filterOf cfg b.ghost
  have hne' : (b.reload cfg).ghost ≠ [] := hne
  obtain ⟨p1, p2⟩ := reread_filter_probes (sha := sha) hB hR hne' h3 hs
  have hok : RecsOK cfg b.ghost := hR.recsOK
  have hfile : b.file = blobBytes cfg.klen (full b.ghost) := hR.file
  have p1' : openIndex cfg b.file.length (imageRecs cfg sha b.ghost mb) = .accepted (filterOf cfg b.ghost) off := p1
  have p2' : ∀ k, (BBlob.mk b.id b.file (.disk (imageRecs cfg sha b.ghost mb) off)
      (filterOf cfg b.ghost).offload.1).checkFilter cfg k = (filterOf cfg b.ghost).containsFast cfg.h k := p2
  show ∃ mb off img, serializeFilters cfg.klen (filterOf cfg b.ghost) = some (mb, off) ∧
      dumpedImage cfg sha b.ghost = some img ∧
      openIndex cfg (blobFileLen cfg b.ghost) img = .accepted (filterOf cfg b.ghost) off ∧
      ∀ k, (BBlob.mk b.id (blobBytes cfg.klen (full b.ghost)) (.disk img off)
              (filterOf cfg b.ghost).offload.1).checkFilter cfg k = (filterOf cfg b.ghost).containsFast cfg.h k
  have hne2 : b.ghost ≠ [] := hne
  refine ⟨mb, off, imageRecs cfg sha b.ghost mb, hs, ?_, ?_, ?_⟩
  · rw [dumpedImage_eq sha hok, if_neg hne2, hs]
    rfl
  · rw [blobFileLen_eq hok, ← hfile]
    exact p1'
  · intro k
    rw [← hfile]
    exact p2' k

/-! ## the storage WITH its directory of index files

`runD` (`Pearl/Model/EndToEndStart.lean`) runs a history on the byte-level storage together with the directory of index
files it leaves (`dirAfter`: a dump writes the file of the blob, nothing else touches one), and every `restart` of the
history is the REAL start-up `restartWithIndexes` on the files that are there.  Lemmas: `Pearl/Proofs/EndToEndStartDir.lean`. -/

/-- **`end_to_end_real_directory`**: for every history from the empty directory, with off-loading calls and restarts
    anywhere: the index files the history leaves are, for every blob, absent, current or stale (never next to a blob
    without records), so every start-up that reads them reaches the storage of the start-up that regenerates every
    index: `runD` and `runBO` reach the SAME storage — whose answers are those of the specification
    (`end_to_end_offload_transparent`) -/
theorem end_to_end_real_directory {cfg : Cfg} {sha : List Nat → List Nat} (hB : BytesOK cfg sha)
    (ops : List OOp) (hops : ∀ op ∈ ops, op.OK cfg)
    (hsz : StoreIdxSized cfg ((Store.init cfg.allowDup).run ((OOp.erase ops).map MOp.abs))) :
    ∃ dir', runD cfg sha (BState.init cfg, fun _ => none) ops = ((BState.init cfg).runBO cfg sha ops, dir') ∧
      (∀ x ∈ ((Store.init cfg.allowDup).run ((OOp.erase ops).map MOp.abs)).blobs,
        IdxChoice cfg sha x.recs (dir' x.id) ∧ (x.recs = [] → dir' x.id = none) ∧
        (x.onDisk = true → dir' x.id = dumpedImage cfg sha x.recs)) ∧
      (∀ id, (∀ x ∈ ((Store.init cfg.allowDup).run ((OOp.erase ops).map MOp.abs)).blobs, x.id ≠ id) →
        dir' id = none) := by
  obtain ⟨dir', h1, h2⟩ := runD_eq hB ops hops hsz
  exact ⟨dir', h1, fun x hx => ⟨(h2.blob x hx).choice, (h2.blob x hx).empty, fun hd => ((h2.blob x hx).1 hd).2⟩,
    h2.free⟩

/-! ## non-vacuity (off-loading) -/

namespace DemoO

/-- blob 0 (keys 1 and 5) is closed and dumped; `offload_buffer(1000, 1)` drops its bloom buffer and the one of the
    root node of the container; key 3 goes into the active blob; `offloadBlob 0` again (nothing left to free) -/
def ops : List OOp :=
  [.op (.write 1 5 none ⟨2, 1⟩), .op (.write 5 6 (some (some [4])) ⟨1, 2⟩), .op .closeActive, .op .settle,
   .offloadBuffer 1000 1, .op (.write 3 7 none ⟨1, 9⟩), .offloadBlob 0]

def s : BState := (BState.init Demo.cfg).runBO Demo.cfg DemoB.sha ops
/-- before the off-loading -/
def s4 : BState := (BState.init Demo.cfg).runBO Demo.cfg DemoB.sha (ops.take 4)

theorem ops_ok : ∀ op ∈ ops, op.OK Demo.cfg := by decide

set_option maxRecDepth 100000 in
theorem store_idx_sized :
    StoreIdxSized Demo.cfg ((Store.init Demo.cfg.allowDup).run ((OOp.erase ops).map MOp.abs)) := by
  unfold StoreIdxSized; decide

/-- `is_filter_offloaded` of the filters of the inner nodes of the container -/
def nodesOffloaded (b : BState) : List (Option Bool) :=
  b.cont.inner.map (fun o => match o with | some (FInner.node n) => n.filter.map Combined.isOffloaded | _ => none)

end DemoO

-- evaluated: `offload_buffer(1000, 1)` frees 32 bytes (16 of blob 0, 16 of the root node); afterwards the bloom filter of
-- blob 0 is off-loaded and holds no memory, so is the filter of the root node
set_option maxRecDepth 1000000 in
example : (DemoO.s4.offloadBuffer Demo.cfg 1000 1).2 = 32 ∧ (DemoO.s4.offloadBuffer Demo.cfg 1000 0).2 = 16 ∧
    DemoO.s4.blobs.map (fun b => (b.id, b.index.onDisk, b.filter.isOffloaded, b.filter.memoryAllocated))
      = [(0, true, false, 16)] ∧
    DemoO.s.blobs.map (fun b => (b.id, b.index.onDisk, b.filter.isOffloaded, b.filter.memoryAllocated))
      = [(0, true, true, 0), (1, false, false, 16)] ∧
    DemoO.nodesOffloaded DemoO.s4 = [some false, none] ∧ DemoO.nodesOffloaded DemoO.s = [some true, none] := by
  refine ⟨?_, ?_, ?_, ?_, ?_, ?_⟩ <;> decide +kernel

-- evaluated: the off-loaded filter of blob 0 still PRUNES — key 3 lies inside its range [1, 5] and the probe of the
-- bytes of the index file answers `NotContains`, keys 1 and 5 pass; the reads find every record
set_option maxRecDepth 1000000 in
example : (DemoO.s.blobs.head?.map (fun b => (b.checkFilter Demo.cfg 1, b.checkFilter Demo.cfg 3, b.checkFilter Demo.cfg 5)))
      = some (.needAdditionalCheck, .notContains, .needAdditionalCheck) ∧
    DemoO.s.readWithOpt Demo.cfg 1 none = .ok (.found [1, 47]) ∧
    DemoO.s.readWithOpt Demo.cfg 5 (some (some [4])) = .ok (.found [2]) ∧
    DemoO.s.readWithOpt Demo.cfg 3 none = .ok (.found [9]) ∧
    DemoO.s.readWithOpt Demo.cfg 4 none = .ok .notFound := by
  refine ⟨?_, ?_, ?_, ?_, ?_⟩ <;> decide +kernel

-- and by the theorem: for every key and meta, the answers of the history without the off-loading calls
example (k : Key) (m : Meta) (hm : MetaOK m) :
    DemoO.s.readWithOpt Demo.cfg k (some m) =
      ((BState.init Demo.cfg).runB Demo.cfg DemoB.sha (OOp.erase DemoO.ops)).readWithOpt Demo.cfg k (some m) :=
  (((end_to_end_offload_transparent DemoB.ok DemoO.ops DemoO.ops_ok DemoO.store_idx_sized).2.1 k).1 (some m)
    (by intro x hx; cases hx; exact hm))

example (k : Key) : DemoO.s.readWithOpt Demo.cfg k none =
    .ok ((Spec.latest ((Store.init true).run ((OOp.erase DemoO.ops).map MOp.abs)).history k).map
      (fun p => dataOf p.r.data)) :=
  ((end_to_end_offload_transparent DemoB.ok DemoO.ops DemoO.ops_ok DemoO.store_idx_sized).2.2 k).1

example : CInvO Demo.cfg ((CState.init Demo.cfg).runO Demo.cfg DemoO.ops) :=
  (refinement_offload_run Demo.cfg_ok DemoO.ops DemoO.ops_ok DemoO.store_idx_sized.toStoreSized).2

-- evaluated: start-up WITH the index file of blob 0 after the off-loading: the filter is re-read from the file (nothing
-- is off-loaded any more); it is off-loaded again and still answers
set_option maxRecDepth 1000000 in
example :
    let dir : Nat → Option (List Nat) := fun i =>
      if i = 0 then dumpedImage Demo.cfg DemoB.sha [⟨1, 5, false, none, ⟨2, 1⟩⟩, ⟨5, 6, false, some [4], ⟨1, 2⟩⟩] else none
    (DemoO.s.restartWithIndexes Demo.cfg DemoB.sha dir true).map
      (fun b => (b.blobs.map (fun x => (x.id, x.index.onDisk, x.filter.isOffloaded)),
        (b.offloadBuffer Demo.cfg 1000 1).1.readWithOpt Demo.cfg 5 (some (some [4]))))
      = some ([(0, true, false), (1, true, false)], .ok (.found [2])) := by
  decide +kernel

set_option maxRecDepth 1000000 in
/-- **the `bloom_offset` matters** (the 8-byte length prefix of the range filter): blob 0 of `DemoO` on the structured
    storage, filter off-loaded.  Probing at `bloom_offset` passes keys 1 and 5; probing 8 bytes too early
    (`bloom_offset` without the length prefix) or 8 bytes too late answers `NotContains` for keys the blob HOLDS — a
    lost record.  So `deserialize_filters` must return exactly `8 + range_size`, which is what
    `openIndex_current` / `reread_filters_probe_same_bits` prove it does. -/
theorem bloom_offset_matters :
    (((CState.init Demo.cfg).runO Demo.cfg DemoO.ops).blobs.head?.map (fun b =>
      match b.index with
      | .disk _ mb off =>
        (off, b.filter.isOffloaded,
          [b.filter.contains Demo.cfg.h (metaReadByte mb off) 1, b.filter.contains Demo.cfg.h (metaReadByte mb off) 5,
           b.filter.contains Demo.cfg.h (metaReadByte mb (off - 8)) 1,
           b.filter.contains Demo.cfg.h (metaReadByte mb (off - 8)) 5,
           b.filter.contains Demo.cfg.h (metaReadByte mb (off + 8)) 1])
      | .mem _ => (0, false, [])))
    = some (27, true, [.needAdditionalCheck, .needAdditionalCheck, .notContains, .notContains, .notContains]) := by
  decide +kernel

-- the directory, evaluated on `DemoM.ops` (blob 0 dumped after three records, then re-loaded by a delete that appends a
-- marker): the file of blob 0 is the STALE image; after a (real) restart it is the current one; nothing lies next to
-- the active blob; and the storage is the one of the model
set_option maxRecDepth 1000000 in
example :
    let ops : List OOp := DemoM.ops.map OOp.op
    let st := runD Demo.cfg DemoB.sha (BState.init Demo.cfg, fun _ => none) ops
    let st' := runD Demo.cfg DemoB.sha (BState.init Demo.cfg, fun _ => none) (ops ++ [.op (.restart false)])
    st.2 0 = dumpedImage Demo.cfg DemoB.sha (DemoS.recs0.take 3) ∧ (st.2 0).isSome = true ∧ st.2 1 = none ∧
    st.1.blobs.map (fun b => (b.id, b.index.onDisk)) = [(0, false), (1, false)] ∧
    st'.2 0 = dumpedImage Demo.cfg DemoB.sha DemoS.recs0 ∧ st'.2 0 ≠ st.2 0 ∧ st'.2 1 = none ∧
    st'.1.blobs.map (fun b => (b.id, b.index.onDisk)) = [(0, true), (1, false)] ∧
    st'.1.readWithOpt Demo.cfg 2 none = .ok (.deleted 9) := by
  refine ⟨?_, ?_, ?_, ?_, ?_, ?_, ?_, ?_, ?_⟩ <;> decide +kernel

example : ∃ dir', runD Demo.cfg DemoB.sha (BState.init Demo.cfg, fun _ => none) DemoO.ops = (DemoO.s, dir') :=
  let ⟨d, h, _⟩ := end_to_end_real_directory DemoB.ok DemoO.ops DemoO.ops_ok DemoO.store_idx_sized
  ⟨d, h⟩

end Pearl.E2E

#print axioms Pearl.E2E.end_to_end_real_directory
#print axioms Pearl.E2E.bloom_offset_matters
#print axioms Pearl.E2E.refinement_offload
#print axioms Pearl.E2E.refinement_offload_run
#print axioms Pearl.E2E.offload_reads_of_inv
#print axioms Pearl.E2E.end_to_end_offload_transparent
#print axioms Pearl.E2E.end_to_end_offload_transparent_structured
#print axioms Pearl.E2E.end_to_end_offload_then_restart_with_indexes
#print axioms Pearl.E2E.reread_filters_probe_same_bits

namespace Pearl.E2E
open Pearl Pearl.BPTree Pearl.Container

/-! # Extension: sessions with DIFFERENT bloom configurations on one directory (C10 / C17)

Model: `Pearl/Model/EndToEndCfg.lean` (`XState`: the storage with the configuration of the running session;
`restartWith bloom lazy`: close + `init` under a configuration that differs in `bloom_config`: other element count,
hasher count, bit count, or no bloom filter; index files are kept and their filters read back WITH THE GEOMETRY THEY
WERE WRITTEN WITH, other blobs are regenerated with a filter of the new configuration, the container is rebuilt with
`push` = `merge_filters`).  Lemmas: `Pearl/Proofs/EndToEndCfg{Blob,Steps,Restart,Run,Merge}.lean`.

The invariant (`MC.CInvC` over `MC.BlobInvC`) is the invariant `CInv` with the equation `b.filter = filterOf cfg b.ghost`
replaced by the properties C10 needs of a filter — well-formed, covering every key of the blob, resident — for ANY
geometry; it does not mention the bloom configuration (`MC.CInvC.withBloom`), and `CInv` is an instance
(`MC.CInvC.ofCInv`). -/

/-- refinement along every history of sessions: the L2 history (a `restartWith` is the L2 `restart`) and the
    invariant under the configuration running at the end -/
theorem refinement_cfgs {cfg : Cfg} (hcfg : cfg.OK) (ops : List XOp) (hops : ∀ op ∈ ops, op.OK cfg)
    (hsz : StoreSized cfg.klen ((Store.init cfg.allowDup).run (ops.map XOp.abs))) :
    ((XState.init cfg).run ops).abs = (Store.init cfg.allowDup).run (ops.map XOp.abs) ∧
      MC.CInvC ((XState.init cfg).run ops).cfg ((XState.init cfg).run ops).st ∧
      ((XState.init cfg).run ops).cfg = cfg.withBloom (((XOp.blooms ops).getLast?).getD cfg.bloom) := by
  obtain ⟨h1, h2⟩ := MC.xrun_ref hcfg ops hops hsz
  exact ⟨h1, h2.inv, MC.xrun_cfg cfg ops (XState.init cfg) ⟨cfg.bloom, rfl⟩⟩

/-- in any state satisfying the configuration-independent invariant the read path answers per `Spec` -/
theorem read_of_inv_cfgs {cfg : Cfg} (hcfg : cfg.OK) (c : CState) (hinv : MC.CInvC cfg c) (k : Key) :
    c.read cfg k = .ok ((Spec.latest (c.abs cfg).history k).map (fun p => dataOf p.r.data)) ∧
    c.contains cfg k = .ok ((Spec.latest (c.abs cfg).history k).map (·.r.ts)) := by
  refine ⟨?_, ?_⟩
  · rw [MC.read_eq hcfg hinv k, read_eq_spec hinv.wf k, ReadResult.map_map]
  · rw [MC.contains_eq hcfg hinv k, contains_eq_spec hinv.wf k]

/-- **`end_to_end_read_cfgs`**: for every history from the empty storage with ANY number of `restartWith` steps —
    any sequence of bloom configurations, including bloom off / on — and every key, the concrete read of the running
    session (active blob, `iter_possible_childs_rev` with the node filters the start-ups merged, per blob
    `check_filter` with the filter the blob has — of whatever geometry —, index look-up, `Entry::load`) returns
    without error exactly what `Spec.latest` of the L2 history says. -/
theorem end_to_end_read_cfgs {cfg : Cfg} (hcfg : cfg.OK) (ops : List XOp) (hops : ∀ op ∈ ops, op.OK cfg)
    (hsz : StoreSized cfg.klen ((Store.init cfg.allowDup).run (ops.map XOp.abs))) (k : Key) :
    ((XState.init cfg).run ops).read k =
      .ok ((Spec.latest ((Store.init cfg.allowDup).run (ops.map XOp.abs)).history k).map
        (fun p => dataOf p.r.data)) ∧
    ((XState.init cfg).run ops).contains k =
      .ok ((Spec.latest ((Store.init cfg.allowDup).run (ops.map XOp.abs)).history k).map (·.r.ts)) := by
  obtain ⟨habs, hx⟩ := MC.xrun_ref hcfg ops hops hsz
  have := read_of_inv_cfgs hx.ok _ hx.inv k
  unfold XState.abs at habs
  rw [habs] at this
  exact this

/-- the record served is a record of the history: the answers classify exactly -/
theorem end_to_end_read_cfgs_cases {cfg : Cfg} (hcfg : cfg.OK) (ops : List XOp) (hops : ∀ op ∈ ops, op.OK cfg)
    (hsz : StoreSized cfg.klen ((Store.init cfg.allowDup).run (ops.map XOp.abs))) (k : Key) :
    let h := ((Store.init cfg.allowDup).run (ops.map XOp.abs)).history
    (∀ p, Spec.latest h k = .found p → ((XState.init cfg).run ops).read k = .ok (.found (dataOf p.r.data))) ∧
    (∀ ts, Spec.latest h k = .deleted ts → ((XState.init cfg).run ops).read k = .ok (.deleted ts)) ∧
    (Spec.latest h k = .notFound → ((XState.init cfg).run ops).read k = .ok .notFound) := by
  intro h
  have := (end_to_end_read_cfgs hcfg ops hops hsz k).1
  refine ⟨fun p hp => ?_, fun ts hp => ?_, fun hp => ?_⟩ <;> rw [this, hp] <;> rfl

/-- a start-up under another configuration changes no answer -/
theorem restart_with_config_of_inv {cfg : Cfg} (hcfg : cfg.OK) (c : CState) (hinv : MC.CInvC cfg c)
    (bloom : Option (BloomConfig × Nat)) (hbl : BloomOK bloom) (lazy : Bool) (k : Key) :
    (c.restartWith (cfg.withBloom bloom) lazy).read (cfg.withBloom bloom) k = c.read cfg k ∧
    (c.restartWith (cfg.withBloom bloom) lazy).contains (cfg.withBloom bloom) k = c.contains cfg k ∧
    MC.CInvC (cfg.withBloom bloom) (c.restartWith (cfg.withBloom bloom) lazy) := by
  have hok' := hcfg.withBloom hbl
  obtain ⟨habs, hinv'⟩ := MC.restartWith_ref hok' (hinv.withBloom bloom) lazy
  have hans := restart_answers hinv.wf lazy k
  have habs' : (c.restartWith (cfg.withBloom bloom) lazy).abs (cfg.withBloom bloom) = (c.abs cfg).restart lazy := habs
  refine ⟨?_, ?_, hinv'⟩
  · rw [MC.read_eq hok' hinv' k, MC.read_eq hcfg hinv k, habs', hans.1]
  · rw [MC.contains_eq hok' hinv' k, MC.contains_eq hcfg hinv k, habs', hans.2.2.1]

/-- **`no_false_negative_across_configs`**: after every history with any number of `restartWith` steps, every
    stored key of every blob (`ghost` = the records of the blob in the L2 history, first conjunct) passes every filter
    consulted on its path: the blob's own `check_filter` (whatever geometry its filter has), and the filter of every
    inner node of the container below which the blob hangs (`None` passes) — so `iter_possible_childs_rev(key)` as
    written yields the blob and the read path consults it. -/
theorem no_false_negative_across_configs {cfg : Cfg} (hcfg : cfg.OK) (ops : List XOp) (hops : ∀ op ∈ ops, op.OK cfg)
    (hsz : StoreSized cfg.klen ((Store.init cfg.allowDup).run (ops.map XOp.abs))) :
    let x := (XState.init cfg).run ops
    ((Store.init cfg.allowDup).run (ops.map XOp.abs)).blobs = x.st.blobs.map CBlob.abs ∧
    (∀ b ∈ x.st.blobs, ∀ r ∈ b.ghost, b.checkFilter x.cfg r.key ≠ .notContains) ∧
    (∀ j lf, x.st.cont.getChild j = some lf → ∀ r ∈ lf.data.ghost,
      (∀ id nd, x.st.cont.getInner id = some (.node nd) →
        j ∈ Container.leavesBelow x.st.cont (x.st.cont.inner.length + 2) id →
        (fops x.cfg).coversOpt nd.filter r.key) ∧
      j ∈ Container.iterPossibleStack (fops x.cfg) x.st.cont true r.key ∧
      lf.data ∈ x.st.consulted x.cfg r.key) := by
  intro x
  obtain ⟨habs, hx⟩ := MC.xrun_ref hcfg ops hops hsz
  have hinv : MC.CInvC x.cfg x.st := hx.inv
  refine ⟨?_, ?_, ?_⟩
  · rw [← habs]; exact abs_blobs x.cfg x.st
  · intro b hb r hr
    exact (CInvG.blobInv hinv hb).checkFilter_no_fn r.key ⟨r, hr, rfl⟩
  · intro j lf hlf r hr
    obtain ⟨g, hci, hcov⟩ := hinv.cont
    have hc := hcov j lf.data (getChild_some_slots hlf) r hr
    have hj := (C10.possible_rev_complete_stack x.st.cont g r.key hci).2.2.2 j lf hlf hc
    refine ⟨?_, hj, ?_⟩
    · intro id nd hn hbelow
      exact Container.node_filter_sup_arena x.st.cont g hci id nd hn j hbelow r.key hc
    · unfold CState.consulted
      apply List.mem_append_right
      exact List.mem_filterMap.mpr ⟨j, hj, by rw [hlf]; rfl⟩

/-! ## (2) the merge rule `no_false_negative_across_configs` rests on -/

/-- **the merge rule** of `Bloom::checked_add_assign` (the model function is `Bloom.merge` of `Filter.lean`, which has
    the guard of the code — no finding): the merge succeeds ONLY for equal hasher count AND equal bit count AND
    neither side off-loaded; a refused merge leaves `self` untouched; the empty bloom (`bits_count = 0`) merges only
    with an empty bloom. -/
theorem bloom_merge_rule (b o : Bloom) (hb : b.WF) (ho : o.WF) :
    ((b.merge o).2 = true ↔ b.k = o.k ∧ b.bits = o.bits ∧ b.isOffloaded = false ∧ o.isOffloaded = false) ∧
    ((b.merge o).2 = false → (b.merge o).1 = b) ∧
    (b.bits = 0 → (b.merge o).2 = true → o.bits = 0) ∧
    (o.bits = 0 → (b.merge o).2 = true → b.bits = 0) :=
  ⟨MC.bloom_merge_succeeds_iff b o hb ho, MC.bloom_merge_refused b o,
    fun hz hm => (MC.bloom_merge_empty_left b o hb ho hz hm).1,
    fun hz hm => (MC.bloom_merge_empty_right b o hb ho hz hm).1⟩

/-- … and of `Inner::merge_filters` over `CombinedFilter::checked_add_assign`: the node filter stays `Some` exactly
    when both filters are there and their bloom parts are both absent or merge by the rule above; **in every other
    case the node becomes `None`** (and then passes every key) — never the stale filter. -/
theorem merge_filters_rule (h : Nat → Key → Nat) (dest source : Option Combined)
    (hd : ∀ d, dest = some d → d.WF) (hs : ∀ s, source = some s → s.WF) :
    ((Container.mergeFilters (combinedOps h) dest source).isSome = true ↔
      ∃ d s, dest = some d ∧ source = some s ∧
        ((d.bloom = none ∧ s.bloom = none) ∨
          ∃ x y, d.bloom = some x ∧ s.bloom = some y ∧
            x.k = y.k ∧ x.bits = y.bits ∧ x.isOffloaded = false ∧ y.isOffloaded = false)) ∧
    (∀ k, (combinedOps h).coversOpt (none : Option Combined) k) := by
  refine ⟨?_, fun _ => trivial⟩
  rw [MC.mergeFilters_isSome_iff]
  constructor
  · rintro ⟨d, s, rfl, rfl, hh⟩
    refine ⟨d, s, rfl, rfl, ?_⟩
    rcases hh with hh | ⟨x, y, hx, hy, hm⟩
    · exact Or.inl hh
    · exact Or.inr ⟨x, y, hx, hy, (MC.bloom_merge_succeeds_iff x y ((hd d rfl).2 x hx) ((hs s rfl).2 y hy)).mp
        ((MC.bloom_merge_true_iff x y).mpr hm)⟩
  · rintro ⟨d, s, rfl, rfl, hh⟩
    refine ⟨d, s, rfl, rfl, ?_⟩
    rcases hh with hh | ⟨x, y, hx, hy, hm⟩
    · exact Or.inl hh
    · exact Or.inr ⟨x, y, hx, hy, (MC.bloom_merge_true_iff x y).mp
        ((MC.bloom_merge_succeeds_iff x y ((hd d rfl).2 x hx) ((hs s rfl).2 y hy)).mpr hm)⟩

/-- what makes the rule sufficient: a merge that succeeds covers what either side covered, a refused one yields
    `None` (the `FilterLaws` instance the container proofs of C10 are run with) -/
theorem merge_filters_sound (h : Nat → Key → Nat) (d s : Option Combined) (hd : ∀ x, d = some x → x.WF)
    (hs : ∀ x, s = some x → x.WF) (k : Key)
    (hk : (combinedOps h).coversOpt d k ∨ (combinedOps h).coversOpt s k) :
    (combinedOps h).coversOpt (Container.mergeFilters (combinedOps h) d s) k :=
  Container.mergeFilters_sup (combinedLaws h) d s hd hs k hk

/-! ## non-vacuity (sessions with different bloom configurations) -/

namespace DemoX

/-- four sessions on one directory: 2 hashers / 100 bits, then 3 hashers / 64 bits, then NO bloom filter, then
    2 hashers / 100 bits again; every session writes one blob, closes and dumps it; the last start-up is not lazy -/
def ops : List XOp :=
  [.op (.write 1 5 ⟨2, 1⟩), .op (.write 2 6 ⟨1, 2⟩), .op .closeActive, .op .settle,
   .restartWith (some (⟨10, 3, 64, 1, 0⟩, 64)) true,
   .op (.write 3 7 ⟨1, 3⟩), .op .closeActive, .op .settle,
   .restartWith none true,
   .op (.write 4 8 ⟨1, 4⟩), .op .closeActive, .op .settle,
   .restartWith (some (⟨10, 2, 100, 1, 0⟩, 100)) false,
   .op (.write 5 9 ⟨1, 5⟩), .op (.delete 2 10 false)]

def x : XState := (XState.init Demo.cfg).run ops

theorem ops_ok : ∀ op ∈ ops, op.OK Demo.cfg := by decide

set_option maxRecDepth 100000 in
theorem ops_sized : StoreSized Demo.cfg.klen ((Store.init Demo.cfg.allowDup).run (ops.map XOp.abs)) := by
  unfold StoreSized; decide

/-- hasher count and bit count of the bloom part of a filter (`none` = no bloom part) -/
def geom (c : Combined) : Option (Nat × Nat) := c.bloom.map (fun b => (b.k, b.bits))

end DemoX

-- the blobs of the last session: three geometries side by side; blob 1 keeps the 3-hasher filter of its index file,
-- blob 0 the one with 2 hashers / 100 bits (the delete of key 2 loaded its index again, with the filter of the
-- file), blob 2 was written by the bloom-less session (the empty bloom in its file) and, being the last blob of a
-- non-lazy start-up, became the active one: `load_index` read the EMPTY bloom back
set_option maxRecDepth 1000000 in
example : DemoX.x.st.blobs.map (fun b => (b.id, b.index.onDisk, DemoX.geom b.filter))
    = [(0, false, some (2, 100)), (1, true, some (3, 64)), (2, false, some (0, 0))] ∧
    DemoX.x.cfg.bloom = some (⟨10, 2, 100, 1, 0⟩, 100) := by decide

-- the node filter above blobs 0 and 1: the merge was refused (2 ≠ 3 hashers), so it is `None`
set_option maxRecDepth 1000000 in
example : (DemoX.x.st.cont.inner.filterMap (fun o => match o with
      | some (.node n) => some (n.filter.map DemoX.geom)
      | _ => none)) = [none, none] := by decide

-- the reads, evaluated: every key written in any session is found, key 2 is deleted, key 6 is absent
set_option maxRecDepth 1000000 in
example : DemoX.x.read 1 = .ok (.found (dataOf ⟨2, 1⟩)) ∧ DemoX.x.read 3 = .ok (.found (dataOf ⟨1, 3⟩)) ∧
    DemoX.x.read 4 = .ok (.found (dataOf ⟨1, 4⟩)) ∧ DemoX.x.read 5 = .ok (.found (dataOf ⟨1, 5⟩)) ∧
    DemoX.x.read 2 = .ok (.deleted 10) ∧ DemoX.x.read 6 = .ok .notFound := by decide

-- … and by the theorems
example (k : Key) : DemoX.x.read k =
    .ok ((Spec.latest ((Store.init true).run (DemoX.ops.map XOp.abs)).history k).map (fun p => dataOf p.r.data)) :=
  (end_to_end_read_cfgs Demo.cfg_ok DemoX.ops DemoX.ops_ok DemoX.ops_sized k).1

example : ∀ b ∈ DemoX.x.st.blobs, ∀ r ∈ b.ghost, b.checkFilter DemoX.x.cfg r.key ≠ .notContains :=
  (no_false_negative_across_configs Demo.cfg_ok DemoX.ops DemoX.ops_ok DemoX.ops_sized).2.1

example : MC.CInvC DemoX.x.cfg DemoX.x.st :=
  (refinement_cfgs Demo.cfg_ok DemoX.ops DemoX.ops_ok DemoX.ops_sized).2.1

-- pruning still happens where the geometries agree: in a two-session history with EQUAL geometry the node filter is
-- kept and prunes key 40
set_option maxRecDepth 1000000 in
example :
    let y := (XState.init Demo.cfg).run
      [.op (.write 1 5 ⟨2, 1⟩), .op .closeActive, .op .settle, .restartWith (some (⟨99, 2, 7, 1, 0⟩, 100)) true,
       .op (.write 3 7 ⟨1, 3⟩), .op .closeActive, .op .settle, .restartWith (some (⟨10, 2, 100, 1, 0⟩, 100)) true]
    (y.st.cont.inner.filterMap (fun o => match o with
      | some (.node n) => some (n.filter.map DemoX.geom)
      | _ => none)) = [some (some (2, 100)), some (some (2, 100))] ∧
    (y.st.consulted y.cfg 40).map (·.id) = [] ∧ (y.st.consulted y.cfg 3).map (·.id) = [1, 0] := by decide

-- the merge rule on concrete filters
example : ((Bloom.new ⟨10, 2, 100, 1, 0⟩ 100).merge (Bloom.new ⟨10, 3, 100, 1, 0⟩ 100)).2 = false ∧
    ((Bloom.new ⟨10, 2, 100, 1, 0⟩ 100).merge (Bloom.new ⟨10, 2, 64, 1, 0⟩ 64)).2 = false ∧
    ((Bloom.new ⟨10, 2, 100, 1, 0⟩ 100).merge Bloom.empty).2 = false ∧
    (Bloom.empty.merge Bloom.empty).2 = true ∧
    ((Bloom.new ⟨10, 2, 100, 1, 0⟩ 100).merge (Bloom.new ⟨77, 2, 5, 9, 3⟩ 100)).2 = true ∧
    ((Bloom.new ⟨10, 2, 100, 1, 0⟩ 100).merge (Bloom.new ⟨10, 2, 100, 1, 0⟩ 100).offload.1).2 = false := by decide

-- the third conjunct of `no_false_negative_across_configs` on the four-session history: blob 1 (3 hashers / 64 bits)
-- sits in slot 1 below the root and one group node; its key 3 passes both and the blob is consulted
set_option maxRecDepth 1000000 in
example : (DemoX.x.st.cont.getChild 1).map (fun lf => (lf.data.id, lf.data.ghost.map (·.key))) = some (1, [3]) ∧
    Container.leavesBelow DemoX.x.st.cont (DemoX.x.st.cont.inner.length + 2) DemoX.x.st.cont.root = [0, 1] ∧
    (DemoX.x.st.consulted DemoX.x.cfg 3).map (·.id) = [2, 1, 0] := by decide

example (lf : FLeaf CBlob) (h : DemoX.x.st.cont.getChild 1 = some lf) (r : Rec) (hr : r ∈ lf.data.ghost) :
    (∀ id nd, DemoX.x.st.cont.getInner id = some (.node nd) →
      1 ∈ Container.leavesBelow DemoX.x.st.cont (DemoX.x.st.cont.inner.length + 2) id →
      (fops DemoX.x.cfg).coversOpt nd.filter r.key) ∧
    lf.data ∈ DemoX.x.st.consulted DemoX.x.cfg r.key :=
  let t := (no_false_negative_across_configs Demo.cfg_ok DemoX.ops DemoX.ops_ok DemoX.ops_sized).2.2 1 lf h r hr
  ⟨t.1, t.2.2⟩

-- a start-up of the single-configuration demo storage under two other configurations, by the theorem
example (k : Key) :
    (Demo.s.restartWith (Demo.cfg.withBloom none) true).read (Demo.cfg.withBloom none) k = Demo.s.read Demo.cfg k ∧
    (Demo.s.restartWith (Demo.cfg.withBloom (some (⟨10, 5, 64, 1, 0⟩, 64))) false).read
      (Demo.cfg.withBloom (some (⟨10, 5, 64, 1, 0⟩, 64))) k = Demo.s.read Demo.cfg k :=
  have hinv := MC.CInvC.ofCInv Demo.cfg_ok (refinement_run Demo.cfg_ok Demo.ops Demo.ops_ok Demo.ops_sized).2
  ⟨(restart_with_config_of_inv Demo.cfg_ok Demo.s hinv none (by decide) true k).1,
    (restart_with_config_of_inv Demo.cfg_ok Demo.s hinv _ (by decide) false k).1⟩

-- the merge rule instantiated: a 2-hasher / 100-bit filter and a 3-hasher / 100-bit filter
example : ((Bloom.new ⟨10, 2, 100, 1, 0⟩ 100).merge (Bloom.new ⟨10, 3, 100, 1, 0⟩ 100)).2 = true ↔
    (2 : Nat) = 3 ∧ (100 : Nat) = 100 ∧ false = false ∧ false = false :=
  (bloom_merge_rule _ _ (Bloom.new_WF _ _) (Bloom.new_WF _ _)).1

example : (Container.mergeFilters (combinedOps Demo.cfg.h)
      (some { bloom := some (Bloom.new ⟨10, 2, 100, 1, 0⟩ 100), range := Range.new })
      (some { bloom := some Bloom.empty, range := Range.new })) = none ∧
    (Container.mergeFilters (combinedOps Demo.cfg.h)
      (some { bloom := some (Bloom.new ⟨10, 2, 100, 1, 0⟩ 100), range := Range.new })
      (some { bloom := none, range := Range.new })) = none ∧
    (Container.mergeFilters (combinedOps Demo.cfg.h)
      (some { bloom := some (Bloom.new ⟨10, 2, 100, 1, 0⟩ 100), range := Range.new })
      (some { bloom := some (Bloom.new ⟨11, 2, 50, 2, 1⟩ 100), range := Range.new })).isSome = true := by decide

/-! ## (3) the three seeded variants of the merge rule, as counter-models

Each variant is a `FilterOps` (`Pearl/Model/EndToEndCfg.lean`) used by the start-up to merge the node filters
(`XState.runOps`); everything else — blobs, index files, read path — is the model of the theorems above.  On a
concrete history of two or three sessions a stored key is filtered out by a node filter: the read answers `NotFound`
for a key `Spec.latest` finds — while the real rule (`XState.run`) on the same history finds it. -/

namespace DemoBad

/-- the L2 answer for key 3 of a history (decidable form) -/
def l2 (ops : List XOp) : ReadResult Rec := ((Store.init true).run (ops.map XOp.abs)).read 3 none

/-- 3 hashers / 100 bits, then 1 hasher / 100 bits: equal bit counts, different hasher counts -/
def cfg3 : Cfg := { Demo.cfg with bloom := some (⟨10, 3, 100, 1, 0⟩, 100) }

def opsHashers : List XOp :=
  [.op (.write 1 5 ⟨2, 1⟩), .op .closeActive, .op .settle,
   .restartWith (some (⟨10, 1, 100, 1, 0⟩, 100)) true,
   .op (.write 3 7 ⟨1, 3⟩),
   .restartWith (some (⟨10, 1, 100, 1, 0⟩, 100)) true]

/-- 2 hashers / 100 bits, then 3 hashers / 64 bits: the merge is refused -/
def opsStale : List XOp :=
  [.op (.write 1 5 ⟨2, 1⟩), .op .closeActive, .op .settle,
   .restartWith (some (⟨10, 3, 64, 1, 0⟩, 64)) true,
   .op (.write 3 7 ⟨1, 3⟩),
   .restartWith (some (⟨10, 3, 64, 1, 0⟩, 64)) true]

/-- 2 hashers / 100 bits, then NO bloom filter (the index file of blob 1 holds `Bloom::empty()`), then 2 / 100 again -/
def opsEmpty : List XOp :=
  [.op (.write 1 5 ⟨2, 1⟩), .op .closeActive, .op .settle,
   .restartWith none true,
   .op (.write 3 7 ⟨1, 3⟩), .op .closeActive, .op .settle,
   .restartWith (some (⟨10, 2, 100, 1, 0⟩, 100)) true]

/-- the node filters of the arena, as geometries -/
def nodes (x : XState) : List (Option (Option (Nat × Nat))) :=
  x.st.cont.inner.filterMap (fun o => match o with
    | some (.node n) => some (n.filter.map DemoX.geom)
    | _ => none)

end DemoBad

set_option maxRecDepth 1000000 in
/-- **seeded variant 1, blooms with different hasher counts merged**: the node filter keeps the 3 hashers of the
    first blob and the bits the 1-hasher blob set; key 3 (stored in blob 1) is probed at 3 positions, 2 of which
    nobody set — filtered out.  The real rule refuses the merge (`None`) and finds the key. -/
theorem seeded_hashers_merged_loses_key :
    let bad := XState.runOps (opsNoHashers Demo.cfg.h) (XState.init DemoBad.cfg3) DemoBad.opsHashers
    let good := (XState.init DemoBad.cfg3).run DemoBad.opsHashers
    DemoBad.l2 DemoBad.opsHashers = .found ⟨3, 7, false, none, ⟨1, 3⟩⟩ ∧
    bad.read 3 = .ok .notFound ∧ DemoBad.nodes bad = [some (some (3, 100)), some (some (3, 100))] ∧
    (bad.st.blobs.map (fun b => (b.id, b.ghost.map (·.key), DemoX.geom b.filter)))
      = [(0, [1], some (3, 100)), (1, [3], some (1, 100))] ∧
    good.read 3 = .ok (.found (dataOf ⟨1, 3⟩)) ∧ DemoBad.nodes good = [none, none] := by decide

set_option maxRecDepth 1000000 in
/-- **seeded variant 2, a refused merge keeping the stale node filter**: the merge of the 3-hasher / 64-bit filter of
    blob 1 into the 2-hasher / 100-bit node filter is refused, the node keeps the bloom part of blob 0 alone; key 3
    is not in it — filtered out.  The real `merge_filters` sets the node to `None`. -/
theorem seeded_stale_node_filter_loses_key :
    let bad := XState.runOps (opsKeepStale Demo.cfg.h) (XState.init Demo.cfg) DemoBad.opsStale
    let good := (XState.init Demo.cfg).run DemoBad.opsStale
    DemoBad.l2 DemoBad.opsStale = .found ⟨3, 7, false, none, ⟨1, 3⟩⟩ ∧
    bad.read 3 = .ok .notFound ∧ DemoBad.nodes bad = [some (some (2, 100)), some (some (2, 100))] ∧
    (bad.st.blobs.map (fun b => (b.id, b.ghost.map (·.key), DemoX.geom b.filter)))
      = [(0, [1], some (2, 100)), (1, [3], some (3, 64))] ∧
    good.read 3 = .ok (.found (dataOf ⟨1, 3⟩)) ∧ DemoBad.nodes good = [none, none] := by decide

set_option maxRecDepth 1000000 in
/-- **seeded variant 3, the empty bloom treated as mergeable**: blob 1 was written by the bloom-less session, its
    index file holds `Bloom::empty()`; the session with a bloom filter reads it back (`bits_count = 0`, no hashers),
    the merge into the node filter "succeeds" without adding anything; key 3 is not in the node's bloom — filtered
    out.  The real rule refuses (0 ≠ 2 hashers) and the node becomes `None`. -/
theorem seeded_empty_bloom_merged_loses_key :
    let bad := XState.runOps (opsEmptyOk Demo.cfg.h) (XState.init Demo.cfg) DemoBad.opsEmpty
    let good := (XState.init Demo.cfg).run DemoBad.opsEmpty
    DemoBad.l2 DemoBad.opsEmpty = .found ⟨3, 7, false, none, ⟨1, 3⟩⟩ ∧
    bad.read 3 = .ok .notFound ∧ DemoBad.nodes bad = [some (some (2, 100)), some (some (2, 100))] ∧
    (bad.st.blobs.map (fun b => (b.id, b.ghost.map (·.key), DemoX.geom b.filter)))
      = [(0, [1], some (2, 100)), (1, [3], some (0, 0))] ∧
    good.read 3 = .ok (.found (dataOf ⟨1, 3⟩)) ∧ DemoBad.nodes good = [none, none] := by decide

/-- the variants differ from the real rule exactly where the rule refuses: on filters the rule merges, `mergeVia` over
    the real bloom merge is the real `checked_add_assign` -/
theorem merge_via_real (c o : Combined) : Combined.mergeVia Bloom.merge c o = c.merge o := MC.mergeVia_merge c o

-- the three refusals the variants drop, on the filters of the counter-models
example :
    ((Bloom.new ⟨10, 3, 100, 1, 0⟩ 100).merge (Bloom.new ⟨10, 1, 100, 1, 0⟩ 100)).2 = false ∧
    (Bloom.mergeNoHashers (Bloom.new ⟨10, 3, 100, 1, 0⟩ 100) (Bloom.new ⟨10, 1, 100, 1, 0⟩ 100)).2 = true ∧
    ((Bloom.new ⟨10, 2, 100, 1, 0⟩ 100).merge Bloom.empty).2 = false ∧
    (Bloom.mergeEmptyOk (Bloom.new ⟨10, 2, 100, 1, 0⟩ 100) Bloom.empty).2 = true := by decide

end Pearl.E2E

#print axioms Pearl.E2E.refinement_cfgs
#print axioms Pearl.E2E.read_of_inv_cfgs
#print axioms Pearl.E2E.end_to_end_read_cfgs
#print axioms Pearl.E2E.end_to_end_read_cfgs_cases
#print axioms Pearl.E2E.restart_with_config_of_inv
#print axioms Pearl.E2E.no_false_negative_across_configs
#print axioms Pearl.E2E.bloom_merge_rule
#print axioms Pearl.E2E.merge_filters_rule
#print axioms Pearl.E2E.merge_filters_sound
#print axioms Pearl.E2E.seeded_hashers_merged_loses_key
#print axioms Pearl.E2E.seeded_stale_node_filter_loses_key
#print axioms Pearl.E2E.seeded_empty_bloom_merged_loses_key
#print axioms Pearl.E2E.merge_via_real

/-
NOT YET PROVED
* concurrency: the concrete operations are sequential (the read-side LTS of C08 is not composed with the bytes);
* byte level of the index file (section (8)): SHA-256 is not modelled — `hash` is an uninterpreted 32-byte field, so
  the check `hash_valid` of `get_records_headers` is the one step of the index code that `BIdx.load` does not perform;
  `BIdx` re-reads header, tree meta and root node with `from_file` at every access instead of caching them in the
  struct (the cached values are what `from_file` reads);
* the input-level size condition `StoreIdxSized` is sufficient, not necessary (it bounds the index file by three
  times the blob file; the exact condition is `IdxSized`, used by `end_to_end_read_bytes`);
* the meta maps have at most one entry (as in the L5 model); `Meta` equality of `filter_entries` is equality of the
  deserialised entry lists, which coincides with `HashMap` equality only for such maps;
* start-up WITH index files (`end_to_end_restart_with_indexes`):
  - the directory of index files is an argument of `restartWithIndexes` and the theorem quantifies over every choice
    of absent / current / stale / rejected files per blob; `end_to_end_real_directory` proves that the directory a
    history itself leaves behind (`runD`: dumps write files, nothing removes one) is always absent / current / stale.
    External damage between close and `init` is the quantified case (iii); a crash in the middle of a dump
    (`written` bit clear, truncated) is C03b `damage_never_accepted`, i.e. rejected, i.e. case (iii);
  - case (iv), accepted bytes that are not an image of the records, is outside the theorem: what the validation
    checks is `accepted_index_checked_fields`, and `accepted_but_wrong_index` is a one-byte change inside a record
    header that passes it and loses a record (the boundary of C03; C03b `accepted_is_faithful_general_false`).  For the
    LAST blob with `lazy = false` the Rust code calls `load_index`, whose hash check would catch it and regenerate;
    `loadIndexOrRegenB` has that fallback but, the hash being uninterpreted, never takes it for this reason;
  - FINDING `restart_with_indexes_fails_on_empty_blob`: a rejected index file next to a blob file that holds the
    header only makes `Blob::from_file` fail (the storage then quarantines or reports the blob; that path —
    `should_save_corrupted_blob`, `ignore_corrupted` — is not modelled here, `restartWithIndexes` answers `none`);
  - FINDING `index_with_short_filter_section_panics`: a file that passes the header checks but whose filter section
    is shorter than its own length prefix makes `deserialize_filters` panic (`split_at`) instead of being rejected;
  - `bloom_is_on` (or the bloom geometry) changing between the dump and the start-up is not covered by the BYTE-level
    theorems of this section (the configuration is the same before and after); it is covered at the level of the
    structured index file by the extension "sessions with different bloom configurations" (`end_to_end_read_cfgs`);
* bloom off-loading (`end_to_end_offload_transparent`): the `freed` count returned by `offload_buffer` is modelled
  (`offloadBuffer … .2`, equal at both levels: `offloadBuffer_toB`) but nothing is proved about its value;
  `filter_memory_allocated` is not composed.
* sessions with different bloom configurations (`end_to_end_read_cfgs`, `no_false_negative_across_configs`):
  - stated on the structured storage `CState` (index file = B+tree image + filter section `metaBuf`), not on the bytes
    of the index file (`BState`), and without metadata / `read_all` / bloom off-loading: the operations of a session
    are `COp`; the merge rule is proved also for off-loaded sides (`bloom_merge_rule`), but no off-loading operation
    occurs in the multi-configuration histories;
  - "the index file of a blob exists" is identified with "the index of the blob is on disk when the storage is closed";
    a blob whose index is in memory at that moment is regenerated with the NEW configuration.  The remaining real case —
    an index file left by an earlier dump next to a blob that was loaded again and NOT written since (e.g.
    `restore_active_blob` directly followed by a restart) is accepted by the code and keeps the OLD geometry — is not
    a separate case of `reopen`; the invariant `MC.BlobInvC` is indifferent to the geometry and `MC.restartG_ref` proves
    the start-up theorem for ANY per-blob reopening function that keeps id, records and `MC.BlobInvC` (so also for one
    that keeps the old filter there), but that reopening function is not in the model;
  - only `bloom_config` changes between sessions: `K::LEN` (the code rejects index files of another key size),
    `bloom_filter_group_size`, `allow_duplicates`, `validate_data_during_index_regen` stay; the hash family is the
    parameter `Cfg.h`, the same for all sessions (hasher `j` is `AHasher::new_with_keys(j+1, j+2)` in every
    configuration);
  - the three seeded variants are refuted on concrete histories (`seeded_*_loses_key`, by evaluation); that EVERY
    weakening of the guard loses a key on some history is not a theorem;
  - `bits_count` of a configuration is an input (`Cfg.bloom : Option (BloomConfig × Nat)`), as everywhere in the
    model (the `f64` formula is not modelled); the theorems hold for every value, so also for the one the formula
    yields.
-/
