import Pearl.Proofs.EndToEndSteps
import Pearl.Proofs.FsLemmas
import Pearl.Proofs.EndToEndGhost
import Pearl.Proofs.EndToEndMetaRun
import Pearl.Proofs.EndToEndMetaReadAll
import Pearl.Proofs.EndToEndMetaBytesStore
import Pearl.Proofs.EndToEndMetaBytesSize
import Pearl.Proofs.EndToEndMetaGhost
/-
End-to-end read path: the composition of C01 (rank order / `prune_transparent`), C10 (filters and the
hierarchical container never give a false negative), C09 (look-ups through the B+tree file image equal look-ups
in the in-memory vector) and C05 (a record read back from the blob bytes is the record that was written).

Model: `Pearl/Model/EndToEnd.lean` — a concrete storage in which every blob carries its file bytes (L5), its
index in memory or as the L4 file image, its `CombinedFilter` (L3), the closed blobs sitting in the arena
container; operations and the read path are written with the layer functions only.
Lemmas: `Pearl/Proofs/EndToEnd{Index,Blob,BlobOps,Cont,Lemmas,Steps,Ghost}.lean`.

No layer interface is left as a hypothesis.  What remains are range side-conditions on the *inputs*:
* `Cfg.OK`      : `K::LEN ≤ 2032` (C09 `valid_real`), `group_size > 0` (C10 `push_total`), bloom parameters fit
                  their `u64` wire fields (C10 `filters_roundtrip`);
* `COp.OK`      : keys `< 256^K::LEN`, timestamps `< 2^64` (C05 `parse_ser_header`, needed: see `key_range_needed`);
* `StoreSized`  : every blob of the final L2 history has an L5 image shorter than `2^64` bytes
                  (C05 `load_roundtrip`); blobs only grow (`C01.apply_log`), so it holds on the way.

Design decisions / findings (also in the report):
* `Store.closeActive` (L2) and `Inner::close_active_blob` do NOT dump; the dump is `try_dump_old_blob_indexes`
  (`settle`).  The concrete operations mirror the L2 operations one to one, so "close + dump" is
  `[.closeActive, .settle]` (as in the non-vacuity example).
* `C10.check_filter_no_fn` is stated for `Container Combined FBlob` only; the storage keeps whole blobs in the
  container.  It is re-derived here for children of any type from its two ingredients, which are generic
  (`C10.possible_rev_complete_stack`, `C10.blob_check_filter_no_fn` on the projection `CBlob.toF`).
* `C05.load_roundtrip_scan_partial` needs a non-empty blob; `Blob::from_file` provides exactly that (it scans only
  when `size > header_size`), see `regen`.
* the L2 record (`Rec`, value = `(len, seed)`) cannot be recovered from bytes, so the abstraction function reads a
  history variable `CBlob.ghost`; no concrete operation and no part of the read path reads it — proved for
  arbitrary states, without the invariant (`ghost_not_read`, `ghost_not_read_by_ops`).
* L4 is generic in the header type (`Keyed H`) but had no instance for the L5 header `RecHeader`, and the L1
  insertion `push` exists for `Rec` only; `Pearl/Model/EndToEnd.lean` adds `hdrKey` / `vecPush` (the same
  transcription, generic in the element type) and `EndToEndIndex.lean` proves it is the stable insertion `ins`.
* `C01.prune_transparent` takes a predicate on L2 blobs, while the container prunes by slot; the predicate used is
  "the blob is not among the consulted ones that pass `check_filter`", which needs blob ids to be distinct
  (`Store.WF`).
Left out: metadata (`read_with`), bloom off-loading.
-/
namespace Pearl.E2E
open Pearl Pearl.BPTree Pearl.Container

/-! ## (1) abstraction, invariant, refinement -/

/-- what the invariant says about one blob: the file is the L5 image of the records (each written with the L5
    writer at the current end of file) and is shorter than `2^64`; the index is the map of the headers the writes
    pushed — in memory, or as the L4 file image the serializer builds from that map, next to the serialized
    filter; the filter is the fold of `add` over the keys and covers every key of the records -/
theorem invariant_blob {cfg : Cfg} {c : CState} (hinv : CInv cfg c) (b : CBlob) (hb : b ∈ c.blobs) :
    b.file = blobBytes cfg.klen (b.ghost.map (fun r => (r, dataOf r.data))) ∧
    b.file.length < 2 ^ 64 ∧
    (match b.index with
      | .mem m => m = indexOf (blobHeaders cfg.klen (b.ghost.map (fun r => (r, dataOf r.data))))
      | .disk f metaBuf off =>
        serializeFilters cfg.klen b.filter = some (metaBuf, off) ∧
        f = build (Params.real cfg.klen) metaBuf.length
          (indexOf (blobHeaders cfg.klen (b.ghost.map (fun r => (r, dataOf r.data)))))) ∧
    b.filter = (b.ghost.map (·.key)).foldl (Combined.add cfg.h) (newFilter cfg) ∧
    (∀ r ∈ b.ghost, b.filter.containsFast cfg.h r.key ≠ .notContains) ∧
    (∀ r ∈ b.ghost, b.checkFilter cfg r.key ≠ .notContains) := by
  have h : BlobInv cfg b := CInvG.blobInv hinv hb
  refine ⟨h.file, h.size, ?_, h.filter, fun r hr => h.filter_covers r hr,
    fun r hr => h.checkFilter_no_fn r.key ⟨r, hr, rfl⟩⟩
  have hi := h.index
  unfold IndexInv at hi
  cases hidx : b.index with
  | mem m => rw [hidx] at hi; exact hi
  | disk f mb off => rw [hidx] at hi; exact ⟨hi.2.1, hi.2.2⟩

/-- … and about the container: `Container.Inv` for some list `g` of push-time filters, each of which covers
    every key of the blob in its slot -/
theorem invariant_container {cfg : Cfg} {c : CState} (hinv : CInv cfg c) :
    ∃ g, Container.Inv (fops cfg) Combined.WF c.cont g ∧
      ∀ j lf, c.cont.getChild j = some lf → ∀ r ∈ lf.data.ghost, (fops cfg).coversOpt (g.getD j none) r.key := by
  obtain ⟨g, h1, h2⟩ := hinv.cont
  exact ⟨g, h1, fun j lf hlf r hr => h2 j lf.data (getChild_some_slots hlf) r hr⟩

/-- the invariant holds initially … -/
theorem invariant_init {cfg : Cfg} (hcfg : cfg.OK) :
    CInv cfg (CState.init cfg) ∧ (CState.init cfg).abs cfg = Store.init cfg.allowDup :=
  ⟨init_inv hcfg, init_abs cfg⟩

/-- … and **every concrete operation commutes with the abstraction function** and keeps the invariant
    (`abs (cstep c op) = (abs c).apply op'`) -/
theorem refinement {cfg : Cfg} (hcfg : cfg.OK) (c : CState) (hinv : CInv cfg c) (op : COp) (hop : op.OK cfg)
    (hsz : StoreSized cfg.klen ((c.abs cfg).apply op.abs)) :
    (c.step cfg op).abs cfg = (c.abs cfg).apply op.abs ∧ CInv cfg (c.step cfg op) :=
  step_ref hcfg hinv op hop hsz

/-- the commutation needs no size condition at all (the size condition is only needed to keep the invariant) -/
theorem refinement_abs {cfg : Cfg} (hcfg : cfg.OK) (c : CState) (hinv : CInv cfg c) (op : COp) (hop : op.OK cfg) :
    (c.step cfg op).abs cfg = (c.abs cfg).apply op.abs :=
  (step_ref0 hcfg hinv op hop).1

/-- `delete` also returns the number the L2 operation returns (the number of blobs marked) -/
theorem refinement_delete_count {cfg : Cfg} (hcfg : cfg.OK) (c : CState) (hinv : CInv cfg c) (k : Key) (ts : Nat)
    (oip : Bool) (hk : k < 256 ^ cfg.klen) (hts : ts < 2 ^ 64) :
    (c.delete cfg k ts oip).2 = ((c.abs cfg).delete k ts none oip).2 :=
  delete_count hcfg hinv k ts oip hk hts

/-- along every history from the empty storage -/
theorem refinement_run {cfg : Cfg} (hcfg : cfg.OK) (ops : List COp) (hops : ∀ op ∈ ops, op.OK cfg)
    (hsz : StoreSized cfg.klen ((Store.init cfg.allowDup).run (ops.map COp.abs))) :
    ((CState.init cfg).run cfg ops).abs cfg = (Store.init cfg.allowDup).run (ops.map COp.abs) ∧
      CInv cfg ((CState.init cfg).run cfg ops) :=
  run_ref hcfg ops hops hsz

/-- the size side-condition in arithmetic form: per blob of the L2 state,
    `20 + Σ (57 + K::LEN + |meta| + data length) < 2^64` (`Fs.contentLen`, the file length of C12) -/
theorem storeSized_iff (klen : Nat) (s : Store) :
    StoreSized klen s ↔ ∀ b ∈ s.blobs, Fs.contentLen klen b.recs < 2 ^ 64 := by
  have h : ∀ b : Blob, (blobBytes klen (full b.recs)).length = Fs.contentLen klen b.recs :=
    fun b => Fs.content_length klen b
  unfold StoreSized
  constructor
  · intro hs b hb; rw [← h]; exact hs b hb
  · intro hs b hb; rw [h]; exact hs b hb

/-- "close + dump" is the two-operation history `[closeActive, settle]`: `Inner::close_active_blob` pushes the
    blob into the container, `try_dump_old_blob_indexes` (sent right after by the observer) dumps the indexes -/
theorem close_and_dump {cfg : Cfg} (c : CState) (hinv : CInv cfg c) :
    ((c.step cfg .closeActive).step cfg .settle).abs cfg = ((c.abs cfg).apply .closeActive).apply .settle ∧
      CInv cfg ((c.step cfg .closeActive).step cfg .settle) := by
  obtain ⟨h1, i1⟩ := closeActive_ref hinv
  obtain ⟨h2, i2⟩ := settle_ref i1
  exact ⟨by rw [h2, h1], i2⟩

/-- the corollary of C10 that composes (`C10.check_filter_no_fn_stack` is stated for containers of `FBlob`s
    only): in a reachable storage a closed blob that holds `k` is yielded by `iter_possible_childs_rev(k)` as
    written, and its own `check_filter(k)` does not answer `NotContains` — the hypothesis of
    `C01.prune_transparent` -/
theorem closed_blob_never_pruned {cfg : Cfg} {c : CState} (hinv : CInv cfg c) (j : Nat) (lf : FLeaf CBlob)
    (hj : c.cont.getChild j = some lf) (k : Key) (hk : ∃ r ∈ lf.data.ghost, r.key = k) :
    j ∈ Container.iterPossibleStack (fops cfg) c.cont true k ∧ lf.data.checkFilter cfg k ≠ .notContains := by
  obtain ⟨g, hci, hcov⟩ := invariant_container hinv
  obtain ⟨r, hr, rfl⟩ := hk
  refine ⟨(C10.possible_rev_complete_stack c.cont g r.key hci).2.2.2 j lf hj (hcov j lf hj r hr), ?_⟩
  exact (hinv.closed lf.data (List.mem_of_getElem? (getChild_some_slots hj))).checkFilter_no_fn r.key ⟨r, hr, rfl⟩

/-- the history variable is not read by the read path: for ANY state, erasing every `ghost` changes no answer -/
theorem ghost_not_read (cfg : Cfg) (c : CState) (k : Key) :
    c.eraseGhost.read cfg k = c.read cfg k ∧ c.eraseGhost.contains cfg k = c.contains cfg k :=
  read_ghost_irrelevant cfg c k

/-- … nor by any operation: for ANY state and operation, the physical part (files, indexes, filters, container) of
    the next state is a function of the physical part of the current state; hence the answers after any history
    depend on the physical part of the starting state only.  `ghost` is pure instrumentation. -/
theorem ghost_not_read_by_ops (cfg : Cfg) (c : CState) (op : COp) :
    (c.step cfg op).eraseGhost = (c.eraseGhost.step cfg op).eraseGhost ∧
    ∀ (c' : CState), c.eraseGhost = c'.eraseGhost → ∀ (ops : List COp) (k : Key),
      (c.run cfg ops).read cfg k = (c'.run cfg ops).read cfg k :=
  ⟨step_eraseGhost cfg c op, fun c' h ops k => (run_read_phys cfg c c' h ops k).1⟩

/-! ## (2), (3) the read path -/

/-- in any state satisfying the invariant: no error, and the L2 answer with the bytes of its value -/
theorem read_of_inv {cfg : Cfg} (hcfg : cfg.OK) (c : CState) (hinv : CInv cfg c) (k : Key) :
    c.read cfg k = .ok ((Spec.latest (c.abs cfg).history k).map (fun p => dataOf p.r.data)) ∧
    c.contains cfg k = .ok ((Spec.latest (c.abs cfg).history k).map (·.r.ts)) := by
  refine ⟨?_, ?_⟩
  · rw [read_eq hcfg hinv k, read_eq_spec hinv.wf k, ReadResult.map_map]
  · rw [contains_eq hcfg hinv k, contains_eq_spec hinv.wf k]

/-- **`end_to_end_read`**: for every history of concrete operations from the empty storage and every key, the
    concrete read — active blob, then `iter_possible_childs_rev` over the container with filter pruning at group
    and blob level, per blob `check_filter` and the index look-up (vector or file image), `ReadResult::latest`
    across blobs, then `Entry::load` of the winner with header and data checksum validation — returns without
    error `Found bytes` with the bytes of the first-ranked record of the key, `Deleted ts`, or `NotFound`,
    exactly as `Spec.latest` of the history says. -/
theorem end_to_end_read {cfg : Cfg} (hcfg : cfg.OK) (ops : List COp) (hops : ∀ op ∈ ops, op.OK cfg)
    (hsz : StoreSized cfg.klen ((Store.init cfg.allowDup).run (ops.map COp.abs))) (k : Key) :
    ((CState.init cfg).run cfg ops).read cfg k =
      .ok ((Spec.latest ((Store.init cfg.allowDup).run (ops.map COp.abs)).history k).map
        (fun p => dataOf p.r.data)) := by
  obtain ⟨habs, hinv⟩ := run_ref hcfg ops hops hsz
  rw [(read_of_inv hcfg _ hinv k).1, habs]

/-- **`end_to_end_contains`** -/
theorem end_to_end_contains {cfg : Cfg} (hcfg : cfg.OK) (ops : List COp) (hops : ∀ op ∈ ops, op.OK cfg)
    (hsz : StoreSized cfg.klen ((Store.init cfg.allowDup).run (ops.map COp.abs))) (k : Key) :
    ((CState.init cfg).run cfg ops).contains cfg k =
      .ok ((Spec.latest ((Store.init cfg.allowDup).run (ops.map COp.abs)).history k).map (·.r.ts)) := by
  obtain ⟨habs, hinv⟩ := run_ref hcfg ops hops hsz
  rw [(read_of_inv hcfg _ hinv k).2, habs]

/-- the record served is a record of the history: the answers classify exactly -/
theorem end_to_end_read_cases {cfg : Cfg} (hcfg : cfg.OK) (ops : List COp) (hops : ∀ op ∈ ops, op.OK cfg)
    (hsz : StoreSized cfg.klen ((Store.init cfg.allowDup).run (ops.map COp.abs))) (k : Key) :
    let h := ((Store.init cfg.allowDup).run (ops.map COp.abs)).history
    (∀ p, Spec.latest h k = .found p → ((CState.init cfg).run cfg ops).read cfg k = .ok (.found (dataOf p.r.data))) ∧
    (∀ ts, Spec.latest h k = .deleted ts → ((CState.init cfg).run cfg ops).read cfg k = .ok (.deleted ts)) ∧
    (Spec.latest h k = .notFound → ((CState.init cfg).run cfg ops).read cfg k = .ok .notFound) := by
  intro h
  have := end_to_end_read hcfg ops hops hsz k
  refine ⟨fun p hp => ?_, fun ts hp => ?_, fun hp => ?_⟩ <;> rw [this, hp] <;> rfl

/-! ## (4) restart without index files -/

/-- in any state satisfying the invariant, close + init *without index files* (scan of the blob bytes,
    regeneration of indexes and filters, dump, rebuilt container) changes no answer -/
theorem restart_of_inv {cfg : Cfg} (hcfg : cfg.OK) (c : CState) (hinv : CInv cfg c) (lazy : Bool) (k : Key) :
    (c.restart cfg lazy).read cfg k = c.read cfg k ∧ (c.restart cfg lazy).contains cfg k = c.contains cfg k ∧
      CInv cfg (c.restart cfg lazy) := by
  obtain ⟨habs, hinv'⟩ := restart_ref hcfg hinv lazy
  have hstep : c.step cfg (.restart lazy) = c.restart cfg lazy := rfl
  have happly : (c.abs cfg).apply (Op.restart lazy) = (c.abs cfg).restart lazy := rfl
  rw [hstep, happly] at habs
  rw [hstep] at hinv'
  have hans := restart_answers hinv.wf lazy k
  refine ⟨?_, ?_, hinv'⟩
  · rw [read_eq hcfg hinv' k, read_eq hcfg hinv k, habs, hans.1]
  · rw [contains_eq hcfg hinv' k, contains_eq hcfg hinv k, habs, hans.2.2.1]

/-- **`end_to_end_restart`**: after every history, reads after a restart without index files equal reads
    before it -/
theorem end_to_end_restart {cfg : Cfg} (hcfg : cfg.OK) (ops : List COp) (hops : ∀ op ∈ ops, op.OK cfg)
    (hsz : StoreSized cfg.klen ((Store.init cfg.allowDup).run (ops.map COp.abs))) (lazy : Bool) (k : Key) :
    (((CState.init cfg).run cfg ops).restart cfg lazy).read cfg k = ((CState.init cfg).run cfg ops).read cfg k ∧
    (((CState.init cfg).run cfg ops).restart cfg lazy).contains cfg k
      = ((CState.init cfg).run cfg ops).contains cfg k := by
  obtain ⟨_, hinv⟩ := run_ref hcfg ops hops hsz
  exact ⟨(restart_of_inv hcfg _ hinv lazy k).1, (restart_of_inv hcfg _ hinv lazy k).2.1⟩

/-- the scan rebuilds exactly the index and the filter (not merely equivalent ones): the restarted blobs are the
    old blobs with their index back in memory -/
theorem restart_regenerates {cfg : Cfg} (c : CState) (hinv : CInv cfg c) (b : CBlob) (hb : b ∈ c.blobs) :
    regen cfg b = some { b with index := .mem (indexOf (blobHeaders cfg.klen (b.ghost.map (fun r => (r, dataOf r.data))))) } :=
  regen_eq (CInvG.blobInv hinv hb)

/-! ## non-vacuity -/

namespace Demo

/-- key length 1, groups of 2, a 100-bit bloom filter with two hashers, duplicates allowed (for the tie) -/
def cfg : Cfg :=
  { klen := 1, group := 2, bloom := some (⟨10, 2, 100, 1, 0⟩, 100), h := fun j k => 7 * k + 13 * j,
    allowDup := true }

theorem cfg_ok : cfg.OK :=
  ⟨by decide, by decide, fun p hp => by cases hp; exact ⟨⟨by decide, by decide, by decide, by decide, by decide⟩, by decide⟩⟩

/-- two blobs; blob 0 is closed and dumped (index on disk); key 1 has a tie at timestamp 5 across the blobs;
    key 2 is deleted (a marker in the active blob, and one in the dumped blob 0, whose index is loaded for it) -/
def ops : List COp :=
  [.write 1 5 ⟨2, 1⟩, .write 2 6 ⟨1, 2⟩, .closeActive, .settle, .write 1 5 ⟨3, 3⟩, .delete 2 9 false]

def s : CState := (CState.init cfg).run cfg ops

theorem ops_ok : ∀ op ∈ ops, op.OK cfg := by decide

set_option maxRecDepth 100000 in
theorem ops_sized : StoreSized cfg.klen ((Store.init cfg.allowDup).run (ops.map COp.abs)) := by
  unfold StoreSized; decide

end Demo

-- the concrete read path, evaluated: the tie is won by the newer blob, key 2 is deleted, key 3 is absent
set_option maxRecDepth 1000000 in
example : Demo.s.read Demo.cfg 1 = .ok (.found [3, 107, 223]) ∧ dataOf ⟨3, 3⟩ = [3, 107, 223] ∧
    Demo.s.read Demo.cfg 2 = .ok (.deleted 9) ∧ Demo.s.read Demo.cfg 3 = .ok .notFound ∧
    Demo.s.contains Demo.cfg 1 = .ok (.found 5) := by decide

-- two blobs, the closed one with its index on disk until the delete loads it again
example : (Demo.s.abs Demo.cfg).blobs.map (fun b => (b.id, b.recs.length, b.onDisk)) = [(0, 3, false), (1, 2, false)] := by
  decide
example : (((CState.init Demo.cfg).run Demo.cfg (Demo.ops.take 5)).abs Demo.cfg).blobs.map (fun b => (b.id, b.onDisk))
    = [(0, true), (1, false)] := by decide

-- the theorems instantiated on it
example : Demo.s.read Demo.cfg 1 =
    .ok ((Spec.latest ((Store.init true).run (Demo.ops.map COp.abs)).history 1).map (fun p => dataOf p.r.data)) :=
  end_to_end_read Demo.cfg_ok Demo.ops Demo.ops_ok Demo.ops_sized 1

example : CInv Demo.cfg Demo.s := (refinement_run Demo.cfg_ok Demo.ops Demo.ops_ok Demo.ops_sized).2

-- restart without index files, evaluated and by the theorem
set_option maxRecDepth 1000000 in
example : (Demo.s.restart Demo.cfg false).read Demo.cfg 1 = .ok (.found [3, 107, 223]) ∧
    (Demo.s.restart Demo.cfg true).read Demo.cfg 2 = .ok (.deleted 9) ∧
    ((Demo.s.restart Demo.cfg false).abs Demo.cfg).blobs.map (fun b => (b.id, b.onDisk)) = [(0, true), (1, false)] := by
  decide

example (k : Key) : (Demo.s.restart Demo.cfg true).read Demo.cfg k = Demo.s.read Demo.cfg k :=
  (end_to_end_restart Demo.cfg_ok Demo.ops Demo.ops_ok Demo.ops_sized true k).1

-- pruning happens: key 1 lives in both blobs, key 2's records too, but for key 40 neither blob is consulted
-- beyond its filter
set_option maxRecDepth 1000000 in
example : (Demo.s.consulted Demo.cfg 1).map (·.id) = [1, 0] ∧
    ((Demo.s.consulted Demo.cfg 40).filter (fun b => b.checkFilter Demo.cfg 40 != .notContains)).map (·.id) = [] := by
  decide

set_option maxRecDepth 1000000 in
/-- the key range hypothesis `COp.OK` is needed: a key that does not fit `K::LEN` bytes is stored under its
    low-order bytes; the scan at restart files the record under that other key -/
theorem key_range_needed :
    let c := (CState.init Demo.cfg).run Demo.cfg [.write 257 5 ⟨1, 1⟩, .restart false]
    c.read Demo.cfg 1 = .ok (.found (dataOf ⟨1, 1⟩)) ∧
    Spec.latest ((Store.init true).run [.write 257 5 none ⟨1, 1⟩, .restart false]).history 1 = .notFound := by
  refine ⟨?_, ?_⟩
  · decide
  · rw [show Spec.latest ((Store.init true).run [.write 257 5 none ⟨1, 1⟩, .restart false]).history 1 = .notFound ↔
        ((Store.init true).run [.write 257 5 none ⟨1, 1⟩, .restart false]).read 1 none = .notFound from by
      rw [run_read_eq_spec true _ 1]
      cases Spec.latest ((Store.init true).run [.write 257 5 none ⟨1, 1⟩, .restart false]).history 1 <;>
        simp [ReadResult.map]]
    decide

end Pearl.E2E

#print axioms Pearl.E2E.invariant_blob
#print axioms Pearl.E2E.invariant_container
#print axioms Pearl.E2E.invariant_init
#print axioms Pearl.E2E.refinement
#print axioms Pearl.E2E.refinement_abs
#print axioms Pearl.E2E.refinement_delete_count
#print axioms Pearl.E2E.refinement_run
#print axioms Pearl.E2E.storeSized_iff
#print axioms Pearl.E2E.close_and_dump
#print axioms Pearl.E2E.closed_blob_never_pruned
#print axioms Pearl.E2E.ghost_not_read
#print axioms Pearl.E2E.ghost_not_read_by_ops
#print axioms Pearl.E2E.read_of_inv
#print axioms Pearl.E2E.end_to_end_read
#print axioms Pearl.E2E.end_to_end_contains
#print axioms Pearl.E2E.end_to_end_read_cases
#print axioms Pearl.E2E.restart_of_inv
#print axioms Pearl.E2E.end_to_end_restart
#print axioms Pearl.E2E.restart_regenerates
#print axioms Pearl.E2E.key_range_needed

/-! # Extension: metadata, `read_all`, `delete(only_if_presented)`, the byte image of the index file

Model: `Pearl/Model/EndToEndMeta.lean` (new definitions only; nothing of `Pearl/Model/EndToEnd.lean` is changed).
Lemmas: `Pearl/Proofs/EndToEndMeta{Blob,Steps,L2,Run,ReadAll}.lean`, `Pearl/Proofs/EndToEndMetaBytes{Enc,Sim,Image,Cont,Blob,Store,Size}.lean`, `Pearl/Proofs/EndToEndMetaGhost.lean`.

Operations with metadata are `MOp` (`write k ts (m : Option Meta) d` = `write` / `write_with`, `delete k ts m oip` =
`delete` / `delete_with`, the lifecycle operations as before); `COp.toM` embeds the old operations and
`stepM_toM : c.stepM cfg op.toM = c.step cfg op`.

Additional side-condition on the inputs:
* `MOp.OK` also asks the meta value to be a byte string (`MetaOK`: every element `< 256`).  The L2 record keeps the
  meta as a list of naturals and compares those; the file keeps bytes and `filter_entries` compares the bytes.  It
  is needed: `meta_range_needed`.  The same condition is asked of the meta of a query.
-/
namespace Pearl.E2E
open Pearl Pearl.BPTree Pearl.Container

/-! ## (5) metadata: `write_with`, `delete_with`, `contains_with`, `read_with` -/

/-- every operation with metadata commutes with the abstraction function, keeps the invariant and the meta range
    invariant -/
theorem refinement_meta {cfg : Cfg} (hcfg : cfg.OK) (c : CState) (hinv : CInv cfg c)
    (hmeta : StoreMetaOK (c.abs cfg)) (op : MOp) (hop : op.OK cfg)
    (hsz : StoreSized cfg.klen ((c.abs cfg).apply op.abs)) :
    (c.stepM cfg op).abs cfg = (c.abs cfg).apply op.abs ∧ CInv cfg (c.stepM cfg op) ∧
      StoreMetaOK ((c.stepM cfg op).abs cfg) := by
  obtain ⟨h1, h2⟩ := stepM_ref hcfg hinv hmeta op hop hsz
  exact ⟨h1, h2, by rw [h1]; exact stepM_metaOK hinv.wf hmeta op hop⟩

/-- along every history from the empty storage -/
theorem refinement_meta_run {cfg : Cfg} (hcfg : cfg.OK) (ops : List MOp) (hops : ∀ op ∈ ops, op.OK cfg)
    (hsz : StoreSized cfg.klen ((Store.init cfg.allowDup).run (ops.map MOp.abs))) :
    ((CState.init cfg).runM cfg ops).abs cfg = (Store.init cfg.allowDup).run (ops.map MOp.abs) ∧
      CInv cfg ((CState.init cfg).runM cfg ops) ∧ StoreMetaOK (((CState.init cfg).runM cfg ops).abs cfg) :=
  runM_ref hcfg ops hops hsz

/-- the operations of the first part are the operations without metadata -/
theorem meta_ops_extend (cfg : Cfg) (c : CState) (op : COp) (ops : List COp) :
    c.stepM cfg op.toM = c.step cfg op ∧ c.runM cfg (ops.map COp.toM) = c.run cfg ops ∧
    op.toM.abs = op.abs ∧ (op.OK cfg → op.toM.OK cfg) :=
  ⟨stepM_toM cfg c op, runM_toM cfg ops c, toM_abs op, toM_OK⟩

/-- in any state satisfying the invariants: `read_with(meta)` and `contains_with(meta)` do not fail and return the
    L2 answer, which is the answer of the specification (C02 `readWith_eq_spec`) -/
theorem read_with_of_inv {cfg : Cfg} (hcfg : cfg.OK) (c : CState) (hinv : CInv cfg c)
    (hmeta : StoreMetaOK (c.abs cfg)) (k : Key) (m : Meta) (hm : MetaOK m) :
    c.readWith cfg k m = .ok (((c.abs cfg).read k (some m)).map (fun r => dataOf r.data)) ∧
    c.readWith cfg k m = .ok ((Spec.readWith (c.abs cfg).history k m).map (fun p => dataOf p.r.data)) ∧
    c.containsWith cfg k (some m) = .ok ((Spec.readWith (c.abs cfg).history k m).map (·.r.ts)) := by
  have hm' : ∀ x, some m = some x → MetaOK x := by intro x hx; cases hx; exact hm
  have h1 := readWithOpt_eq hcfg hinv hmeta k (some m) hm'
  have h2 := containsWith_eq hcfg hinv hmeta k (some m) hm'
  have hs : (c.abs cfg).getLatestEntry k (some m) = (Spec.readWith (c.abs cfg).history k m).map (·.r) :=
    readWith_eq_spec hinv.wf k m
  refine ⟨h1, ?_, ?_⟩
  · show c.readWithOpt cfg k (some m) = _
    rw [h1]
    show Except.ok (((c.abs cfg).getLatestEntry k (some m)).map _) = _
    rw [hs, ReadResult.map_map]
  · rw [h2, hs, ReadResult.map_map]

/-- **`end_to_end_read_with`**: for every history of concrete operations with metadata from the empty storage,
    every key and every meta, the concrete `read_with(meta)` — active blob, then `iter_possible_childs_rev` with
    filter pruning, per blob `check_filter`, `get_all_with_deletion_marker` through the vector or the index file,
    the local marker split off, `load_meta` of every candidate from the blob bytes newest first, the answers merged
    by `ReadResult::latest`, then `Entry::load` of the winner — returns without error the bytes of the record
    `Store.read k (some m)` selects, which is `Spec.readWith` of the history -/
theorem end_to_end_read_with {cfg : Cfg} (hcfg : cfg.OK) (ops : List MOp) (hops : ∀ op ∈ ops, op.OK cfg)
    (hsz : StoreSized cfg.klen ((Store.init cfg.allowDup).run (ops.map MOp.abs))) (k : Key) (m : Meta)
    (hm : MetaOK m) :
    ((CState.init cfg).runM cfg ops).readWith cfg k m =
      .ok ((((Store.init cfg.allowDup).run (ops.map MOp.abs)).read k (some m)).map (fun r => dataOf r.data)) ∧
    ((CState.init cfg).runM cfg ops).readWith cfg k m =
      .ok ((Spec.readWith ((Store.init cfg.allowDup).run (ops.map MOp.abs)).history k m).map
        (fun p => dataOf p.r.data)) := by
  obtain ⟨habs, hinv, hmeta⟩ := runM_ref hcfg ops hops hsz
  have := read_with_of_inv hcfg _ hinv hmeta k m hm
  rw [habs] at this
  exact ⟨this.1, this.2.1⟩

/-- **`end_to_end_contains_with`** (the duplicate check of `write_with`) -/
theorem end_to_end_contains_with {cfg : Cfg} (hcfg : cfg.OK) (ops : List MOp) (hops : ∀ op ∈ ops, op.OK cfg)
    (hsz : StoreSized cfg.klen ((Store.init cfg.allowDup).run (ops.map MOp.abs))) (k : Key) (m : Meta)
    (hm : MetaOK m) :
    ((CState.init cfg).runM cfg ops).containsWith cfg k (some m) =
      .ok ((Spec.readWith ((Store.init cfg.allowDup).run (ops.map MOp.abs)).history k m).map (·.r.ts)) := by
  obtain ⟨habs, hinv, hmeta⟩ := runM_ref hcfg ops hops hsz
  have := read_with_of_inv hcfg _ hinv hmeta k m hm
  rw [habs] at this
  exact this.2.2

/-- `read` and `contains` (no meta) after a history WITH metadata: `end_to_end_read` / `end_to_end_contains` on the
    larger set of histories -/
theorem end_to_end_read_meta_history {cfg : Cfg} (hcfg : cfg.OK) (ops : List MOp) (hops : ∀ op ∈ ops, op.OK cfg)
    (hsz : StoreSized cfg.klen ((Store.init cfg.allowDup).run (ops.map MOp.abs))) (k : Key) :
    ((CState.init cfg).runM cfg ops).read cfg k =
      .ok ((Spec.latest ((Store.init cfg.allowDup).run (ops.map MOp.abs)).history k).map
        (fun p => dataOf p.r.data)) ∧
    ((CState.init cfg).runM cfg ops).contains cfg k =
      .ok ((Spec.latest ((Store.init cfg.allowDup).run (ops.map MOp.abs)).history k).map (·.r.ts)) := by
  obtain ⟨habs, hinv, _⟩ := runM_ref hcfg ops hops hsz
  have := read_of_inv hcfg _ hinv k
  rw [habs] at this
  exact this

/-- the duplicate check of `write_with` when duplicates are not allowed: if the specification finds a record with
    this key and this meta (`Spec.readWith … = Found`), the write appends nothing -/
theorem write_with_dedup {cfg : Cfg} (hcfg : cfg.OK) (c : CState) (hinv : CInv cfg c)
    (hmeta : StoreMetaOK (c.abs cfg)) (k : Key) (ts : Nat) (m : Meta) (d : Data)
    (hk : k < 256 ^ cfg.klen) (hts : ts < 2 ^ 64) (hm : MetaOK m) (hd : cfg.allowDup = false)
    (hf : (Spec.readWith (c.abs cfg).ensureActive.history k m).isFound = true) :
    (c.writeWithOpt cfg k ts (some m) d).abs cfg = (c.abs cfg).ensureActive := by
  have hm' : ∀ x, some m = some x → MetaOK x := by intro x hx; cases hx; exact hm
  rw [(writeWithOpt_ref0 hcfg hinv hmeta k ts (some m) d hk hts hm').1]
  apply dedup_write (c.abs cfg) k ts (some m) d hd
  have := readWith_eq_spec (Store.ensureActive_WF hinv.wf) k m
  unfold Store.read at this
  rw [this, ReadResult.isFound_map]
  exact hf

/-- the history variable is not read by the operations and read paths with metadata either: for ANY state -/
theorem ghost_not_read_meta (cfg : Cfg) (c : CState) (op : MOp) (k : Key) (m : Option Meta) :
    (c.stepM cfg op).eraseGhost = (c.eraseGhost.stepM cfg op).eraseGhost ∧
    c.eraseGhost.readWithOpt cfg k m = c.readWithOpt cfg k m ∧
    c.eraseGhost.containsWith cfg k m = c.containsWith cfg k m ∧
    c.eraseGhost.readAllMarked cfg k = c.readAllMarked cfg k ∧ c.eraseGhost.readAll cfg k = c.readAll cfg k :=
  ⟨stepM_eraseGhost cfg c op, (readWithOpt_ghost_irrelevant cfg c k m).1, (readWithOpt_ghost_irrelevant cfg c k m).2,
    (readAll_ghost_irrelevant cfg c k).1, (readAll_ghost_irrelevant cfg c k).2⟩

/-! ## (6) `read_all_with_deletion_marker`, `read_all` -/

/-- in any state satisfying the invariant, `read_all_with_deletion_marker` and `read_all` do not fail, and the
    entries they return are — one by one, in order — entries of the records of `Spec.allCut` / `Spec.allLive`
    (C02 `readAllMarked_eq_spec`, `readAll_eq_spec`): same key, timestamp and marker flag, and `Entry::load` (with
    its header and data checksum validation) returns the serialized meta and the bytes of the value.
    `entryView e = (key, timestamp, is_deleted, Entry::load)`, `recView r` the same of a record. -/
theorem read_all_of_inv {cfg : Cfg} (hcfg : cfg.OK) (c : CState) (hinv : CInv cfg c) (k : Key) :
    (∃ es, c.readAllMarked cfg k = .ok es ∧
      es.map entryView = (Spec.allCut (c.abs cfg).history k).map (fun p => recView p.r)) ∧
    (∃ es, c.readAll cfg k = .ok es ∧
      es.map entryView = (Spec.allLive (c.abs cfg).history k).map (fun p => recView p.r)) := by
  constructor
  · obtain ⟨Z, h1, h2, h3⟩ := readAllMarked_rr hcfg hinv k
    refine ⟨_, h1, ?_⟩
    rw [views_eq Z h3, ← h2, readAllMarked_eq_spec hinv.wf k, List.map_map]
    rfl
  · obtain ⟨Z, h1, h2, h3⟩ := readAll_rr hcfg hinv k
    refine ⟨_, h1, ?_⟩
    rw [views_eq Z h3, ← h2, readAll_eq_spec hinv.wf k, List.map_map]
    rfl

/-- **`end_to_end_read_all`**: for every history (with or without metadata) from the empty storage and every key,
    the concrete `read_all_with_deletion_marker` — per blob `get_all_with_deletion_marker` through the vector or
    the index file, over the active blob and the children `iter_possible_childs_rev` yields, the cross-blob stable
    sort by timestamp, the global cut after the first marker — and `read_all` return without error entries whose
    loaded records are exactly `Spec.allCut` / `Spec.allLive` of the history, in rank order -/
theorem end_to_end_read_all {cfg : Cfg} (hcfg : cfg.OK) (ops : List MOp) (hops : ∀ op ∈ ops, op.OK cfg)
    (hsz : StoreSized cfg.klen ((Store.init cfg.allowDup).run (ops.map MOp.abs))) (k : Key) :
    let c := (CState.init cfg).runM cfg ops
    let h := ((Store.init cfg.allowDup).run (ops.map MOp.abs)).history
    (∃ es, c.readAllMarked cfg k = .ok es ∧ es.map entryView = (Spec.allCut h k).map (fun p => recView p.r)) ∧
    (∃ es, c.readAll cfg k = .ok es ∧ es.map entryView = (Spec.allLive h k).map (fun p => recView p.r)) := by
  intro c h
  obtain ⟨habs, hinv, _⟩ := runM_ref hcfg ops hops hsz
  have := read_all_of_inv hcfg c hinv k
  rw [habs] at this
  exact this

/-- the same for the histories without metadata of the first part -/
theorem end_to_end_read_all_plain {cfg : Cfg} (hcfg : cfg.OK) (ops : List COp) (hops : ∀ op ∈ ops, op.OK cfg)
    (hsz : StoreSized cfg.klen ((Store.init cfg.allowDup).run (ops.map COp.abs))) (k : Key) :
    let c := (CState.init cfg).run cfg ops
    let h := ((Store.init cfg.allowDup).run (ops.map COp.abs)).history
    (∃ es, c.readAllMarked cfg k = .ok es ∧ es.map entryView = (Spec.allCut h k).map (fun p => recView p.r)) ∧
    (∃ es, c.readAll cfg k = .ok es ∧ es.map entryView = (Spec.allLive h k).map (fun p => recView p.r)) := by
  intro c h
  obtain ⟨habs, hinv⟩ := run_ref hcfg ops hops hsz
  have := read_all_of_inv hcfg c hinv k
  rw [habs] at this
  exact this

/-! ## (7) `delete` with `only_if_presented` -/

/-- **`end_to_end_delete`**: `delete` / `delete_with`, in particular with `only_if_presented = true`, where every
    blob decides through its concrete index (vector, or the index file image) whether the key is live in it:
    the decision is `Spec.liveIn` of the blob's records, the state afterwards is the L2 state, and the number
    returned is the number the L2 operation returns — and what the L2 operation does is C02 `delete_spec` -/
theorem delete_of_inv {cfg : Cfg} (hcfg : cfg.OK) (c : CState) (hinv : CInv cfg c) (k : Key) (ts : Nat)
    (m : Option Meta) (oip : Bool) (hk : k < 256 ^ cfg.klen) (hts : ts < 2 ^ 64) :
    (c.deleteWithOpt cfg k ts m oip).1.abs cfg = ((c.abs cfg).delete k ts m oip).1 ∧
    (c.deleteWithOpt cfg k ts m oip).2 = ((c.abs cfg).delete k ts m oip).2 ∧
    (∀ b ∈ c.blobs, (b.deleteM cfg k ts m true).2 = Spec.liveIn b.id b.ghost k) :=
  ⟨(deleteWithOpt_ref0 hcfg hinv k ts m oip hk hts).1, deleteWithOpt_count hcfg hinv k ts m oip hk hts,
    fun _ hb => deleteM_live hcfg (CInvG.blobInv hinv hb) k ts m⟩

theorem end_to_end_delete {cfg : Cfg} (hcfg : cfg.OK) (ops : List MOp) (hops : ∀ op ∈ ops, op.OK cfg)
    (hsz : StoreSized cfg.klen ((Store.init cfg.allowDup).run (ops.map MOp.abs))) (k : Key) (ts : Nat)
    (m : Option Meta) (oip : Bool) (hk : k < 256 ^ cfg.klen) (hts : ts < 2 ^ 64) :
    let c := (CState.init cfg).runM cfg ops
    let s := (Store.init cfg.allowDup).run (ops.map MOp.abs)
    (c.deleteWithOpt cfg k ts m oip).1.abs cfg = (s.delete k ts m oip).1 ∧
    (c.deleteWithOpt cfg k ts m oip).2 = (s.delete k ts m oip).2 ∧
    (∀ b ∈ c.blobs, (b.deleteM cfg k ts m true).2 = Spec.liveIn b.id b.ghost k) := by
  intro c s
  obtain ⟨habs, hinv, _⟩ := runM_ref hcfg ops hops hsz
  have := delete_of_inv hcfg c hinv k ts m oip hk hts
  rw [habs] at this
  exact this

/-! ## (8) the index file as its byte image

`BState` (`Pearl/Model/EndToEndMeta.lean`, second half) is the same storage with every dumped index held as the
byte string `indexFileBytes` of `Pearl/Model/BPTreeBytes.lean` (C09 `bytes_length`, C03b) and every access to it —
`from_file`, `get_latest`, `find_by_key`, `get_records_headers`, `read_meta`, `read_meta_at` — done on the bytes
(`BIdx`).  The byte-level look-up functions did not exist (only the image and the start-up validation of C03b were
modelled at byte level); they are transcribed in the model file and tied to the structured look-ups of L4 by a
simulation (`Pearl/Proofs/EndToEndMetaBytes{Enc,Sim,Image,Cont,Blob,Store}.lean`): on the image of a file `build`
produces, whenever the structured look-up returns normally — and by C09 it always does — the byte-level look-up
returns the same.  The record headers in the index file are the L5 serialisation (`rawBytes_eq_serHeader`), read back
by the L5 deserializer.

Additional side-conditions (`BytesOK`, `IdxSized`):
* the hash function has 32-byte values (SHA-256 itself is not modelled: the hash check of `get_records_headers`
  is the one step that is not performed at byte level; every other check of `validate_header` is);
* every index file on disk, in every state passed through, is shorter than `2^64` bytes (its header fields and the
  offsets in its nodes are `u64`; a longer file has no byte image) — `IdxSized`; it follows from a bound on the blobs
  of the final L2 state, `StoreIdxSized` (`idx_sized_of_inputs`, `end_to_end_read_bytes_inputs`;
  `Pearl/Proofs/EndToEndMetaBytesSize.lean`).
-/

/-- the four accesses to an on-disk index, through the byte image and through the structured file -/
theorem index_bytes_lookups {cfg : Cfg} {sha : List Nat → List Nat} (hB : BytesOK cfg sha) (c : CState)
    (hinv : CInv cfg c) (hs : c.IdxSized) (b : CBlob) (hb : b ∈ c.blobs) (k : Key) :
    (b.toB sha).index.getLatest cfg.klen k = b.index.getLatest k ∧
    (b.toB sha).index.getAllMarked cfg.klen k = b.index.getAllMarked k ∧
    (b.toB sha).checkFilter cfg k = b.checkFilter cfg k ∧
    (b.toB sha).loadIndex cfg = (b.loadIndex cfg).toB sha :=
  ⟨index_getLatest_toB hB (CInvG.blobInv hinv hb) (hs b hb) k,
    index_getAllMarked_toB hB (CInvG.blobInv hinv hb) (hs b hb) k,
    checkFilter_toB hB (CInvG.blobInv hinv hb) (hs b hb) k,
    loadIndex_toB hB (CInvG.blobInv hinv hb) (hs b hb)⟩

/-- in any state satisfying the invariant: every read through the byte images gives the answer of the structured
    storage, and every operation commutes with the translation -/
theorem bytes_of_inv {cfg : Cfg} {sha : List Nat → List Nat} (hB : BytesOK cfg sha) (c : CState)
    (hinv : CInv cfg c) (hs : c.IdxSized) :
    (∀ k m, (c.toB sha).readWithOpt cfg k m = c.readWithOpt cfg k m) ∧
    (∀ k m, (c.toB sha).containsWith cfg k m = c.containsWith cfg k m) ∧
    (∀ k, (c.toB sha).readAllMarked cfg k = c.readAllMarked cfg k) ∧
    (∀ k, (c.toB sha).readAll cfg k = c.readAll cfg k) ∧
    (∀ op, (c.stepM cfg op).toB sha = (c.toB sha).stepB cfg sha op) ∧
    (∀ k ts m oip, (c.deleteWithOpt cfg k ts m oip).2 = ((c.toB sha).deleteWithOpt cfg k ts m oip).2) :=
  ⟨fun k m => readWithOpt_toB hB hinv hs k m, fun k m => containsWith_toB hB hinv hs k m,
    fun k => readAllMarked_toB hB hinv hs k, fun k => readAll_toB hB hinv hs k,
    fun op => stepM_toB hB hinv hs op, fun k ts m oip => (deleteWithOpt_toB hB hinv hs k ts m oip).2⟩

/-- the byte-level storage run from the empty directory is the translation of the structured one -/
theorem refinement_bytes_run {cfg : Cfg} {sha : List Nat → List Nat} (hB : BytesOK cfg sha) (ops : List MOp)
    (hops : ∀ op ∈ ops, op.OK cfg)
    (hsz : StoreSized cfg.klen ((Store.init cfg.allowDup).run (ops.map MOp.abs)))
    (hidx : ∀ n, n ≤ ops.length → ((CState.init cfg).runM cfg (ops.take n)).IdxSized) :
    (BState.init cfg).runB cfg sha ops = ((CState.init cfg).runM cfg ops).toB sha :=
  runB_eq hB ops hops hsz hidx

/-- **`end_to_end_read_bytes`**: with every dumped index held as its byte image and looked up through the
    byte-level functions — for every history of operations (with metadata) from the empty directory — the answers
    of `read`, `contains`, `read_with`, `contains_with`, `read_all_with_deletion_marker` and `read_all` are those of
    the structured storage, hence those of the specification -/
theorem end_to_end_read_bytes {cfg : Cfg} {sha : List Nat → List Nat} (hB : BytesOK cfg sha) (ops : List MOp)
    (hops : ∀ op ∈ ops, op.OK cfg)
    (hsz : StoreSized cfg.klen ((Store.init cfg.allowDup).run (ops.map MOp.abs)))
    (hidx : ∀ n, n ≤ ops.length → ((CState.init cfg).runM cfg (ops.take n)).IdxSized) (k : Key) :
    let b := (BState.init cfg).runB cfg sha ops
    let c := (CState.init cfg).runM cfg ops
    let h := ((Store.init cfg.allowDup).run (ops.map MOp.abs)).history
    -- unchanged
    (∀ m, b.readWithOpt cfg k m = c.readWithOpt cfg k m) ∧
    (∀ m, b.containsWith cfg k m = c.containsWith cfg k m) ∧
    b.readAllMarked cfg k = c.readAllMarked cfg k ∧ b.readAll cfg k = c.readAll cfg k ∧
    -- and equal to the specification
    b.readWithOpt cfg k none = .ok ((Spec.latest h k).map (fun p => dataOf p.r.data)) ∧
    b.containsWith cfg k none = .ok ((Spec.latest h k).map (·.r.ts)) ∧
    (∀ m, MetaOK m →
      b.readWithOpt cfg k (some m) = .ok ((Spec.readWith h k m).map (fun p => dataOf p.r.data)) ∧
      b.containsWith cfg k (some m) = .ok ((Spec.readWith h k m).map (·.r.ts))) ∧
    (∃ es, b.readAllMarked cfg k = .ok es ∧ es.map entryView = (Spec.allCut h k).map (fun p => recView p.r)) ∧
    (∃ es, b.readAll cfg k = .ok es ∧ es.map entryView = (Spec.allLive h k).map (fun p => recView p.r)) := by
  intro b c h
  have hb : b = c.toB sha := runB_eq hB ops hops hsz hidx
  obtain ⟨habs, hinv, hmeta⟩ := runM_ref hB.ok ops hops hsz
  have hs : c.IdxSized := by
    have := hidx ops.length (Nat.le_refl _)
    rwa [List.take_length] at this
  obtain ⟨e1, e2, e3, e4, _, _⟩ := bytes_of_inv hB c hinv hs
  have hr := read_of_inv hB.ok c hinv k
  have hall := read_all_of_inv hB.ok c hinv k
  rw [habs] at hr hall
  refine ⟨fun m => by rw [hb]; exact e1 k m, fun m => by rw [hb]; exact e2 k m, by rw [hb]; exact e3 k,
    by rw [hb]; exact e4 k, ?_, ?_, ?_, ?_, ?_⟩
  · rw [hb, e1]; exact hr.1
  · rw [hb, e2]; exact hr.2
  · intro m hm
    have := read_with_of_inv hB.ok c hinv hmeta k m hm
    rw [habs] at this
    exact ⟨by rw [hb, e1]; exact this.2.1, by rw [hb, e2]; exact this.2.2⟩
  · rw [hb, e3]; exact hall.1
  · rw [hb, e4]; exact hall.2

/-- the size side-condition on every state passed through follows from a bound on the blobs of the FINAL L2
    state: an index file is at most three times as long as its blob file, plus the filter section (whose length
    `filterLen cfg = 2 K + 81 + 8 ⌈bits / 64⌉` is fixed by the configuration), plus a constant -/
theorem idx_sized_of_inputs {cfg : Cfg} (hcfg : cfg.OK) (ops : List MOp) (hops : ∀ op ∈ ops, op.OK cfg)
    (h : StoreIdxSized cfg ((Store.init cfg.allowDup).run (ops.map MOp.abs))) :
    StoreSized cfg.klen ((Store.init cfg.allowDup).run (ops.map MOp.abs)) ∧
    ∀ n, n ≤ ops.length → ((CState.init cfg).runM cfg (ops.take n)).IdxSized :=
  ⟨h.toStoreSized, idxSized_of_final hcfg ops hops h⟩

/-- `StoreIdxSized` in arithmetic form: per blob of the L2 state,
    `3 · (20 + Σ (57 + K::LEN + |meta| + data length)) + filterLen cfg + 4200 < 2^64` -/
theorem storeIdxSized_iff (cfg : Cfg) (s : Store) :
    StoreIdxSized cfg s ↔ ∀ b ∈ s.blobs, 3 * Fs.contentLen cfg.klen b.recs + filterLen cfg + 4200 < 2 ^ 64 := by
  have h : ∀ b : Blob, (blobBytes cfg.klen (full b.recs)).length = Fs.contentLen cfg.klen b.recs :=
    fun b => Fs.content_length cfg.klen b
  unfold StoreIdxSized
  constructor
  · intro hs b hb; rw [← h]; exact hs b hb
  · intro hs b hb; rw [h]; exact hs b hb

/-- **`end_to_end_read_bytes`, all side-conditions on the inputs**: the configuration (`cfg.OK`), a 32-byte hash,
    the operations (`MOp.OK`), and the size bound `StoreIdxSized` on the final L2 state -/
theorem end_to_end_read_bytes_inputs {cfg : Cfg} {sha : List Nat → List Nat} (hB : BytesOK cfg sha) (ops : List MOp)
    (hops : ∀ op ∈ ops, op.OK cfg)
    (hsz : StoreIdxSized cfg ((Store.init cfg.allowDup).run (ops.map MOp.abs))) (k : Key) :
    let b := (BState.init cfg).runB cfg sha ops
    let c := (CState.init cfg).runM cfg ops
    let h := ((Store.init cfg.allowDup).run (ops.map MOp.abs)).history
    (∀ m, b.readWithOpt cfg k m = c.readWithOpt cfg k m) ∧
    (∀ m, b.containsWith cfg k m = c.containsWith cfg k m) ∧
    b.readAllMarked cfg k = c.readAllMarked cfg k ∧ b.readAll cfg k = c.readAll cfg k ∧
    b.readWithOpt cfg k none = .ok ((Spec.latest h k).map (fun p => dataOf p.r.data)) ∧
    b.containsWith cfg k none = .ok ((Spec.latest h k).map (·.r.ts)) ∧
    (∀ m, MetaOK m →
      b.readWithOpt cfg k (some m) = .ok ((Spec.readWith h k m).map (fun p => dataOf p.r.data)) ∧
      b.containsWith cfg k (some m) = .ok ((Spec.readWith h k m).map (·.r.ts))) ∧
    (∃ es, b.readAllMarked cfg k = .ok es ∧ es.map entryView = (Spec.allCut h k).map (fun p => recView p.r)) ∧
    (∃ es, b.readAll cfg k = .ok es ∧ es.map entryView = (Spec.allLive h k).map (fun p => recView p.r)) :=
  end_to_end_read_bytes hB ops hops hsz.toStoreSized (idxSized_of_final hB.ok ops hops hsz) k

/-! ## non-vacuity (metadata, delete) -/

namespace DemoM

/-- two blobs; blob 0 (three records: key 1 with meta `{"m": [7]}`, key 1 without meta and newer, key 2 with meta
    `{"m": [9]}`) is closed and dumped; then key 1 is written once more with meta `{"m": [8]}`; finally
    `delete_with(2, meta {"m": [1]}, only_if_presented)` marks blob 0 (through its index file) and not blob 1 -/
def ops : List MOp :=
  [.write 1 5 (some (some [7])) ⟨2, 1⟩, .write 1 6 none ⟨1, 2⟩, .write 2 4 (some (some [9])) ⟨1, 5⟩,
   .closeActive, .settle, .write 1 7 (some (some [8])) ⟨3, 3⟩, .delete 2 9 (some (some [1])) true]

/-- before the delete: blob 0 has its index on disk -/
def s6 : CState := (CState.init Demo.cfg).runM Demo.cfg (ops.take 6)
def s : CState := (CState.init Demo.cfg).runM Demo.cfg ops

theorem ops_ok : ∀ op ∈ ops, op.OK Demo.cfg := by decide

set_option maxRecDepth 100000 in
theorem ops_sized : StoreSized Demo.cfg.klen ((Store.init Demo.cfg.allowDup).run (ops.map MOp.abs)) := by
  unfold StoreSized; decide

theorem ops6_ok : ∀ op ∈ ops.take 6, op.OK Demo.cfg := by decide

set_option maxRecDepth 100000 in
theorem ops6_sized : StoreSized Demo.cfg.klen ((Store.init Demo.cfg.allowDup).run ((ops.take 6).map MOp.abs)) := by
  unfold StoreSized; decide

end DemoM

example : (DemoM.s6.abs Demo.cfg).blobs.map (fun b => (b.id, b.recs.length, b.onDisk)) = [(0, 3, true), (1, 1, false)] ∧
    (DemoM.s.abs Demo.cfg).blobs.map (fun b => (b.id, b.recs.length, b.onDisk)) = [(0, 4, false), (1, 1, false)] := by
  decide

-- `read_with`, evaluated: the older record of key 1 is found below a newer one with another meta, through the index
-- file of the dumped blob and `load_meta` on the blob bytes; the empty meta selects the record written by `write`;
-- key 2 is found before the delete and `Deleted` after it; key 3 is absent
set_option maxRecDepth 1000000 in
example : DemoM.s6.readWith Demo.cfg 1 (some [7]) = .ok (.found [1, 47]) ∧ dataOf ⟨2, 1⟩ = [1, 47] ∧
    DemoM.s6.readWith Demo.cfg 1 none = .ok (.found [2]) ∧
    DemoM.s6.readWith Demo.cfg 1 (some [8]) = .ok (.found [3, 107, 223]) ∧
    DemoM.s6.readWith Demo.cfg 2 (some [9]) = .ok (.found [5]) ∧
    DemoM.s.readWith Demo.cfg 2 (some [9]) = .ok (.deleted 9) ∧
    DemoM.s.readWith Demo.cfg 3 none = .ok .notFound ∧
    DemoM.s6.containsWith Demo.cfg 1 (some (some [7])) = .ok (.found 5) := by decide

-- the theorems instantiated on it
example : DemoM.s6.readWith Demo.cfg 1 (some [7]) =
    .ok ((Spec.readWith ((Store.init true).run ((DemoM.ops.take 6).map MOp.abs)).history 1 (some [7])).map
      (fun p => dataOf p.r.data)) :=
  (end_to_end_read_with Demo.cfg_ok (DemoM.ops.take 6) DemoM.ops6_ok DemoM.ops6_sized 1 (some [7]) (by decide)).2

example (k : Key) (m : Meta) (hm : MetaOK m) : DemoM.s.readWith Demo.cfg k m =
    .ok ((Spec.readWith ((Store.init true).run (DemoM.ops.map MOp.abs)).history k m).map (fun p => dataOf p.r.data)) :=
  (end_to_end_read_with Demo.cfg_ok DemoM.ops DemoM.ops_ok DemoM.ops_sized k m hm).2

example : CInv Demo.cfg DemoM.s ∧ StoreMetaOK (DemoM.s.abs Demo.cfg) :=
  (refinement_meta_run Demo.cfg_ok DemoM.ops DemoM.ops_ok DemoM.ops_sized).2

-- `delete(only_if_presented)`, evaluated on the state before the delete: one blob is marked (blob 0, whose index is
-- on disk); and by the theorem
set_option maxRecDepth 1000000 in
example : (DemoM.s6.deleteWithOpt Demo.cfg 2 9 (some (some [1])) true).2 = 1 ∧
    (DemoM.s6.deleteWithOpt Demo.cfg 1 9 none true).2 = 2 ∧ (DemoM.s6.deleteWithOpt Demo.cfg 3 9 none true).2 = 0 := by
  decide

example : (DemoM.s6.deleteWithOpt Demo.cfg 2 9 (some (some [1])) true).2 =
    (((Store.init true).run ((DemoM.ops.take 6).map MOp.abs)).delete 2 9 (some (some [1])) true).2 :=
  (end_to_end_delete Demo.cfg_ok (DemoM.ops.take 6) DemoM.ops6_ok DemoM.ops6_sized 2 9 (some (some [1])) true
    (by decide) (by decide)).2.1

/-! ### non-vacuity (`read_all`) -/

namespace DemoRA

/-- blob 0 (dumped): key 1 at ts 5 with a meta and at ts 7; blob 1 (active): key 1 at ts 5 again (a cross-blob
    tie), then a marker at ts 6 -/
def ops : List MOp :=
  [.write 1 5 (some (some [7])) ⟨2, 1⟩, .write 1 7 none ⟨1, 2⟩, .closeActive, .settle,
   .write 1 5 none ⟨3, 3⟩, .delete 1 6 none false]

def s5 : CState := (CState.init Demo.cfg).runM Demo.cfg (ops.take 5)
def s : CState := (CState.init Demo.cfg).runM Demo.cfg ops

theorem ops_ok : ∀ op ∈ ops, op.OK Demo.cfg := by decide

set_option maxRecDepth 100000 in
theorem ops_sized : StoreSized Demo.cfg.klen ((Store.init Demo.cfg.allowDup).run (ops.map MOp.abs)) := by
  unfold StoreSized; decide

/-- timestamps and marker flags of an answer -/
def shape (r : Except CErr (List CEntry)) : Option (List (Nat × Bool)) :=
  match r with
  | .ok es => some (es.map (fun e => (e.hdr.timestamp, e.hdr.isDeleted)))
  | .error _ => none

/-- what `Entry::load` returns for the entries of an answer -/
def loads (r : Except CErr (List CEntry)) : Option (List (Except LoadErr (List UInt8 × List UInt8))) :=
  match r with
  | .ok es => some (es.map (fun e => entryLoad e.file e.hdr))
  | .error _ => none

end DemoRA

-- evaluated: before the delete the three records in rank order (the tie at ts 5: the newer blob first; blob 0 is
-- read through its index file); after it the list is cut after the marker, and `read_all` drops the marker
set_option maxRecDepth 1000000 in
example : DemoRA.shape (DemoRA.s5.readAllMarked Demo.cfg 1) = some [(7, false), (5, false), (5, false)] ∧
    DemoRA.loads (DemoRA.s5.readAllMarked Demo.cfg 1) = some [.ok (serMeta none, [2]),
      .ok (serMeta none, [3, 107, 223]), .ok (serMeta (some [7]), [1, 47])] ∧
    DemoRA.shape (DemoRA.s.readAllMarked Demo.cfg 1) = some [(7, false), (6, true)] ∧
    DemoRA.shape (DemoRA.s.readAll Demo.cfg 1) = some [(7, false)] ∧
    DemoRA.shape (DemoRA.s.readAll Demo.cfg 2) = some [] := by decide

example : ∃ es, DemoRA.s.readAllMarked Demo.cfg 1 = .ok es ∧
    es.map entryView =
      (Spec.allCut ((Store.init true).run (DemoRA.ops.map MOp.abs)).history 1).map (fun p => recView p.r) :=
  (end_to_end_read_all Demo.cfg_ok DemoRA.ops DemoRA.ops_ok DemoRA.ops_sized 1).1

/-! ### non-vacuity (bytes) -/

namespace DemoB

/-- a stand-in for SHA-256 -/
def sha : List Nat → List Nat := fun l => List.replicate 32 (l.length % 256)

theorem ok : BytesOK Demo.cfg sha := ⟨Demo.cfg_ok, fun _ => by simp [sha]⟩

set_option maxRecDepth 100000 in
theorem idx_sized : ∀ n, n ≤ DemoM.ops.length → ((CState.init Demo.cfg).runM Demo.cfg (DemoM.ops.take n)).IdxSized := by
  decide

set_option maxRecDepth 100000 in
/-- … and the bound on the final L2 state from which it follows -/
theorem store_idx_sized : StoreIdxSized Demo.cfg ((Store.init Demo.cfg.allowDup).run (DemoM.ops.map MOp.abs)) := by
  unfold StoreIdxSized; decide

/-- the byte-level storage after the first six operations of `DemoM.ops`: blob 0 has its index on disk, as bytes -/
def s6 : BState := (BState.init Demo.cfg).runB Demo.cfg sha (DemoM.ops.take 6)

end DemoB

-- the index file of blob 0: 83 (header) + 99 (filters) + 16 (tree meta) + 3 · 58 (record headers) = 372 bytes; it is opened
-- by `from_file`, and the look-ups on the bytes find key 1 (two versions) and do not find key 3
set_option maxRecDepth 1000000 in
example : DemoB.s6.blobs.map (fun b => (b.id, b.index.onDisk)) = [(0, true), (1, false)] ∧
    (match DemoB.s6.blobs.head? with
      | some b =>
        (match b.index with
          | .disk img _ => (BIdx.fromFile img).isSome && decide (img.length = 83 + 99 + 16 + 3 * 58)
          | .mem _ => false) &&
        ((b.index.getAllMarked 1 1).map (·.map (·.timestamp)) == some [6, 5]) &&
        ((b.index.getLatest 1 3) == some none)
      | none => false) = true := by decide +kernel

-- reads through the bytes, evaluated
set_option maxRecDepth 1000000 in
example : DemoB.s6.readWithOpt Demo.cfg 1 (some (some [7])) = .ok (.found [1, 47]) ∧
    DemoB.s6.readWithOpt Demo.cfg 2 (some (some [9])) = .ok (.found [5]) ∧
    DemoB.s6.readWithOpt Demo.cfg 3 none = .ok .notFound ∧
    (DemoB.s6.deleteWithOpt Demo.cfg 2 9 (some (some [1])) true).2 = 1 := by decide +kernel

-- and by the theorem, for every key and meta
example (k : Key) (m : Meta) (hm : MetaOK m) :
    ((BState.init Demo.cfg).runB Demo.cfg DemoB.sha DemoM.ops).readWithOpt Demo.cfg k (some m) =
      .ok ((Spec.readWith ((Store.init true).run (DemoM.ops.map MOp.abs)).history k m).map (fun p => dataOf p.r.data)) :=
  ((end_to_end_read_bytes DemoB.ok DemoM.ops DemoM.ops_ok DemoM.ops_sized DemoB.idx_sized k).2.2.2.2.2.2.1 m hm).1

example (k : Key) :
    ((BState.init Demo.cfg).runB Demo.cfg DemoB.sha DemoM.ops).readWithOpt Demo.cfg k none =
      .ok ((Spec.latest ((Store.init true).run (DemoM.ops.map MOp.abs)).history k).map (fun p => dataOf p.r.data)) :=
  (end_to_end_read_bytes_inputs DemoB.ok DemoM.ops DemoM.ops_ok DemoB.store_idx_sized k).2.2.2.2.1

example : filterLen Demo.cfg = 99 := by decide

/-- the simulation on an index file with an inner node: 80 keys of one byte, one header each (two leaves under a
    root node, 4764 bytes) -/
def DemoB.hd (k : Nat) : RecHeader :=
  { magicByte := RECORD_MAGIC_BYTE, key := [UInt8.ofNat k], metaSize := 8, dataSize := 1, flags := 0,
    blobOffset := 20 + 67 * k, timestamp := k, dataChecksum := 0, headerChecksum := 0 }
def DemoB.m80 : InMem RecHeader := indexOf ((List.range 80).map DemoB.hd)
def DemoB.F80 : IndexFile RecHeader := build (Params.real 1) 0 DemoB.m80
def DemoB.img80 : List Nat := imageOf (fun _ => List.replicate 32 0) DemoB.F80 [] 5400

-- evaluated: the descent through the root node on the bytes, the leaf windows, present and absent keys
set_option maxRecDepth 1000000 in
example : DemoB.F80.nodes.length = 1 ∧ DemoB.img80.length = 4764 ∧
    (match BIdx.fromFile DemoB.img80 with
      | some x => (BIdx.getLatest 1 x 0 == DemoB.F80.getLatest 0) && (BIdx.getLatest 1 x 79 == DemoB.F80.getLatest 79) &&
          (BIdx.getLatest 1 x 75 == some (some (DemoB.hd 75))) && (BIdx.findByKey 1 x 100 == some none) &&
          (BIdx.findByKey 1 x 3 == some (some [DemoB.hd 3]))
      | none => false) = true := by decide +kernel

-- and by the simulation theorem, for every key
example (k : Nat) :
    BIdx.getLatest 1 (openedImage 1 [] DemoB.m80 (List.replicate 32 0) 5400) k = DemoB.F80.getLatest k := by
  have hq : ∀ h ∈ (List.range 80).map DemoB.hd, HdrOK 1 h := by
    intro h hh
    obtain ⟨i, hi, rfl⟩ := List.mem_map.mp hh
    have hi' : i < 80 := List.mem_range.mp hi
    refine ⟨rfl, rfl, show RECORD_MAGIC_BYTE < 2 ^ 64 by decide, show 1 < 2 ^ 64 by decide,
      show 8 < 2 ^ 64 by decide, show 1 < 2 ^ 64 by decide, ?_, ?_⟩
    · show 20 + 67 * i < 2 ^ 64
      omega
    · show i < 2 ^ 64
      omega
  have sim := image_sim 1 [] DemoB.m80 (by decide) (indexOf_WF _) (List.replicate 32 0) (by decide) 5400 (by decide)
    (indexOf_keys_lt _ hq) (indexOf_leaf_ok _ hq) (by decide)
  have hst := C09.ondisk_latest_eq (Params.real 1) (C09.valid_real 1 (by decide)) 0 DemoB.m80 (indexOf_WF _)
    (by decide) k
  exact (getLatest_sim sim k _ hst).trans hst.symm

/-- duplicates not allowed: the second `write_with` of the same key and meta appends nothing, another meta does -/
def DemoM.cfgND : Cfg := { Demo.cfg with allowDup := false }

set_option maxRecDepth 1000000 in
example :
    let c := (CState.init DemoM.cfgND).runM DemoM.cfgND
      [.write 1 5 (some (some [7])) ⟨2, 1⟩, .closeActive, .settle, .write 1 6 (some (some [7])) ⟨1, 1⟩,
       .write 1 7 (some (some [8])) ⟨1, 2⟩]
    (c.abs DemoM.cfgND).blobs.map (fun b => b.recs.length) = [1, 1] := by decide

set_option maxRecDepth 1000000 in
/-- the meta range hypothesis is needed: the meta value `[256]` is stored as the byte `0`; a `read_with` for the meta
    value `[0]` finds that record, while the L2 store and the specification (which compare the lists) do not -/
theorem meta_range_needed :
    let ops : List MOp := [.write 1 5 (some (some [256])) ⟨1, 1⟩]
    ((CState.init Demo.cfg).runM Demo.cfg ops).readWith Demo.cfg 1 (some [0]) = .ok (.found (dataOf ⟨1, 1⟩)) ∧
    ((Store.init true).run (ops.map MOp.abs)).read 1 (some (some [0])) = .notFound ∧
    ¬ (∀ op ∈ ops, op.OK Demo.cfg) := by
  refine ⟨by decide, by decide, by decide⟩

end Pearl.E2E

#print axioms Pearl.E2E.refinement_meta
#print axioms Pearl.E2E.refinement_meta_run
#print axioms Pearl.E2E.meta_ops_extend
#print axioms Pearl.E2E.read_with_of_inv
#print axioms Pearl.E2E.end_to_end_read_with
#print axioms Pearl.E2E.end_to_end_contains_with
#print axioms Pearl.E2E.end_to_end_read_meta_history
#print axioms Pearl.E2E.write_with_dedup
#print axioms Pearl.E2E.ghost_not_read_meta
#print axioms Pearl.E2E.read_all_of_inv
#print axioms Pearl.E2E.end_to_end_read_all
#print axioms Pearl.E2E.end_to_end_read_all_plain
#print axioms Pearl.E2E.delete_of_inv
#print axioms Pearl.E2E.end_to_end_delete
#print axioms Pearl.E2E.meta_range_needed
#print axioms Pearl.E2E.index_bytes_lookups
#print axioms Pearl.E2E.bytes_of_inv
#print axioms Pearl.E2E.refinement_bytes_run
#print axioms Pearl.E2E.end_to_end_read_bytes
#print axioms Pearl.E2E.idx_sized_of_inputs
#print axioms Pearl.E2E.storeIdxSized_iff
#print axioms Pearl.E2E.end_to_end_read_bytes_inputs

/-
NOT YET PROVED
* bloom off-loading (`offload_buffer`) is not part of the concrete operations (the `read_meta_at` path that an
  off-loaded filter uses is modelled and proved at byte level, `checkFilter_toB`, but no operation off-loads);
* concurrency: the concrete operations are sequential (the read-side LTS of C08 is not composed with the bytes);
* byte level of the index file (section (8)): SHA-256 is not modelled — `hash` is an uninterpreted 32-byte field, so
  the check `hash_valid` of `get_records_headers` is the one step of the index code that `BIdx.load` does not perform;
  `BIdx` re-reads header, tree meta and root node with `from_file` at every access instead of caching them in the
  struct (the cached values are what `from_file` reads);
* the input-level size condition `StoreIdxSized` is sufficient, not necessary (it bounds the index file by three
  times the blob file; the exact condition is `IdxSized`, used by `end_to_end_read_bytes`);
* the meta maps have at most one entry (as in the L5 model); `Meta` equality of `filter_entries` is equality of the
  deserialised entry lists, which coincides with `HashMap` equality only for such maps;
* restart WITH index files (`from_file` + `acceptIndex` of C03b deciding between the byte image and regeneration) is
  not composed: `restart` drops the index files, as in the first part.
-/
