import Pearl.Proofs.EndToEndCrashWins
import Pearl.Proofs.EndToEndCrashGhost
import Pearl.Proofs.EndToEndCrashE8Gen
import Pearl.Proofs.EndToEndCrashTwo
import Pearl.Proofs.EndToEndCrashIdxSpec
import Pearl.Props.EndToEnd
/-
End-to-end crash recovery (property C06 on the composed storage).

"After a crash at any point (process kill = every issued write survives; power loss = any prefix of the un-synced tail
of each file may survive), start-up succeeds, every record acknowledged before the last sync of its blob is served,
records are served only if complete in the surviving prefix (known exception E8), no foreign bytes are ever
returned, and writes made after recovery are durable."

Model: `Pearl/Model/EndToEndCrash.lean` (new definitions only): `CState.crash cfg c cut` cuts the file of every blob
at `cut id` (index files removed, in-memory state gone), `CState.recover` is `Storage::init` on that directory with
the quarantine decision of `read_blobs` (the existing `CState.restart` when no file is rejected), `crashRecover`
their composition; `Store.crash` / `Store.crashRecover` the same at L2; `cutKind` / `fate` classify a cut.
Lemmas: `Pearl/Proofs/EndToEndCrash{,Blob,Store,Ref,Served,Torn,E8,Spec,Wins,Ghost,E8Gen,Two}.lean`.

Extension (last part of the file): the index files are THERE after the crash, at every written length
(`Pearl/Model/EndToEndCrashIdx.lean`, `Pearl/Proofs/EndToEndCrashIdx{,Blob,Store,Spec}.lean`): `truncated_index_rejected`,
`crash_with_indexes{,_noTorn,_torn,_run}`, `crash_with_indexes_spec{,_run}`; finding `crash_index_beside_header_only`.

All theorems are about an ARBITRARY state satisfying the invariant `CInv` — which holds after every history of
operations from the empty storage (`refinement_run`, `refinement_meta_run`); the `_run` versions say so.

Findings (statements that are FALSE of the model, refuted below on concrete witnesses):
* (1) as asked — "a cut anywhere inside the NEXT record's header leaves the records complete in the surviving prefix
  served" — is false: the scan hits the end of the file inside the header (`Bincode`), the WHOLE blob is moved to the
  corrupted directory, complete records included (C06 `scan_prefix_in_header`); reads then answer from the older
  blobs: a stale value resurfaces (`crash_in_header_quarantines`).  True: `crash_recover` (quarantined blobs are left
  out of the L2 store), `crash_prefix` (cuts at record boundaries / process kill).
* (2) as asked — "every record that ended at or before the synced size is served after recovery" — is false for the
  same reason: a power loss that cuts the un-synced tail inside a record header quarantines the blob together with
  its synced records (`synced_record_quarantined`).  True: `crash_synced_served` — the record is complete in the
  surviving file and loads from it with its original bytes; start-up either opens the blob with the record in it, or
  quarantines the blob (the file, with the record intact, is in the corrupted directory).
* the general form of the two-crash half of (4) — "after (3) non-validating, the second restart quarantines" — does not
  hold: (a) the appended bytes may by accident continue the torn record (C06); (b) NEW: when the records appended after
  the first recovery do not reach the claimed end of the torn record, the second non-validating scan stops silently at
  the torn record — no quarantine, the blob is opened, and the acknowledged post-recovery writes are not indexed:
  they are lost without any error (`two_crash_silent_loss`, general; `two_crash_silent_witness`).  The quarantine
  case is stated on the witness (`two_crash_witness`).
* "start-up with the index files a crash can leave = start-up with the index files removed" is false for ONE cut: a blob
  file cut back to exactly its 20 header bytes is opened (empty) without an index file and QUARANTINED when a truncated /
  stale / half-written index file lies next to it (`crash_index_beside_header_only`,
  `crash_with_indexes_header_only_false`).  True: `crash_with_indexes` (hypothesis: no index file next to such a blob).
-/
namespace Pearl.E2E
open Pearl Pearl.BPTree Pearl.Container

/-! ## start-up always succeeds -/

/-- **`init_total` on the composed storage**: for every state satisfying the invariant and EVERY cut — clean, inside
    a blob header, inside a record header, inside meta / data — start-up on the crashed directory does not fail -/
theorem crash_init_total {cfg : Cfg} {c : CState} (hinv : CInv cfg c) (cut : Nat → Nat) (lazy : Bool) :
    ∃ c₁, c.crashRecover cfg cut lazy = some c₁ :=
  ⟨_, crashRecover_eq hinv cut lazy⟩

/-- the history variable `ghost` (which `crash` truncates to the records complete in the surviving prefix) is not read
    by crash + start-up: for ANY state, the physical part — files, indexes, filters, container, `next_blob_id` — of
    the recovered storage is a function of the physical part of the state before the crash; and start-up with
    quarantine is the existing `restart` whenever that does not fail -/
theorem crash_ghost_not_read (cfg : Cfg) (c : CState) (cut : Nat → Nat) (lazy : Bool) :
    (c.eraseGhost.crashRecover cfg cut lazy).map CState.eraseGhost =
      (c.crashRecover cfg cut lazy).map CState.eraseGhost ∧
    (∀ bs, regenAll cfg (sortById c.blobs) = some bs → c.recover cfg lazy = some (c.restart cfg lazy)) :=
  ⟨crashRecover_ghost_irrelevant cfg c cut lazy, fun bs h => recover_eq_restart cfg c lazy bs h⟩

/-! ## (1) `crash_prefix` -/

/-- what the history variable of a crashed blob is (`complete`, computed from the record lengths), in terms of the
    BYTES of the file: the blob file of the records it keeps fits into the surviving prefix and is its beginning;
    the blob file of one more record does not fit -/
theorem crash_ghost_spec {cfg : Cfg} {c : CState} (hinv : CInv cfg c) (b : CBlob) (hb : b ∈ c.blobs) (t : Nat)
    (h20 : blobHeaderSize ≤ t) :
    (blobBytes cfg.klen (full (b.crash cfg t).ghost)).length ≤ t ∧
    (b.crash cfg t).file.take (blobBytes cfg.klen (full (b.crash cfg t).ghost)).length =
      blobBytes cfg.klen (full (b.crash cfg t).ghost) ∧
    ((b.crash cfg t).ghost.length < b.ghost.length →
      t < (blobBytes cfg.klen (full (b.ghost.take ((b.crash cfg t).ghost.length + 1)))).length) := by
  have hbi : BlobInv cfg b := CInvG.blobInv hinv hb
  obtain ⟨h1, h2⟩ := complete_spec cfg.klen b.ghost t h20
  have hle := complete_le cfg.klen b.ghost t
  have hg : (b.crash cfg t).ghost = b.ghost.take (complete cfg.klen b.ghost t) := rfl
  have hl : (b.crash cfg t).ghost.length = complete cfg.klen b.ghost t := by
    rw [hg, List.length_take]; omega
  rw [hl, hg, file_length, file_length]
  refine ⟨h1, ?_, h2⟩
  show (b.file.take t).take _ = _
  rw [List.take_take, Nat.min_eq_left h1, hbi.file, ← boundary_length, full_take]
  exact blobBytes_take_boundary cfg.klen (full b.ghost) _


/-- **`crash_prefix`**: every cut at a record boundary (`CleanCuts`: the end of a record, the end of the blob
    header, or at / after the end of the file).  Then start-up with quarantine is the existing `restart` of the
    crashed directory; the state after crash + restart satisfies `CInv`; the crashed directory abstracts to the L2
    store in which each blob holds exactly the records that are complete in its surviving prefix
    (`Store.crash`: `recs.take (complete klen recs (cut id))`), the restarted storage to its `Store.restart`; and reads
    answer per `Spec` on that pruned history -/
theorem crash_prefix {cfg : Cfg} (hcfg : cfg.OK) {c : CState} (hinv : CInv cfg c) (cut : Nat → Nat) (lazy : Bool)
    (hclean : CleanCuts cfg c cut) :
    c.crashRecover cfg cut lazy = some ((c.crash cfg cut).restart cfg lazy) ∧
    CInv cfg ((c.crash cfg cut).restart cfg lazy) ∧
    (c.crash cfg cut).abs cfg = (c.abs cfg).crash cfg.klen cut ∧
    ((c.crash cfg cut).restart cfg lazy).abs cfg = ((c.abs cfg).crash cfg.klen cut).restart lazy ∧
    (∀ k, ((c.crash cfg cut).restart cfg lazy).read cfg k =
      .ok ((Spec.latest ((c.abs cfg).crash cfg.klen cut).history k).map (fun p => dataOf p.r.data))) ∧
    (∀ k, ((c.crash cfg cut).restart cfg lazy).contains cfg k =
      .ok ((Spec.latest ((c.abs cfg).crash cfg.klen cut).history k).map (·.r.ts))) := by
  have h1 := crashRecover_eq_restart hinv cut lazy hclean.noQuarantine
  obtain ⟨c₁, hc₁, hinv₁, habs₁⟩ := crash_recover_ref hcfg hinv cut lazy hclean.noTorn
  rw [h1] at hc₁
  cases hc₁
  rw [Store.crashRecover_clean hinv.wf cut lazy hclean.abs] at habs₁
  refine ⟨h1, hinv₁, crash_abs cfg c cut, habs₁, fun k => ?_, fun k => ?_⟩
  · rw [(read_of_inv hcfg _ hinv₁ k).1, habs₁, Store.crash_restart_latest hinv.wf cut lazy k]
  · rw [(read_of_inv hcfg _ hinv₁ k).2, habs₁, Store.crash_restart_latest hinv.wf cut lazy k]

/-- **process kill** (every issued write survives: every `cut ≥` the file length): crash + index-less start-up
    changes no answer -/
theorem crash_process_kill {cfg : Cfg} (hcfg : cfg.OK) {c : CState} (hinv : CInv cfg c) (cut : Nat → Nat) (lazy : Bool)
    (hkill : ∀ b ∈ c.blobs, b.file.length ≤ cut b.id) :
    c.crashRecover cfg cut lazy = some ((c.crash cfg cut).restart cfg lazy) ∧
    CInv cfg ((c.crash cfg cut).restart cfg lazy) ∧
    (∀ k, ((c.crash cfg cut).restart cfg lazy).read cfg k = c.read cfg k) ∧
    (∀ k, ((c.crash cfg cut).restart cfg lazy).contains cfg k = c.contains cfg k) := by
  obtain ⟨h1, h2, _, _, h5, h6⟩ := crash_prefix hcfg hinv cut lazy (cleanCuts_of_ge hinv hkill)
  have hhist : ((c.abs cfg).crash cfg.klen cut).history = (c.abs cfg).history := by
    apply Store.crash_history_of_ge
    intro b hb
    rw [abs_blobs] at hb
    obtain ⟨b0, hb0, rfl⟩ := List.mem_map.mp hb
    have := hkill b0 hb0
    rw [(CInvG.blobInv hinv hb0).file, file_length] at this
    exact this
  refine ⟨h1, h2, fun k => ?_, fun k => ?_⟩
  · rw [h5 k, hhist, (read_of_inv hcfg c hinv k).1]
  · rw [h6 k, hhist, (read_of_inv hcfg c hinv k).2]

/-- the pruned history, spelled out -/
theorem crash_history (cfg : Cfg) (c : CState) (cut : Nat → Nat) :
    ((c.abs cfg).crash cfg.klen cut).history =
      (c.abs cfg).history.map (fun p => (p.1, p.2.take (complete cfg.klen p.2 (cut p.1)))) :=
  Store.crash_history cfg.klen (c.abs cfg) cut

/-- **`crash_prefix` for every history** (operations with or without metadata from the empty storage) -/
theorem crash_prefix_run {cfg : Cfg} (hcfg : cfg.OK) (ops : List MOp) (hops : ∀ op ∈ ops, op.OK cfg)
    (hsz : StoreSized cfg.klen ((Store.init cfg.allowDup).run (ops.map MOp.abs))) (cut : Nat → Nat) (lazy : Bool)
    (hclean : CleanCuts cfg ((CState.init cfg).runM cfg ops) cut) :
    let c := (CState.init cfg).runM cfg ops
    let s := (Store.init cfg.allowDup).run (ops.map MOp.abs)
    c.crashRecover cfg cut lazy = some ((c.crash cfg cut).restart cfg lazy) ∧
    CInv cfg ((c.crash cfg cut).restart cfg lazy) ∧
    ((c.crash cfg cut).restart cfg lazy).abs cfg = (s.crash cfg.klen cut).restart lazy ∧
    (∀ k, ((c.crash cfg cut).restart cfg lazy).read cfg k =
      .ok ((Spec.latest (s.crash cfg.klen cut).history k).map (fun p => dataOf p.r.data))) := by
  intro c s
  obtain ⟨habs, hinv, _⟩ := runM_ref hcfg ops hops hsz
  have := crash_prefix hcfg hinv cut lazy hclean
  rw [habs] at this
  exact ⟨this.1, this.2.1, this.2.2.2.1, this.2.2.2.2.1⟩

/-- the two ways to a clean cut: record boundaries, and process kill (every issued write survives) -/
theorem clean_cuts {cfg : Cfg} {c : CState} (hinv : CInv cfg c) (cut : Nat → Nat) :
    ((∀ b ∈ c.blobs, ∃ n, n ≤ b.ghost.length ∧ cut b.id = Fs.contentLen cfg.klen (b.ghost.take n)) →
      CleanCuts cfg c cut) ∧
    ((∀ b ∈ c.blobs, b.file.length ≤ cut b.id) → CleanCuts cfg c cut) :=
  ⟨cleanCuts_of_boundary, cleanCuts_of_ge hinv⟩

/-- the end of record `n - 1` in the bytes of the file is `Fs.contentLen` of the first `n` records -/
theorem boundary_is_contentLen {cfg : Cfg} {c : CState} (hinv : CInv cfg c) (b : CBlob) (hb : b ∈ c.blobs) (n : Nat) :
    (blobBytes cfg.klen ((b.ghost.take n).map (fun r => (r, dataOf r.data)))).length =
      Fs.contentLen cfg.klen (b.ghost.take n) ∧
    b.file.length = Fs.contentLen cfg.klen b.ghost :=
  ⟨file_length cfg.klen (b.ghost.take n), by rw [(CInvG.blobInv hinv hb).file]; exact file_length cfg.klen b.ghost⟩

/-- **(1), general form**: for EVERY cut at which no blob is opened with a torn tail record (finding E8 — excluded
    e.g. by `validate_data_during_index_regen` when every record has data), start-up succeeds, the recovered
    storage satisfies `CInv` and abstracts to `Store.crashRecover`: the blobs whose blob header or next record header
    is cut are quarantined (left out, their ids reserved), every other blob holds exactly the records that are
    complete in its surviving prefix; reads answer per `Spec` on that history -/
theorem crash_recover {cfg : Cfg} (hcfg : cfg.OK) {c : CState} (hinv : CInv cfg c) (cut : Nat → Nat) (lazy : Bool)
    (hnt : NoTorn cfg c cut) :
    ∃ c₁, c.crashRecover cfg cut lazy = some c₁ ∧ CInv cfg c₁ ∧
      c₁.abs cfg = (c.abs cfg).crashRecover cfg.klen cfg.validateData cut lazy ∧
      (StoreMetaOK (c.abs cfg) → StoreMetaOK (c₁.abs cfg)) ∧
      (∀ k, c₁.read cfg k = .ok ((Spec.latest
        ((c.abs cfg).crashRecover cfg.klen cfg.validateData cut lazy).history k).map (fun p => dataOf p.r.data))) := by
  obtain ⟨c₁, hc₁, hinv₁, habs₁⟩ := crash_recover_ref hcfg hinv cut lazy hnt
  refine ⟨c₁, hc₁, hinv₁, habs₁, fun hm => ?_, fun k => ?_⟩
  · rw [habs₁]; exact crashRecover_metaOK hinv.wf hm cut lazy
  · rw [(read_of_inv hcfg _ hinv₁ k).1, habs₁]

/-- with data validation at index regeneration and only records with data, no cut is accepted torn -/
theorem noTorn_of_validate {cfg : Cfg} {c : CState} (cut : Nat → Nat) (hv : cfg.validateData = true)
    (hdata : ∀ b ∈ c.blobs, ∀ r ∈ b.ghost, hasData r = true) : NoTorn cfg c cut := by
  intro b hb n hf
  obtain ⟨_, r, hr, hvd⟩ := fate_opened_true hf
  rw [hv, hdata b hb r (List.mem_of_getElem? hr)] at hvd
  cases hvd

/-! ## (2) `crash_synced_served` -/

/-- **`crash_synced_served`**, for any `synced ≤ cut` per blob (the file layer provides one: `syncedOf`, below):
    a record that ended at or before the synced size of its blob
    (a) is complete in the surviving prefix,
    (b) loads from the surviving file with its original bytes (`Entry::load` with header and data checksum
        validation, by the header that was pushed for it),
    (c) after start-up, is a record of the opened blob — same position, the surviving file —, or the blob is
        quarantined: no blob of the recovered storage has its id (the file, with the record intact, is in the
        corrupted directory).  Quarantine does happen: `synced_record_quarantined`. -/
theorem crash_synced_served {cfg : Cfg} (hcfg : cfg.OK) {c : CState} (hinv : CInv cfg c) (cut synced : Nat → Nat)
    (hcut : ∀ b ∈ c.blobs, synced b.id ≤ cut b.id) {b : CBlob} (hb : b ∈ c.blobs) {j : Nat} {r : Rec}
    (hr : b.ghost[j]? = some r) (hsync : Fs.contentLen cfg.klen (b.ghost.take (j + 1)) ≤ synced b.id) :
    j < complete cfg.klen b.ghost (cut b.id) ∧
    (∃ h, (hdrsOf cfg b.ghost)[j]? = some h ∧
      entryLoad (b.file.take (cut b.id)) h = .ok (serMeta r.mt, if r.del then [] else dataOf r.data)) ∧
    (∀ lazy, ∃ c₁, c.crashRecover cfg cut lazy = some c₁ ∧
      ((fate cfg.klen cfg.validateData b.ghost (cut b.id) = .quarantined ∧ ∀ b₁ ∈ c₁.blobs, b₁.id ≠ b.id) ∨
       (∃ b₁ ∈ c₁.blobs, b₁.id = b.id ∧ b₁.file = b.file.take (cut b.id) ∧ b₁.ghost[j]? = some r))) := by
  have hjl : j < b.ghost.length := by
    rcases Nat.lt_or_ge j b.ghost.length with h | h
    · exact h
    · rw [List.getElem?_eq_none h] at hr; cases hr
  have hend : Fs.contentLen cfg.klen (b.ghost.take (j + 1)) ≤ cut b.id := Nat.le_trans hsync (hcut b hb)
  have hcomp := lt_complete_of_end_le cfg.klen b.ghost (cut b.id) j hjl hend
  have hbi : BlobInv cfg b := CInvG.blobInv hinv hb
  have hjh : j < (hdrsOf cfg b.ghost).length := by rw [hdrsOf_length]; exact hjl
  refine ⟨hcomp, ⟨_, List.getElem?_eq_getElem hjh,
    entryLoad_of_end_le hbi (cut b.id) j r _ hr (List.getElem?_eq_getElem hjh) hend⟩, fun lazy => ?_⟩
  refine ⟨_, crashRecover_eq hinv cut lazy, ?_⟩
  cases hf : fate cfg.klen cfg.validateData b.ghost (cut b.id) with
  | quarantined =>
    exact Or.inl ⟨rfl, quarantined_not_in_recovered hcfg hinv cut lazy (crashRecover_eq hinv cut lazy) hb hf⟩
  | opened n torn =>
    right
    obtain ⟨b₁, hb₁, h1, h2, h3, _⟩ :=
      survivor_in_recovered hcfg hinv cut lazy (crashRecover_eq hinv cut lazy) hb hf
    refine ⟨b₁, hb₁, h1, h2, ?_⟩
    rw [h3, List.getElem?_take, if_pos (by rw [fate_complete hf]; exact hcomp)]
    exact hr

/-- … so the record is a record of the pruned history on which `crash_prefix` / `crash_recover` say the reads
    answer (at the same position of the same blob) -/
theorem crash_synced_in_history {cfg : Cfg} {c : CState} (cut synced : Nat → Nat)
    (hcut : ∀ b ∈ c.blobs, synced b.id ≤ cut b.id) {b : CBlob} (hb : b ∈ c.blobs) {j : Nat} {r : Rec}
    (hr : b.ghost[j]? = some r) (hsync : Fs.contentLen cfg.klen (b.ghost.take (j + 1)) ≤ synced b.id) :
    ∃ recs, (b.id, recs) ∈ ((c.abs cfg).crash cfg.klen cut).history ∧ recs[j]? = some r := by
  have hjl : j < b.ghost.length := by
    rcases Nat.lt_or_ge j b.ghost.length with h | h
    · exact h
    · rw [List.getElem?_eq_none h] at hr; cases hr
  have hcomp := lt_complete_of_end_le cfg.klen b.ghost (cut b.id) j hjl (Nat.le_trans hsync (hcut b hb))
  refine ⟨b.ghost.take (complete cfg.klen b.ghost (cut b.id)), ?_, ?_⟩
  · rw [Store.crash_history]
    apply List.mem_map.mpr
    refine ⟨(b.id, b.ghost), ?_, rfl⟩
    rw [Store.history_eq_map, abs_blobs, List.map_map]
    exact List.mem_map.mpr ⟨b, hb, rfl⟩
  · rw [List.getElem?_take, if_pos hcomp]; exact hr

/-- **(2) with the synced sizes of the file layer** (`Pearl/Model/Fs.lean`: the header sync at creation, the sync
    before a dump, the sync when a blob is closed, `fsyncdata`).  `s` is a state of the file layer whose L2 store is
    the abstraction of `c`, with the invariants `Fs.Full` and `Fs.CountersOK` that hold on every run of the file
    layer (`Fs.run_full`, `Fs.run_diskInv`).  For every power-loss cut (`syncedOf s id ≤ cut id`):
    the conclusions of `crash_synced_served` for `synced = syncedOf s`, and no blob header is ever cut (it was
    synced when the blob was created) -/
theorem crash_synced_served_fs {cfg : Cfg} (hcfg : cfg.OK) {c : CState} (hinv : CInv cfg c) (s : Fs.FsState)
    (hs : s.store = c.abs cfg) (hk : s.klen = cfg.klen) (hfull : Fs.Full s) (hcnt : Fs.CountersOK s.disk)
    (cut : Nat → Nat) (hcut : ∀ b ∈ c.blobs, syncedOf s b.id ≤ cut b.id) :
    (∀ b ∈ c.blobs, blobHeaderSize ≤ syncedOf s b.id ∧ syncedOf s b.id ≤ b.file.length ∧
      cutKind cfg.klen b.ghost (cut b.id) ≠ .blobHeader) ∧
    (∀ b ∈ c.blobs, ∀ j r, b.ghost[j]? = some r →
      Fs.contentLen cfg.klen (b.ghost.take (j + 1)) ≤ syncedOf s b.id →
      j < complete cfg.klen b.ghost (cut b.id) ∧
      (∃ h, (hdrsOf cfg b.ghost)[j]? = some h ∧
        entryLoad (b.file.take (cut b.id)) h = .ok (serMeta r.mt, if r.del then [] else dataOf r.data)) ∧
      (∀ lazy, ∃ c₁, c.crashRecover cfg cut lazy = some c₁ ∧
        ((fate cfg.klen cfg.validateData b.ghost (cut b.id) = .quarantined ∧ ∀ b₁ ∈ c₁.blobs, b₁.id ≠ b.id) ∨
         (∃ b₁ ∈ c₁.blobs, b₁.id = b.id ∧ b₁.file = b.file.take (cut b.id) ∧ b₁.ghost[j]? = some r)))) := by
  refine ⟨fun b hb => ?_, fun b hb j r hr hsync => crash_synced_served hcfg hinv cut (syncedOf s) hcut hb hr hsync⟩
  obtain ⟨h1, h2⟩ := syncedOf_bounds hinv s hs hk hfull hcnt b hb
  refine ⟨h1, h2, fun hk => ?_⟩
  have := cutKind_blobHeader hk
  have := hcut b hb
  omega

/-- … in particular for every run of the file layer: its final state has both invariants -/
theorem crash_synced_served_fs_run {cfg : Cfg} (hcfg : cfg.OK) {c : CState} (hinv : CInv cfg c)
    (dup : Bool) (limit : Nat) (unc rs : Bool) (fops : List Fs.FsOp)
    (hs : (Fs.run dup limit cfg.klen unc rs fops).1.store = c.abs cfg)
    (cut : Nat → Nat) (hcut : ∀ b ∈ c.blobs, syncedOf (Fs.run dup limit cfg.klen unc rs fops).1 b.id ≤ cut b.id)
    {b : CBlob} (hb : b ∈ c.blobs) {j : Nat} {r : Rec} (hr : b.ghost[j]? = some r)
    (hsync : Fs.contentLen cfg.klen (b.ghost.take (j + 1)) ≤ syncedOf (Fs.run dup limit cfg.klen unc rs fops).1 b.id) :
    cutKind cfg.klen b.ghost (cut b.id) ≠ .blobHeader ∧
    j < complete cfg.klen b.ghost (cut b.id) ∧
    (∃ h, (hdrsOf cfg b.ghost)[j]? = some h ∧
      entryLoad (b.file.take (cut b.id)) h = .ok (serMeta r.mt, if r.del then [] else dataOf r.data)) := by
  have := crash_synced_served_fs hcfg hinv (Fs.run dup limit cfg.klen unc rs fops).1 hs
    (Fs.run_config dup limit cfg.klen unc rs fops).1 (Fs.run_full dup limit cfg.klen unc rs fops)
    (Fs.run_diskInv dup limit cfg.klen unc rs fops).counters cut hcut
  exact ⟨(this.1 b hb).2.2, (this.2 b hb j r hr hsync).1, (this.2 b hb j r hr hsync).2.1⟩

/-! ## (3) `crash_torn_tail_E8` -/

/-- the validating scan rejects a tail cut inside meta / data exactly when the record has data -/
theorem fate_body {klen : Nat} {v : Bool} {recs : List Rec} {t n : Nat} {r : Rec}
    (hk : cutKind klen recs t = .body n) (hr : recs[n]? = some r) :
    fate klen v recs t = if v && hasData r then .quarantined else .opened n true := by
  unfold fate
  rw [hk]
  simp only [hr]

/-- **`crash_torn_tail_E8`, the bytes**: the tail record `n` of a blob cut inside meta / data with its header
    complete.  The surviving file is the torn file of `C05.torn_tail_general`, hence: the NON-validating scan returns
    the headers of the first `n + 1` records — the torn one included —, the validating scan does so iff the record has
    no data and fails the whole blob with `Bincode` otherwise, and `Entry::load` of the torn record's header fails
    with `Bincode` -/
theorem crash_torn_tail_E8_bytes {cfg : Cfg} {b : CBlob} (hb : BlobInv cfg b) {t n : Nat} (r : Rec)
    (hk : cutKind cfg.klen b.ghost t = .body n) (hr : b.ghost[n]? = some r) :
    ∃ cutBytes,
      b.file.take t = C05.tornFile (recordsOf cfg.klen (full (b.ghost.take n))) (recOf cfg.klen r) cutBytes ∧
      cutBytes <+: serMeta (recOf cfg.klen r).mt ++ (recOf cfg.klen r).data ∧
      cutBytes ≠ serMeta (recOf cfg.klen r).mt ++ (recOf cfg.klen r).data ∧
      rawRecordsLoad cfg.klen false (b.file.take t) = .ok ((hdrsOf cfg b.ghost).take (n + 1)) ∧
      rawRecordsLoad cfg.klen true (b.file.take t) =
        (if hasData r then .error (.load .bincode) else .ok ((hdrsOf cfg b.ghost).take (n + 1))) ∧
      (∀ h, (hdrsOf cfg b.ghost)[n]? = some h → entryLoad (b.file.take t) h = .error .bincode) := by
  obtain ⟨cutBytes, hfile, hp, hne⟩ := crash_file_torn hb r hk hr
  have hn := (cutKind_body hk).2.1
  have hsnoc : recordsOf cfg.klen (full (b.ghost.take n)) ++ [recOf cfg.klen r] =
      recordsOf cfg.klen (full (b.ghost.take (n + 1))) := by
    rw [recordsOf_full, recordsOf_full, List.take_succ_eq_append_getElem hn, List.map_append]
    have : b.ghost[n] = r := by
      have := List.getElem?_eq_getElem hn
      rw [hr] at this
      exact (Option.some.inj this).symm
    rw [this]; rfl
  have hts : ∀ x ∈ full (b.ghost.take (n + 1)), x.1.ts < 2 ^ 64 :=
    fun x hx => hb.ts _ (List.mem_of_mem_take (mem_full hx))
  have hg : ∀ X ∈ recordsOf cfg.klen (full (b.ghost.take n)) ++ [recOf cfg.klen r],
      X.WF cfg.klen ∧ X.header.timestamp < 2 ^ 64 := by
    rw [hsnoc]; exact goodRecs_recordsOf cfg.klen _ hts
  have hlen : (appendRecords serBlobHeader (recordsOf cfg.klen (full (b.ghost.take n)) ++ [recOf cfg.klen r])).length
      < 2 ^ 64 := by
    rw [hsnoc]
    show (blobBytes cfg.klen (full (b.ghost.take (n + 1)))).length < 2 ^ 64
    have := contentLen_take_le cfg.klen b.ghost (n + 1)
    have h2 := hb.size
    rw [hb.file, file_length] at h2
    rw [file_length]; omega
  obtain ⟨g1, g2, g3⟩ := C05.torn_tail_general cfg.klen _ _ cutBytes hg hlen hp hne
  have hhdrs : writtenHeaders serBlobHeader (recordsOf cfg.klen (full (b.ghost.take n)) ++ [recOf cfg.klen r]) =
      (hdrsOf cfg b.ghost).take (n + 1) := by
    rw [hsnoc, ← hdrsOf_take]; rfl
  rw [hhdrs] at g1 g2
  refine ⟨cutBytes, hfile, hp, hne, by rw [hfile]; exact g1, ?_, ?_⟩
  · rw [hfile, g2]
    have hd : (recOf cfg.klen r).data = (if r.del then [] else dataOf r.data) := recordOf_data cfg.klen r _
    by_cases hdata : hasData r = true
    · rw [if_neg (by rw [hd]; exact (hasData_iff r).mpr hdata), if_pos hdata]
    · rw [if_pos (by
        rw [hd]
        apply Classical.byContradiction
        intro hne'
        exact hdata ((hasData_iff r).mp hne')), if_neg hdata]
  · intro h hh
    rw [hb.file]
    exact C06.torn_record_unreadable cfg.klen (full b.ghost) n t h (fun x hx => hb.ts _ (mem_full hx))
      (cutIn_of_body hk).1 hh

/-- **`crash_torn_tail_E8`, the storage** (`torn_recover`): the tail record `n` of the active blob `a` is cut inside
    meta / data and accepted (`fate = .opened n true`: the non-validating restart, or a record without data).
    Start-up yields `c₁` whose active blob holds the cut file, the `n` complete records as its history, and an index
    with `n + 1` headers — the torn record is indexed.  With `c₂` the storage recovered had the record been written
    completely (`cutPlus`; `c₂` satisfies `CInv`, so it answers per `Spec` on the history that contains the torn
    record): `c₁` is `c₂` with the cut file in the active blob; `contains` answers alike — the torn record is
    reported present —; `read` answers alike or fails with the load error: it NEVER returns foreign bytes -/
theorem crash_torn_tail_E8 {cfg : Cfg} (hcfg : cfg.OK) {c : CState} (hinv : CInv cfg c) {a : CBlob}
    (ha : c.active = some a) (cut : Nat → Nat) {n : Nat}
    (hf : fate cfg.klen cfg.validateData a.ghost (cut a.id) = .opened n true)
    (hclosed : ∀ b ∈ closedBlobs c.cont, ∀ m, fate cfg.klen cfg.validateData b.ghost (cut b.id) ≠ .opened m true) :
    ∃ c₁ c₂, c.crashRecover cfg cut false = some c₁ ∧
      c.crashRecover cfg (cutPlus cfg a n cut) false = some c₂ ∧
      CInv cfg c₂ ∧
      c₂.abs cfg = (c.abs cfg).crashRecover cfg.klen cfg.validateData (cutPlus cfg a n cut) false ∧
      c₁ = { c₂ with active := some (recovered cfg a (cut a.id) n (n + 1)) } ∧
      (∀ k, c₁.contains cfg k = c₂.contains cfg k) ∧
      (∀ k, c₁.read cfg k = c₂.read cfg k ∨ c₁.read cfg k = .error (.load .bincode)) ∧
      (∀ k data, c₁.read cfg k = .ok (.found data) →
        ∃ p, Spec.latest (c₂.abs cfg).history k = .found p ∧ data = dataOf p.r.data) := by
  obtain ⟨c₁, c₂, h1, h2, h3, h4, _, h6, _, h8, h9⟩ := torn_recover hcfg hinv ha cut hf hclosed
  refine ⟨c₁, c₂, h1, h2, h3, h4, h6, h8, h9, ?_⟩
  intro k data hd
  have hr2 : c₂.read cfg k = .ok (.found data) := by
    rcases h9 k with h | h
    · rw [← h]; exact hd
    · rw [h] at hd; cases hd
  rw [(read_of_inv hcfg c₂ h3 k).1] at hr2
  cases hl : Spec.latest (c₂.abs cfg).history k with
  | found p =>
    rw [hl] at hr2
    simp only [ReadResult.map, Except.ok.injEq, ReadResult.found.injEq] at hr2
    exact ⟨p, rfl, hr2.symm⟩
  | deleted t => rw [hl] at hr2; simp [ReadResult.map] at hr2
  | notFound => rw [hl] at hr2; simp [ReadResult.map] at hr2

/-- **`crash_torn_tail_E8` for ANY blob and both start-up modes** (`torn_recover_any`): the torn tail may be that of a
    closed blob (a deletion marker appended by `delete`), `lazy` is arbitrary.  The recovered storage `c₁` is `c₂` —
    the storage recovered had the record been written completely, which satisfies `CInv` — with the cut file in the
    blob of that id, wherever it sits (active, or a child of the container, dumped or not); `contains` answers
    alike, `read` answers alike or fails with the load error, and never returns foreign bytes -/
theorem crash_torn_tail_E8_any {cfg : Cfg} (hcfg : cfg.OK) {c : CState} (hinv : CInv cfg c) {b₀ : CBlob}
    (hb₀ : b₀ ∈ c.blobs) (cut : Nat → Nat) (lazy : Bool) {n : Nat}
    (hf : fate cfg.klen cfg.validateData b₀.ghost (cut b₀.id) = .opened n true)
    (hothers : ∀ b ∈ c.blobs, b ≠ b₀ → ∀ m, fate cfg.klen cfg.validateData b.ghost (cut b.id) ≠ .opened m true) :
    ∃ c₁ c₂, c.crashRecover cfg cut lazy = some c₁ ∧
      c.crashRecover cfg (cutPlus cfg b₀ n cut) lazy = some c₂ ∧
      CInv cfg c₂ ∧
      c₂.abs cfg = (c.abs cfg).crashRecover cfg.klen cfg.validateData (cutPlus cfg b₀ n cut) lazy ∧
      c₁ = c₂.mapBlobs (refileId b₀.id (b₀.file.take (cut b₀.id)) (b₀.ghost.take n)) ∧
      (∀ k, c₁.contains cfg k = c₂.contains cfg k) ∧
      (∀ k, c₁.read cfg k = c₂.read cfg k ∨ c₁.read cfg k = .error (.load .bincode)) ∧
      (∀ k data, c₁.read cfg k = .ok (.found data) →
        ∃ p, Spec.latest (c₂.abs cfg).history k = .found p ∧ data = dataOf p.r.data) := by
  obtain ⟨c₁, c₂, h1, h2, h3, h4, h5, h6, h7⟩ := torn_recover_any hcfg hinv hb₀ cut lazy hf hothers
  refine ⟨c₁, c₂, h1, h2, h3, h4, h5, h6, h7, ?_⟩
  intro k data hd
  have hr2 : c₂.read cfg k = .ok (.found data) := by
    rcases h7 k with h | h
    · rw [← h]; exact hd
    · rw [h] at hd; cases hd
  rw [(read_of_inv hcfg c₂ h3 k).1] at hr2
  cases hl : Spec.latest (c₂.abs cfg).history k with
  | found p =>
    rw [hl] at hr2
    simp only [ReadResult.map, Except.ok.injEq, ReadResult.found.injEq] at hr2
    exact ⟨p, rfl, hr2.symm⟩
  | deleted t => rw [hl] at hr2; simp [ReadResult.map] at hr2
  | notFound => rw [hl] at hr2; simp [ReadResult.map] at hr2

/-- **… and `read` of the torn record's key fails with the load error** when the read path ranks the torn record
    first (it is not a deletion marker; no earlier record of its key in the active blob and no record of its key in a
    closed blob has a greater timestamp), while `contains` reports it present -/
theorem crash_torn_tail_E8_read_fails {cfg : Cfg} (hcfg : cfg.OK) {c : CState} (hinv : CInv cfg c) {a : CBlob}
    (ha : c.active = some a) (cut : Nat → Nat) {n : Nat}
    (hf : fate cfg.klen cfg.validateData a.ghost (cut a.id) = .opened n true)
    (hclosed : ∀ b ∈ closedBlobs c.cont, ∀ m, fate cfg.klen cfg.validateData b.ghost (cut b.id) ≠ .opened m true)
    (r : Rec) (hr : a.ghost[n]? = some r) (hdel : r.del = false)
    (hA : ∀ j r', j < n → a.ghost[j]? = some r' → r'.key = r.key → r'.ts ≤ r.ts)
    (hB : ∀ b ∈ closedBlobs c.cont, ∀ r' ∈ b.ghost, r'.key = r.key → r'.ts ≤ r.ts) :
    ∃ c₁, c.crashRecover cfg cut false = some c₁ ∧ c₁.read cfg r.key = .error (.load .bincode) ∧
      c₁.contains cfg r.key = .ok (.found r.ts) :=
  torn_read_fails hcfg hinv ha cut hf hclosed r hr hdel hA hB

/-- **the validating restart** (`validate_data_during_index_regen`): the same cut, the record has data — the blob is
    quarantined: start-up succeeds, the recovered storage satisfies `CInv`, holds no blob with that id, and answers
    per `Spec` on the history without that blob (`Store.crashRecover`) -/
theorem crash_torn_tail_validating {cfg : Cfg} (hcfg : cfg.OK) {c : CState} (hinv : CInv cfg c) {a : CBlob}
    (ha : a ∈ c.blobs) (cut : Nat → Nat) (lazy : Bool) {n : Nat} {r : Rec}
    (hk : cutKind cfg.klen a.ghost (cut a.id) = .body n) (hr : a.ghost[n]? = some r)
    (hv : cfg.validateData = true) (hdata : hasData r = true)
    (hothers : ∀ b ∈ c.blobs, b ≠ a → ∀ m, fate cfg.klen cfg.validateData b.ghost (cut b.id) ≠ .opened m true) :
    fate cfg.klen cfg.validateData a.ghost (cut a.id) = .quarantined ∧
    ∃ c₁, c.crashRecover cfg cut lazy = some c₁ ∧ CInv cfg c₁ ∧ (∀ b₁ ∈ c₁.blobs, b₁.id ≠ a.id) ∧
      c₁.abs cfg = (c.abs cfg).crashRecover cfg.klen cfg.validateData cut lazy := by
  have hfate : fate cfg.klen cfg.validateData a.ghost (cut a.id) = .quarantined := by
    rw [fate_body hk hr, hv, hdata]; rfl
  have hnt : NoTorn cfg c cut := by
    intro b hb m
    by_cases hba : b = a
    · subst hba; rw [hfate]; intro h; cases h
    · exact hothers b hb hba m
  obtain ⟨c₁, hc₁, hinv₁, habs₁⟩ := crash_recover_ref hcfg hinv cut lazy hnt
  exact ⟨hfate, c₁, hc₁, hinv₁, quarantined_not_in_recovered hcfg hinv cut lazy hc₁ ha hfate, habs₁⟩

/-! ## (4) `post_recovery_write_durable` -/

/-- **the second start-up after an accepted torn tail, the SILENT case** (general, on a blob of the storage): record
    `n` of `b` was cut at `t` inside meta / data and accepted by the first (non-validating) start-up; then `R'` was
    appended — an acknowledged write; `Blob::write` puts it at the end of the file, `t`, inside the region the torn
    header claims — without reaching the claimed end of the torn record.  The next non-validating index-less
    start-up does NOT fail and does NOT quarantine: it opens the blob with the headers of the first `n + 1` records;
    `R'` is not indexed — the acknowledged post-recovery write is silently lost -/
theorem two_crash_silent_loss {cfg : Cfg} {b : CBlob} (hb : BlobInv cfg b) {t n : Nat}
    (hk : cutKind cfg.klen b.ghost t = .body n) (R' : Record)
    (hsmall : t + (R'.image t).length ≤ Fs.contentLen cfg.klen (b.ghost.take (n + 1))) :
    rawRecordsLoad cfg.klen false (appendRecord (b.file.take t) R') = .ok ((hdrsOf cfg b.ghost).take (n + 1)) ∧
    openBlob cfg.klen false (appendRecord (b.file.take t) R') = .ok ((hdrsOf cfg b.ghost).take (n + 1)) :=
  scan_after_torn_append_small hb hk R' hsmall

/-- **`post_recovery_write_durable`**: `c₁` is any state satisfying the invariant — in particular the storage
    recovered by `crash_prefix` / `crash_recover`.  An operation on it (a write, a delete, …), followed by a crash that
    loses nothing of it (process kill, or the bytes were synced: every `cut ≥` the file length) and another index-less
    start-up: the storage answers exactly as before that crash — per `Spec` on the history that contains the
    post-recovery operation -/
theorem post_recovery_write_durable {cfg : Cfg} (hcfg : cfg.OK) {c₁ : CState} (hinv₁ : CInv cfg c₁) (op : COp)
    (hop : op.OK cfg) (hsz : StoreSized cfg.klen ((c₁.abs cfg).apply op.abs)) (cut' : Nat → Nat) (lazy : Bool)
    (hcut' : ∀ b ∈ (c₁.step cfg op).blobs, b.file.length ≤ cut' b.id) :
    (c₁.step cfg op).crashRecover cfg cut' lazy = some (((c₁.step cfg op).crash cfg cut').restart cfg lazy) ∧
    CInv cfg (((c₁.step cfg op).crash cfg cut').restart cfg lazy) ∧
    (∀ k, (((c₁.step cfg op).crash cfg cut').restart cfg lazy).read cfg k = (c₁.step cfg op).read cfg k) ∧
    (∀ k, (c₁.step cfg op).read cfg k =
      .ok ((Spec.latest ((c₁.abs cfg).apply op.abs).history k).map (fun p => dataOf p.r.data))) := by
  obtain ⟨habs₂, hinv₂⟩ := step_ref hcfg hinv₁ op hop hsz
  have hclean := cleanCuts_of_ge hinv₂ hcut'
  obtain ⟨h1, h2, _, _, h5, _⟩ := crash_prefix hcfg hinv₂ cut' lazy hclean
  have hhist : (((c₁.step cfg op).abs cfg).crash cfg.klen cut').history = ((c₁.step cfg op).abs cfg).history := by
    apply Store.crash_history_of_ge
    intro b hb
    rw [abs_blobs] at hb
    obtain ⟨b0, hb0, rfl⟩ := List.mem_map.mp hb
    have := hcut' b0 hb0
    rw [(CInvG.blobInv hinv₂ hb0).file, file_length] at this
    exact this
  have hread : ∀ k, (c₁.step cfg op).read cfg k =
      .ok ((Spec.latest ((c₁.abs cfg).apply op.abs).history k).map (fun p => dataOf p.r.data)) := by
    intro k
    rw [(read_of_inv hcfg _ hinv₂ k).1, habs₂]
  refine ⟨h1, h2, fun k => ?_, hread⟩
  rw [h5 k, hhist, (read_of_inv hcfg _ hinv₂ k).1]

/-! ## non-vacuity, and the refutations

Key length 1, two blobs: blob 0 is closed and dumped (records of keys 1 and 2; ends of records at 88 and 155),
blob 1 is active (a newer record of key 1, then a record of key 3; ends of records at 89 and 159).  A record header
is 58 bytes. -/
namespace CrashDemo

/-- `Demo.cfg` (bloom filter on, groups of 2) with the default `validate_data_during_index_regen = false` … -/
def cfg : Cfg := { Demo.cfg with validateData := false }
/-- … and with data validation -/
def cfgV : Cfg := Demo.cfg

theorem cfg_ok : cfg.OK := ⟨Demo.cfg_ok.klen, Demo.cfg_ok.group, Demo.cfg_ok.bloom⟩

def ops : List COp :=
  [.write 1 5 ⟨2, 1⟩, .write 2 6 ⟨1, 2⟩, .closeActive, .settle, .createActive, .write 1 7 ⟨3, 3⟩, .write 3 8 ⟨4, 4⟩]

def s : CState := (CState.init cfg).run cfg ops
def sV : CState := (CState.init cfgV).run cfgV ops

theorem ops_ok : ∀ op ∈ ops, op.OK cfg := by decide
theorem ops_okV : ∀ op ∈ ops, op.OK cfgV := by decide

set_option maxRecDepth 100000 in
theorem ops_sized : StoreSized cfg.klen ((Store.init cfg.allowDup).run (ops.map COp.abs)) := by
  unfold StoreSized; decide

theorem s_inv : CInv cfg s := (refinement_run cfg_ok ops ops_ok ops_sized).2
theorem sV_inv : CInv cfgV sV := (refinement_run Demo.cfg_ok ops ops_okV ops_sized).2

set_option maxRecDepth 1000000 in
theorem s_isSome : s.active.isSome = true := by decide
set_option maxRecDepth 1000000 in
theorem sV_isSome : sV.active.isSome = true := by decide

/-- the active blob (blob 1) -/
def a1 : CBlob := s.active.get s_isSome
def a1V : CBlob := sV.active.get sV_isSome

theorem s_active : s.active = some a1 := (Option.some_get s_isSome).symm
theorem sV_active : sV.active = some a1V := (Option.some_get sV_isSome).symm
theorem a1_mem : a1 ∈ s.blobs := mem_blobs_active s_active
theorem a1V_mem : a1V ∈ sV.blobs := mem_blobs_active sV_active

/-- blob 1 cut at the end of its first record -/
def cutB (id : Nat) : Nat := if id = 1 then 89 else 1000
/-- blob 1 cut 11 bytes into the header of its second record -/
def cutH (id : Nat) : Nat := if id = 1 then 100 else 1000
/-- blob 1 cut inside the data of its second record (header complete) -/
def cutT (id : Nat) : Nat := if id = 1 then 150 else 1000
/-- blob 1 cut inside its blob header -/
def cutZ (id : Nat) : Nat := if id = 1 then 10 else 1000

end CrashDemo

set_option maxRecDepth 1000000

-- the layout, and the kinds of the four cuts
example : CrashDemo.s.blobs.map (fun b => (b.id, b.file.length, b.ghost.length, b.index.onDisk)) =
    [(0, 155, 2, true), (1, 159, 2, false)] := by decide
example : CrashDemo.s.blobs.map (fun b => (List.range 3).map (fun n => Fs.contentLen 1 (b.ghost.take n))) =
    [[20, 88, 155], [20, 89, 159]] := by decide
example : CrashDemo.s.blobs.map (fun b => cutKind 1 b.ghost (CrashDemo.cutB b.id)) = [.clean 2, .clean 1] ∧
    CrashDemo.s.blobs.map (fun b => cutKind 1 b.ghost (CrashDemo.cutH b.id)) = [.clean 2, .recHeader 1] ∧
    CrashDemo.s.blobs.map (fun b => cutKind 1 b.ghost (CrashDemo.cutT b.id)) = [.clean 2, .body 1] ∧
    CrashDemo.s.blobs.map (fun b => cutKind 1 b.ghost (CrashDemo.cutZ b.id)) = [.clean 2, .blobHeader] := by decide

namespace CrashDemo

theorem cutB_clean : CleanCuts cfg s cutB := by
  have h : ∀ b ∈ s.blobs, cutKind cfg.klen b.ghost (cutB b.id) = .clean (complete cfg.klen b.ghost (cutB b.id)) := by
    decide
  exact fun b hb => ⟨_, h b hb⟩

end CrashDemo

-- (1) `crash_prefix` on it: the theorem, and the recovered storage evaluated — the record of key 3 is gone, the
-- newer record of key 1 (complete in the surviving prefix) is served
example := crash_prefix CrashDemo.cfg_ok CrashDemo.s_inv CrashDemo.cutB false CrashDemo.cutB_clean

example :
    let c₁ := (CrashDemo.s.crash CrashDemo.cfg CrashDemo.cutB).restart CrashDemo.cfg false
    (c₁.abs CrashDemo.cfg).history.map (fun p => (p.1, p.2.length)) = [(0, 2), (1, 1)] ∧
    c₁.read CrashDemo.cfg 1 = .ok (.found (dataOf ⟨3, 3⟩)) ∧ c₁.read CrashDemo.cfg 2 = .ok (.found (dataOf ⟨1, 2⟩)) ∧
    c₁.read CrashDemo.cfg 3 = .ok .notFound := by decide

example (k : Key) : ((CrashDemo.s.crash CrashDemo.cfg CrashDemo.cutB).restart CrashDemo.cfg false).read CrashDemo.cfg k =
    .ok ((Spec.latest ((CrashDemo.s.abs CrashDemo.cfg).crash 1 CrashDemo.cutB).history k).map
      (fun p => dataOf p.r.data)) :=
  (crash_prefix CrashDemo.cfg_ok CrashDemo.s_inv CrashDemo.cutB false CrashDemo.cutB_clean).2.2.2.2.1 k

-- … and for the history itself (`crash_prefix_run`; the operations as operations with optional metadata)
example := crash_prefix_run CrashDemo.cfg_ok (CrashDemo.ops.map COp.toM) (by decide)
  (by unfold StoreSized; decide) CrashDemo.cutB true
  (by
    have h : ∀ b ∈ ((CState.init CrashDemo.cfg).runM CrashDemo.cfg (CrashDemo.ops.map COp.toM)).blobs,
        cutKind CrashDemo.cfg.klen b.ghost (CrashDemo.cutB b.id) =
          .clean (complete CrashDemo.cfg.klen b.ghost (CrashDemo.cutB b.id)) := by decide
    exact fun b hb => ⟨_, h b hb⟩)

/-- **(1) as asked is FALSE for a cut inside the next record's header**: blob 1 is cut 11 bytes into the header of
    its second record.  Start-up quarantines the whole blob — its first record, complete in the surviving prefix, is
    not served: `read 1` returns the OLDER value of blob 0, where the L2 store of the records complete in the
    surviving prefixes answers with the newer one; the recovered storage holds blob 0 only -/
theorem crash_in_header_quarantines :
    (∀ b ∈ CrashDemo.s.blobs, ∃ n, cutKind CrashDemo.cfg.klen b.ghost (CrashDemo.cutH b.id) = .clean n ∨
      cutKind CrashDemo.cfg.klen b.ghost (CrashDemo.cutH b.id) = .recHeader n) ∧
    (CrashDemo.s.crashRecover CrashDemo.cfg CrashDemo.cutH false).map
      (fun c₁ => (c₁.blobs.map (·.id), c₁.nextId, c₁.read CrashDemo.cfg 1)) =
        some ([0], 2, .ok (.found (dataOf ⟨2, 1⟩))) ∧
    (((CrashDemo.s.abs CrashDemo.cfg).crash 1 CrashDemo.cutH).restart false).read 1 none =
      .found ⟨1, 7, false, none, ⟨3, 3⟩⟩ ∧
    ((CrashDemo.s.abs CrashDemo.cfg).crash 1 CrashDemo.cutH).blobs.map (fun b => (b.id, b.recs.length)) =
      [(0, 2), (1, 1)] := by
  refine ⟨?_, by decide, by decide, by decide⟩
  have h : ∀ b ∈ CrashDemo.s.blobs,
      cutKind CrashDemo.cfg.klen b.ghost (CrashDemo.cutH b.id) = .clean 2 ∨
      cutKind CrashDemo.cfg.klen b.ghost (CrashDemo.cutH b.id) = .recHeader 1 := by decide
  intro b hb
  rcases h b hb with h | h
  · exact ⟨2, Or.inl h⟩
  · exact ⟨1, Or.inr h⟩

/-- … hence the statement "for cuts at a record boundary or inside the next record's header, the recovered storage
    abstracts to the L2 store of the records complete in the surviving prefixes" has no proof -/
theorem crash_prefix_in_header_false :
    ¬ (∀ (cfg : Cfg) (c : CState) (cut : Nat → Nat), cfg.OK → CInv cfg c →
        (∀ b ∈ c.blobs, ∃ n, cutKind cfg.klen b.ghost (cut b.id) = .clean n ∨
          cutKind cfg.klen b.ghost (cut b.id) = .recHeader n) →
        ∀ c₁, c.crashRecover cfg cut false = some c₁ →
          c₁.abs cfg = ((c.abs cfg).crash cfg.klen cut).restart false) := by
  intro hall
  obtain ⟨h1, _, _, _⟩ := crash_in_header_quarantines
  obtain ⟨c₁, hc₁⟩ := crash_init_total CrashDemo.s_inv CrashDemo.cutH false
  have := hall CrashDemo.cfg CrashDemo.s CrashDemo.cutH CrashDemo.cfg_ok CrashDemo.s_inv h1 c₁ hc₁
  have h2 : (c₁.abs CrashDemo.cfg).blobs.length = 1 := by
    have : (CrashDemo.s.crashRecover CrashDemo.cfg CrashDemo.cutH false).map
        (fun c => (c.abs CrashDemo.cfg).blobs.length) = some 1 := by decide
    rw [hc₁] at this
    exact Option.some.inj this
  rw [this] at h2
  revert h2
  decide

-- … while the true general form applies: `crash_recover` (here no cut is accepted torn)
example : ∃ c₁, CrashDemo.s.crashRecover CrashDemo.cfg CrashDemo.cutH false = some c₁ ∧ CInv CrashDemo.cfg c₁ ∧
    c₁.abs CrashDemo.cfg = (CrashDemo.s.abs CrashDemo.cfg).crashRecover 1 false CrashDemo.cutH false := by
  obtain ⟨c₁, h1, h2, h3, _⟩ := crash_recover CrashDemo.cfg_ok CrashDemo.s_inv CrashDemo.cutH false (by
    have h : ∀ b ∈ CrashDemo.s.blobs, ∀ n ∈ List.range 3,
        fate CrashDemo.cfg.klen CrashDemo.cfg.validateData b.ghost (CrashDemo.cutH b.id) ≠ .opened n true := by decide
    intro b hb n hf
    have hn := (cutKind_body (fate_opened_true hf).1).2.1
    have hl : ∀ b ∈ CrashDemo.s.blobs, b.ghost.length ≤ 2 := by decide
    exact h b hb n (List.mem_range.mpr (by have := hl b hb; omega)) hf)
  exact ⟨c₁, h1, h2, h3⟩

-- a cut inside the blob header: the blob is quarantined, the last surviving blob becomes the active one
example : (CrashDemo.s.crashRecover CrashDemo.cfg CrashDemo.cutZ false).map
    (fun c₁ => (c₁.blobs.map (fun b => (b.id, b.index.onDisk)), c₁.nextId)) = some ([(0, false)], 2) ∧
    (CrashDemo.s.crashRecover CrashDemo.cfg CrashDemo.cutZ true).map
    (fun c₁ => (c₁.blobs.map (fun b => (b.id, b.index.onDisk)), c₁.active.isSome, c₁.nextId)) =
      some ([(0, true)], false, 2) := by decide

/-! ### (2): the synced sizes of the file layer, and the refutation -/

namespace CrashDemo

/-- the same history at the file layer: the explicit `fsyncdata` after the first write into blob 1 syncs 89 bytes -/
def fops : List Fs.FsOp :=
  [.write 1 5 none ⟨2, 1⟩ false, .write 2 6 none ⟨1, 2⟩ false, .closeActive, .createActive,
   .write 1 7 none ⟨3, 3⟩ false, .fsync, .write 3 8 none ⟨4, 4⟩ false]

def fs : Fs.FsState := (Fs.run true 33554432 1 true true fops).1

theorem fs_store : fs.store = s.abs cfg := by
  apply Store.ext' <;> decide

end CrashDemo

-- blob 0 was synced when it was closed (155 bytes), blob 1 by the explicit fsync (89 bytes)
example : syncedOf CrashDemo.fs 0 = 155 ∧ syncedOf CrashDemo.fs 1 = 89 := by decide

-- every cut of the demo except `cutZ` is a power-loss cut for these synced sizes
example : (∀ b ∈ CrashDemo.s.blobs, syncedOf CrashDemo.fs b.id ≤ CrashDemo.cutH b.id) ∧
    (∀ b ∈ CrashDemo.s.blobs, syncedOf CrashDemo.fs b.id ≤ CrashDemo.cutT b.id) ∧
    (∀ b ∈ CrashDemo.s.blobs, syncedOf CrashDemo.fs b.id ≤ CrashDemo.cutB b.id) := by decide

-- `crash_synced_served_fs_run` on it: the first record of blob 1 (synced) survives the cut `cutT` inside the second
example := crash_synced_served_fs_run CrashDemo.cfg_ok CrashDemo.s_inv true 33554432 true true CrashDemo.fops
  CrashDemo.fs_store CrashDemo.cutT (by decide)
  (b := CrashDemo.a1) CrashDemo.a1_mem (j := 0) (r := ⟨1, 7, false, none, ⟨3, 3⟩⟩) (by decide) (by decide)

/-- **(2) as asked is FALSE**: the first record of blob 1 ended at byte 89, which is synced (`syncedOf fs 1 = 89`);
    the power-loss cut `cutH` (≥ the synced sizes) falls inside the header of the next record; start-up quarantines
    blob 1 and `read 1` returns the older value of blob 0, not the synced record -/
theorem synced_record_quarantined :
    (∀ b ∈ CrashDemo.s.blobs, syncedOf CrashDemo.fs b.id ≤ CrashDemo.cutH b.id) ∧
    CrashDemo.a1.id = 1 ∧
    Fs.contentLen 1 (CrashDemo.a1.ghost.take 1) ≤ syncedOf CrashDemo.fs CrashDemo.a1.id ∧
    CrashDemo.a1.ghost[0]? = some ⟨1, 7, false, none, ⟨3, 3⟩⟩ ∧
    (CrashDemo.s.crashRecover CrashDemo.cfg CrashDemo.cutH false).map
      (fun c₁ => (c₁.blobs.map (·.id), c₁.read CrashDemo.cfg 1)) = some ([0], .ok (.found (dataOf ⟨2, 1⟩))) ∧
    dataOf ⟨2, 1⟩ ≠ dataOf ⟨3, 3⟩ := by decide

/-! ### (3): the torn tail -/

namespace CrashDemo

theorem cutT_fate : fate cfg.klen cfg.validateData a1.ghost (cutT a1.id) = .opened 1 true := by
  decide

theorem cutT_closed : ∀ b ∈ closedBlobs s.cont, ∀ m,
    fate cfg.klen cfg.validateData b.ghost (cutT b.id) ≠ .opened m true := by
  have h : ∀ b ∈ closedBlobs s.cont, fate cfg.klen cfg.validateData b.ghost (cutT b.id) = .opened 2 false := by
    decide
  intro b hb m hf
  rw [h b hb] at hf
  cases hf

end CrashDemo

-- `crash_torn_tail_E8` and `crash_torn_tail_E8_read_fails` on it
example := crash_torn_tail_E8 CrashDemo.cfg_ok CrashDemo.s_inv CrashDemo.s_active CrashDemo.cutT
  CrashDemo.cutT_fate CrashDemo.cutT_closed

example : ∃ c₁, CrashDemo.s.crashRecover CrashDemo.cfg CrashDemo.cutT false = some c₁ ∧
    c₁.read CrashDemo.cfg 3 = .error (.load .bincode) ∧ c₁.contains CrashDemo.cfg 3 = .ok (.found 8) :=
  crash_torn_tail_E8_read_fails CrashDemo.cfg_ok CrashDemo.s_inv CrashDemo.s_active CrashDemo.cutT
    CrashDemo.cutT_fate CrashDemo.cutT_closed ⟨3, 8, false, none, ⟨4, 4⟩⟩ (by decide) rfl
    (by
      intro j r' hj hr' hk
      have : j = 0 := by omega
      subst this
      have h0 : CrashDemo.a1.ghost[0]? = some ⟨1, 7, false, none, ⟨3, 3⟩⟩ := by decide
      rw [h0] at hr'
      cases hr'
      exact absurd hk (by decide))
    (by decide)

-- the same by evaluation: the torn record is indexed (two headers, one complete record), `read 3` fails with the
-- load error, `contains 3` says found, the other keys are served
example : (CrashDemo.s.crashRecover CrashDemo.cfg CrashDemo.cutT false).map
    (fun c₁ => (c₁.blobs.map (fun b => (b.id, b.file.length, b.ghost.length)), c₁.read CrashDemo.cfg 3)) =
    some ([(0, 155, 2), (1, 150, 1)], .error (.load .bincode)) := by decide

example : (CrashDemo.s.crashRecover CrashDemo.cfg CrashDemo.cutT false).map
    (fun c₁ => (c₁.read CrashDemo.cfg 1, c₁.read CrashDemo.cfg 2)) =
    some (.ok (.found (dataOf ⟨3, 3⟩)), .ok (.found (dataOf ⟨1, 2⟩))) := by decide

example : (CrashDemo.s.crashRecover CrashDemo.cfg CrashDemo.cutT false).map
    (fun c₁ => (c₁.contains CrashDemo.cfg 3).toOption) = some (some (.found 8)) := by decide

-- the bytes: `crash_torn_tail_E8_bytes` on the active blob
example := crash_torn_tail_E8_bytes (CInvG.blobInv CrashDemo.s_inv CrashDemo.a1_mem)
  (t := 150) (n := 1) ⟨3, 8, false, none, ⟨4, 4⟩⟩ (by decide) (by decide)

-- the validating restart quarantines the blob (the record has data): theorem and evaluation
example := crash_torn_tail_validating Demo.cfg_ok CrashDemo.sV_inv CrashDemo.a1V_mem
  CrashDemo.cutT false (n := 1) (r := ⟨3, 8, false, none, ⟨4, 4⟩⟩) (by decide) (by decide) rfl (by decide)
  (by
    have h : ∀ b ∈ CrashDemo.sV.blobs, b.id ≠ 1 →
        fate Demo.cfg.klen Demo.cfg.validateData b.ghost (CrashDemo.cutT b.id) = .opened 2 false := by
      decide
    have hid1 : CrashDemo.a1V.id = 1 := by decide
    intro b hb hne m hf
    have hid : b.id ≠ 1 := by
      intro h1
      apply hne
      exact eq_of_id_eq (blobs_sorted CrashDemo.sV_inv) hb CrashDemo.a1V_mem (by rw [h1, hid1])
    rw [h b hb hid] at hf
    cases hf)

example : (CrashDemo.sV.crashRecover CrashDemo.cfgV CrashDemo.cutT false).map
    (fun c₁ => (c₁.blobs.map (·.id), c₁.read CrashDemo.cfgV 3, c₁.read CrashDemo.cfgV 1)) =
    some ([0], .ok .notFound, .ok (.found (dataOf ⟨2, 1⟩))) := by decide


/-! ### (3) for a closed blob: a torn deletion marker

`delete 2` appends a marker to the closed blob 0 (records end at 88, 155, 221; the marker's header ends at 213).  A cut
inside the marker's meta is accepted by the VALIDATING start-up too (the marker has no data); both blobs are in the
container (`init_lazy`); the torn marker is served as a deletion. -/

namespace CrashDemo

def opsD : List COp := ops ++ [.delete 2 9 true]
def sD : CState := (CState.init cfgV).run cfgV opsD

theorem opsD_ok : ∀ op ∈ opsD, op.OK cfgV := by decide

set_option maxRecDepth 100000 in
theorem opsD_sized : StoreSized cfgV.klen ((Store.init cfgV.allowDup).run (opsD.map COp.abs)) := by
  unfold StoreSized; decide

theorem sD_inv : CInv cfgV sD := (refinement_run Demo.cfg_ok opsD opsD_ok opsD_sized).2

/-- blob 0 cut 3 bytes into the meta of the deletion marker -/
def cutD (id : Nat) : Nat := if id = 0 then 216 else 1000

theorem sD_len : 0 < sD.blobs.length := by decide

/-- the closed blob 0 -/
def b0 : CBlob := sD.blobs[0]'sD_len

theorem b0_mem : b0 ∈ sD.blobs := List.getElem_mem sD_len

end CrashDemo

example : CrashDemo.sD.blobs.map (fun b => (b.id, b.file.length, b.ghost.length)) = [(0, 221, 3), (1, 159, 2)] ∧
    CrashDemo.sD.blobs.map (fun b => fate 1 true b.ghost (CrashDemo.cutD b.id)) = [.opened 2 true, .opened 2 false] := by
  decide

example := crash_torn_tail_E8_any Demo.cfg_ok CrashDemo.sD_inv CrashDemo.b0_mem CrashDemo.cutD true (n := 2)
  (by decide)
  (by
    have h : ∀ b ∈ CrashDemo.sD.blobs, b.id ≠ 0 →
        fate Demo.cfg.klen Demo.cfg.validateData b.ghost (CrashDemo.cutD b.id) = .opened 2 false := by decide
    have hid0 : CrashDemo.b0.id = 0 := by decide
    intro b hb hne m hf
    have hid : b.id ≠ 0 := by
      intro h0
      exact hne (eq_of_id_eq (blobs_sorted CrashDemo.sD_inv) hb CrashDemo.b0_mem (by rw [h0, hid0]))
    rw [h b hb hid] at hf
    cases hf)

example : (CrashDemo.sD.crashRecover CrashDemo.cfgV CrashDemo.cutD true).map
    (fun c₁ => c₁.blobs.map (fun b => (b.id, b.file.length, b.ghost.length, b.index.onDisk))) =
    some [(0, 216, 2, true), (1, 159, 2, true)] := by decide

example : (CrashDemo.sD.crashRecover CrashDemo.cfgV CrashDemo.cutD true).map
    (fun c₁ => (c₁.read CrashDemo.cfgV 2, c₁.read CrashDemo.cfgV 1)) =
    some (.ok (.deleted 9), .ok (.found (dataOf ⟨3, 3⟩))) := by decide

/-! ### (4): after recovery -/

namespace CrashDemo

/-- the storage recovered from the clean cut `cutB` -/
def r1 : CState := (s.crash cfg cutB).restart cfg false

theorem r1_inv : CInv cfg r1 := (crash_prefix cfg_ok s_inv cutB false cutB_clean).2.1

/-- the storage recovered (non-validating) from the torn tail `cutT`, and the acknowledged write made on it -/
def t1 : CState := ((s.crashRecover cfg cutT false).getD s).write cfg 4 9 ⟨2, 5⟩

end CrashDemo

-- `post_recovery_write_durable` after `crash_prefix`: a write, a crash that loses nothing, another index-less start
example := post_recovery_write_durable CrashDemo.cfg_ok CrashDemo.r1_inv (.write 4 9 ⟨2, 5⟩) (by decide)
  (by unfold StoreSized; decide) (fun _ => 1000) false (by decide)

example :
    let c₂ := CrashDemo.r1.step CrashDemo.cfg (.write 4 9 ⟨2, 5⟩)
    ((c₂.crash CrashDemo.cfg (fun _ => 1000)).restart CrashDemo.cfg false).read CrashDemo.cfg 4 =
      .ok (.found (dataOf ⟨2, 5⟩)) ∧
    ((c₂.crash CrashDemo.cfg (fun _ => 1000)).restart CrashDemo.cfg false).read CrashDemo.cfg 1 =
      .ok (.found (dataOf ⟨3, 3⟩)) := by decide

/-- **the two-crash witness of C06 on the composed storage** (finding E8): (1) the tail record of blob 1 is cut
    inside its data; the non-validating start-up opens the blob with the torn record indexed; (2) a write of key 4 is
    acknowledged — it is appended at the end of the file, inside the region the torn header claims — and served;
    (3) at the next index-less start-up (nothing is lost in between) the scan fails in both modes and blob 1 is
    quarantined: the acknowledged post-recovery write is gone (`read 4 = NotFound`), and `read 1` returns the older
    value of blob 0.  The existing `restart` models the failed scan as "`init` fails, state unchanged". -/
theorem two_crash_witness :
    CrashDemo.t1.blobs.map (fun b => (b.id, b.file.length)) = [(0, 155), (1, 218)] ∧
    CrashDemo.t1.read CrashDemo.cfg 4 = .ok (.found (dataOf ⟨2, 5⟩)) ∧
    CrashDemo.t1.read CrashDemo.cfg 3 = .error (.load .bincode) ∧
    (CrashDemo.t1.recover CrashDemo.cfg false).map
      (fun c₃ => (c₃.blobs.map (·.id), c₃.read CrashDemo.cfg 4, c₃.read CrashDemo.cfg 1)) =
        some ([0], .ok .notFound, .ok (.found (dataOf ⟨2, 1⟩))) ∧
    (CrashDemo.t1.recover CrashDemo.cfgV false).map
      (fun c₃ => (c₃.blobs.map (·.id), c₃.read CrashDemo.cfgV 4)) = some ([0], .ok .notFound) ∧
    regenAll CrashDemo.cfg (sortById CrashDemo.t1.blobs) = none := by decide

/-- **the silent variant of the two-crash history**: one blob; its tail record (key 3, 100 data bytes, claimed end 254)
    is cut at 164, inside its data; the non-validating start-up accepts it; a write of key 4 (68 bytes) is
    acknowledged and served; at the next non-validating index-less start-up the blob is opened (232 bytes, nothing
    quarantined, no error) — and `read 4 = NotFound`: the acknowledged write is silently gone.  The validating
    start-up quarantines the blob instead (the data of the torn record extends beyond the end of the file). -/
theorem two_crash_silent_witness :
    let s := (CState.init CrashDemo.cfg).run CrashDemo.cfg [.write 1 5 ⟨2, 1⟩, .write 3 8 ⟨100, 4⟩]
    let c₁ := (s.crashRecover CrashDemo.cfg (fun _ => 164) false).getD s
    let c₂ := c₁.write CrashDemo.cfg 4 9 ⟨2, 5⟩
    s.blobs.map (fun b => fate 1 false b.ghost 164) = [.opened 1 true] ∧
    c₂.blobs.map (fun b => (b.id, b.file.length)) = [(0, 232)] ∧
    c₂.read CrashDemo.cfg 4 = .ok (.found (dataOf ⟨2, 5⟩)) ∧
    (c₂.recover CrashDemo.cfg false).map (fun c₃ => (c₃.blobs.map (fun b => (b.id, b.file.length)),
      c₃.read CrashDemo.cfg 4, c₃.read CrashDemo.cfg 1)) =
        some ([(0, 232)], .ok .notFound, .ok (.found (dataOf ⟨2, 1⟩))) ∧
    (c₂.recover CrashDemo.cfgV false).map (fun c₃ => c₃.blobs.map (fun b => (b.id, b.file.length))) =
      some [(1, 20)] := by decide

-- `two_crash_silent_loss` on the blob of that history (the record `Storage::write` builds for key 4)
namespace CrashDemo

def opsL : List COp := [.write 1 5 ⟨2, 1⟩, .write 3 8 ⟨100, 4⟩]
def sL : CState := (CState.init cfg).run cfg opsL

theorem sL_inv : CInv cfg sL :=
  (refinement_run cfg_ok opsL (by decide) (by unfold StoreSized; decide)).2

theorem sL_isSome : sL.active.isSome = true := by decide
def bL : CBlob := sL.active.get sL_isSome
theorem bL_mem : bL ∈ sL.blobs := mem_blobs_active (Option.some_get sL_isSome).symm

end CrashDemo

example := two_crash_silent_loss (CInvG.blobInv CrashDemo.sL_inv CrashDemo.bL_mem) (t := 164) (n := 1) (by decide)
  (recordOf 1 ⟨4, 9, false, none, ⟨2, 5⟩⟩ (dataOf ⟨2, 5⟩)) (by decide)

end Pearl.E2E

#print axioms Pearl.E2E.crash_init_total
#print axioms Pearl.E2E.crash_ghost_not_read
#print axioms Pearl.E2E.crash_ghost_spec
#print axioms Pearl.E2E.crash_prefix
#print axioms Pearl.E2E.crash_process_kill
#print axioms Pearl.E2E.crash_history
#print axioms Pearl.E2E.crash_synced_in_history
#print axioms Pearl.E2E.crash_prefix_run
#print axioms Pearl.E2E.clean_cuts
#print axioms Pearl.E2E.boundary_is_contentLen
#print axioms Pearl.E2E.crash_recover
#print axioms Pearl.E2E.noTorn_of_validate
#print axioms Pearl.E2E.crash_synced_served
#print axioms Pearl.E2E.crash_synced_served_fs
#print axioms Pearl.E2E.crash_synced_served_fs_run
#print axioms Pearl.E2E.fate_body
#print axioms Pearl.E2E.crash_torn_tail_E8_bytes
#print axioms Pearl.E2E.crash_torn_tail_E8
#print axioms Pearl.E2E.crash_torn_tail_E8_any
#print axioms Pearl.E2E.crash_torn_tail_E8_read_fails
#print axioms Pearl.E2E.crash_torn_tail_validating
#print axioms Pearl.E2E.post_recovery_write_durable
#print axioms Pearl.E2E.crash_in_header_quarantines
#print axioms Pearl.E2E.crash_prefix_in_header_false
#print axioms Pearl.E2E.synced_record_quarantined
#print axioms Pearl.E2E.two_crash_witness
#print axioms Pearl.E2E.two_crash_silent_loss
#print axioms Pearl.E2E.two_crash_silent_witness
#print axioms Pearl.E2E.recover_eq_restart

/-! # Extension: crash recovery WITH index files at every written length

The C06 quantifier: "every per-file truncation length beyond the last sync (every byte of the tail record, index files
at every written length)".  Above, the index files are taken as removed; here they are there.

Model: `Pearl/Model/EndToEndCrashIdx.lean` (new definitions only).
* THE TWO-PHASE DUMP (`BPTreeFileIndex::from_records`): `clean_file`; `create`; `write_append_all(buf)` — the whole
  buffer, its header carrying the hash and the `written` bit CLEAR —; `header.set_written(true)`;
  `write_all_at(0, header)` — the 83 header bytes again —; `fsyncdata`.  `DumpStage.bytes` = the content of the index
  file when this is interrupted: `appending t` (the first `t` bytes of the buffer; `t = 0`: the empty file),
  `rewriting j` (the first `j` header bytes rewritten), `done`.  `dumpedParts` = what `Blob::dump` hands to
  `from_records`; `dumpedImage` (of `EndToEndStart.lean`) is its `done` stage (`dumpedImage_eq_parts`).
* THE DIRECTORY AFTER THE CRASH: `BState.crash` (every blob file cut at `cut id`, memory gone) and, next to the blob
  whose records were `recs`, `IdxAtCrash cfg sha recs idx`: nothing / the complete image of the dump made when the
  blob held `recs.take m`, any `m` (current, stale — or describing MORE than the cut blob file holds) / any proper
  prefix of such an image / any stage of an interrupted dump of `recs.take m`.
* START-UP: `fromFileQ` = `Blob::from_file` with the index-file bytes (its `ok` arm IS `fromFileB` of
  `EndToEndStart.lean`: `fromFileQ_ok_iff`) + the decision of `read_blobs` on an `Err` (`should_save_corrupted_blob`);
  `BState.recoverWithIndexes` = `Storage::init` with quarantine and index files (it returns what the existing
  `restartWithIndexes` returns whenever that succeeds: `recover_with_indexes_extends_restart`).
Lemmas: `Pearl/Proofs/EndToEndCrashIdx{,Blob,Store,Spec}.lean`.

FINDING (a blob is quarantined BECAUSE of its index file).  `Blob::from_file` calls `try_regenerate_index` for a
rejected index file even when the blob file holds the bare header; `RawRecords::start` then reads past the end of the
file: `Bincode` — which `should_save_corrupted_blob` accepts.  So a blob file cut back to exactly its 20 header bytes
is opened (empty) when no index file lies next to it, and MOVED TO THE CORRUPTED DIRECTORY when a truncated / stale /
half-written index file does (`crash_index_beside_header_only`; this is the start-up failure of
`restart_with_indexes_fails_on_empty_blob`, now with the quarantine decision).  The statement "(2) as asked" is
therefore false for that one cut and is proved under the hypothesis `cut id = 20 → no index file`
(`crash_with_indexes`).  With the order of `Blob::dump` (`fsyncdata` of the blob BEFORE the index file is created,
`Pearl/Model/Fs.lean` `Act.dump`) a power loss cannot produce it: `dirAtCrash_of_synced`.
-/
namespace Pearl.E2E
open Pearl Pearl.BPTree Pearl.Container

/-! ## (1) `truncated_index_rejected` -/

/-- **`truncated_index_rejected`**: `img` is the index file the storage dumps for a blob holding the records `recs`
    (`3 · blob length + filter section + 4200 < 2^64`, as everywhere at byte level).  For a blob file of ANY length
    `blobSize`, `IndexStruct::from_file` REJECTS (never accepts, never panics)
    * every proper prefix of `img` — in particular the empty file and the header-only file (83 bytes);
    * every prefix of the phase-1 buffer of the two-phase dump, the complete buffer included (`written` clear);
    and every stage of the two-phase dump leaves `img` itself or a rejected file: the header rewrite (phase 2) changes
    one byte (offset 72), so a partial rewrite is the phase-1 buffer or the finished file. -/
theorem truncated_index_rejected {cfg : Cfg} {sha : List Nat → List Nat} (hB : BytesOK cfg sha) {recs : List Rec}
    (hok : RecsOK cfg recs) (h3 : Sized3 cfg recs) {img : List Nat} (hi : dumpedImage cfg sha recs = some img)
    (blobSize : Nat) :
    (∀ t, t < img.length → openIndex cfg blobSize (img.take t) = .rejected) ∧
    openIndex cfg blobSize [] = .rejected ∧
    openIndex cfg blobSize (img.take indexHeaderSize) = .rejected ∧
    ∃ f mb, dumpedParts cfg recs = some (f, mb) ∧ img = DumpStage.done.bytes sha f mb (blobFileLen cfg recs) ∧
      (∀ t, openIndex cfg blobSize ((DumpStage.appending t).bytes sha f mb (blobFileLen cfg recs)) = .rejected) ∧
      openIndex cfg blobSize (imageOfUnwritten sha f mb (blobFileLen cfg recs)) = .rejected ∧
      (∀ j, (DumpStage.rewriting j).bytes sha f mb (blobFileLen cfg recs) =
        if j ≤ 72 then imageOfUnwritten sha f mb (blobFileLen cfg recs) else img) ∧
      (∀ st : DumpStage, st.bytes sha f mb (blobFileLen cfg recs) = img ∨
        openIndex cfg blobSize (st.bytes sha f mb (blobFileLen cfg recs)) = .rejected) := by
  have hpre := fun t ht => dumped_prefix_rejected hB hok h3 hi blobSize t ht
  have hlen : 99 ≤ img.length := by
    obtain ⟨_, mb, off, _, rfl⟩ := dumpedImage_some hok hi
    unfold imageRecs
    rw [imageOf_eq_V, List.length_append, indexHeaderBytesV_length _ _ _ _ (show (imageHash sha _ mb _).length = 32 from hB.shaLen _)]
    have := indexBodyBytes_length_ge (rawFile (fileRecs cfg recs mb)) mb
    omega
  have hparts := dumpedImage_eq_parts sha hok (cfg := cfg)
  rw [hi] at hparts
  cases hp : dumpedParts cfg recs with
  | none => rw [hp] at hparts; cases hparts
  | some p =>
    obtain ⟨f, mb⟩ := p
    rw [hp] at hparts
    simp only [Option.map_some, Option.some.injEq] at hparts
    have hunw := unwritten_prefix_rejected hB hok h3 hp (blobFileLen cfg recs) blobSize
    have hfull : openIndex cfg blobSize (imageOfUnwritten sha f mb (blobFileLen cfg recs)) = .rejected := by
      have := hunw (imageOfUnwritten sha f mb (blobFileLen cfg recs)).length
      rwa [List.take_length] at this
    refine ⟨hpre, ?_, hpre _ (by show 83 < _; omega), f, mb, rfl, hparts, hunw, hfull, fun j => ?_, fun st => ?_⟩
    · have := hpre 0 (by omega)
      rwa [List.take_zero] at this
    · rw [rewriting_bytes sha f mb _ j (hB.shaLen _), hparts]; rfl
    · rcases dump_stage_cases hB hok h3 hp st with h | h
      · left; rw [hi] at h; exact (Option.some.inj h).symm
      · exact Or.inr (h blobSize)

/-- **the `blob_size` check, in the direction a crash adds**: the complete image of the dump made when the blob held
    `ghost.take m` lies next to the blob file cut at `t`, and the surviving file is SHORTER than the blob file the
    index was dumped for (the index describes records the cut has removed) — or longer (the stale-index rule E4):
    rejected; the index is regenerated from what the blob file still holds -/
theorem index_beyond_cut_rejected {cfg : Cfg} {sha : List Nat → List Nat} (hB : BytesOK cfg sha) {b : CBlob}
    (hb : BlobInv cfg b) (h3 : Sized3 cfg b.ghost) {m : Nat} {img : List Nat}
    (hi : dumpedImage cfg sha (b.ghost.take m) = some img) (t : Nat) :
    ((b.file.take t).length < Fs.contentLen cfg.klen (b.ghost.take m) →
      openIndex cfg (b.file.take t).length img = .rejected) ∧
    (Fs.contentLen cfg.klen (b.ghost.take m) < (b.file.take t).length →
      openIndex cfg (b.file.take t).length img = .rejected) :=
  ⟨fun h => index_blob_size_rejected hB hb h3 hi t (Nat.ne_of_lt h),
    fun h => index_blob_size_rejected hB hb h3 hi t (Nat.ne_of_gt h)⟩

/-- every index-file content a crash can leave, against a blob file of ANY length `L`: rejected — never a panic —
    unless it is the complete image of the dump of `recs.take m` and `L` is exactly the length of the blob file of
    those records -/
theorem index_at_crash_rejected_or_current {cfg : Cfg} {sha : List Nat → List Nat} (hB : BytesOK cfg sha)
    {recs : List Rec} (hok : RecsOK cfg recs) (h3 : Sized3 cfg recs) {img : List Nat}
    (hc : IdxAtCrash cfg sha recs (some img)) (L : Nat) :
    openIndex cfg L img = .rejected ∨
    ∃ m, m ≤ recs.length ∧ dumpedImage cfg sha (recs.take m) = some img ∧
      L = Fs.contentLen cfg.klen (recs.take m) := by
  rcases openIndex_at_crash hB hok h3 hc L with h | ⟨m, mb, off, hm, hne, hs, himg, hL⟩
  · exact Or.inl h
  · refine Or.inr ⟨m, hm, ?_, hL⟩
    rw [dumpedImage_eq sha (hok.prefix (List.take_prefix m recs)), if_neg hne, hs, himg]
    rfl

/-! ## (2) `crash_with_indexes` -/

/-- **`crash_with_indexes`** (any state satisfying the invariant): every blob file cut at `cut id` — clean, inside the
    blob header, inside a record header, inside meta / data (torn) —; next to every blob file any index-file content a
    crash can leave (`IdxAtCrash`: absent, the complete image of ANY earlier dump of that blob, any proper prefix of
    one, any stage of an interrupted two-phase dump); no index file next to a blob cut back to its bare header
    (`h20`, see the FINDING).  Then `Storage::init` on that directory
    * returns exactly the storage it returns with every index file REMOVED (`dir = fun _ => none`),
    * which is the translation to bytes of `CState.crashRecover` — the subject of every theorem above
      (`crash_recover`, `crash_prefix`, `crash_synced_served`, `crash_torn_tail_E8{,_any}`) —, and start-up does
      not fail.
    No `NoTorn` hypothesis: an accepted torn tail is accepted with or without the index files. -/
theorem crash_with_indexes {cfg : Cfg} {sha : List Nat → List Nat} (hB : BytesOK cfg sha) {c : CState}
    (hinv : CInv cfg c) (hsz : StoreIdxSized cfg (c.abs cfg)) (cut : Nat → Nat) (dir : Nat → Option (List Nat))
    (hdir : ∀ b ∈ c.blobs, IdxAtCrash cfg sha b.ghost (dir b.id))
    (h20 : ∀ b ∈ c.blobs, cut b.id = blobHeaderSize → dir b.id = none) (lazy : Bool) :
    (c.toB sha).crashRecoverWithIndexes cfg sha cut dir lazy =
      (c.toB sha).crashRecoverWithIndexes cfg sha cut (fun _ => none) lazy ∧
    ∃ c₁, c.crashRecover cfg cut lazy = some c₁ ∧
      (c.toB sha).crashRecoverWithIndexes cfg sha cut dir lazy = some (c₁.toB sha) := by
  have h3 := sized3_of_store hsz
  have h1 := crashRecoverWithIndexes_toB hB hinv h3 cut dir (dirAtCrash_of_cut hinv cut dir hdir h20) lazy
  have h2 := crashRecoverWithIndexes_toB hB hinv h3 cut (fun _ => none)
    (dirAtCrash_of_cut hinv cut _ (fun _ _ => .absent) (fun _ _ _ => rfl)) lazy
  obtain ⟨c₁, hc₁⟩ := crash_init_total hinv cut lazy
  refine ⟨by rw [h1, h2], c₁, hc₁, ?_⟩
  rw [h1, hc₁]; rfl

/-- **… the `NoTorn` case**: the recovered byte-level storage is the translation of a storage `c₁` satisfying the
    invariant, whose abstraction is `Store.crashRecover` (quarantined blobs left out, every other blob holding exactly
    the records complete in its surviving prefix); its index files are short enough (`IdxSized`), so every look-up on
    the bytes answers as the structured storage (`bytes_of_inv`) -/
theorem crash_with_indexes_noTorn {cfg : Cfg} {sha : List Nat → List Nat} (hB : BytesOK cfg sha) {c : CState}
    (hinv : CInv cfg c) (hsz : StoreIdxSized cfg (c.abs cfg)) (hne : (c.abs cfg).blobs ≠ []) (cut : Nat → Nat)
    (dir : Nat → Option (List Nat)) (hdir : ∀ b ∈ c.blobs, IdxAtCrash cfg sha b.ghost (dir b.id))
    (h20 : ∀ b ∈ c.blobs, cut b.id = blobHeaderSize → dir b.id = none) (lazy : Bool) (hnt : NoTorn cfg c cut) :
    ∃ c₁, (c.toB sha).crashRecoverWithIndexes cfg sha cut dir lazy = some (c₁.toB sha) ∧
      c.crashRecover cfg cut lazy = some c₁ ∧ CInv cfg c₁ ∧ c₁.IdxSized ∧
      c₁.abs cfg = (c.abs cfg).crashRecover cfg.klen cfg.validateData cut lazy ∧
      (StoreMetaOK (c.abs cfg) → StoreMetaOK (c₁.abs cfg)) := by
  obtain ⟨_, c₁, hc₁, hB₁⟩ := crash_with_indexes hB hinv hsz cut dir hdir h20 lazy
  obtain ⟨c₁', hc₁', hinv₁, habs₁, hmeta₁, _⟩ := crash_recover hB.ok hinv cut lazy hnt
  rw [hc₁] at hc₁'
  cases hc₁'
  have hne' : c.blobs ≠ [] := by
    intro h0; apply hne; rw [abs_blobs, h0]; rfl
  have hs₁ : c₁.IdxSized := idxSized_of_store hB.ok hinv₁
    (storeIdxSized_of_sized3 (recovered_sized3 hB.ok hinv (sized3_of_store hsz) hne' cut lazy hc₁))
  exact ⟨c₁, hB₁, hc₁, hinv₁, hs₁, habs₁, hmeta₁⟩

/-- **… the torn case** (finding E8, `crash_torn_tail_E8_any`): the tail record `n` of blob `b₀` is cut inside meta /
    data and accepted.  With the index files of `IdxAtCrash` next to the blob files the start-up returns the same
    storage `c₁` as without — the torn record indexed: `c₁` is `c₂` (the storage recovered had the record been written
    completely, which satisfies the invariant) with the cut file in blob `b₀`; `contains` answers alike, `read` answers
    alike or fails with the load error.  In particular no index file of `IdxAtCrash` is accepted for the torn blob:
    its `blob_size` is a record boundary, the cut is not. -/
theorem crash_with_indexes_torn {cfg : Cfg} {sha : List Nat → List Nat} (hB : BytesOK cfg sha) {c : CState}
    (hinv : CInv cfg c) (hsz : StoreIdxSized cfg (c.abs cfg)) (cut : Nat → Nat) (dir : Nat → Option (List Nat))
    (hdir : ∀ b ∈ c.blobs, IdxAtCrash cfg sha b.ghost (dir b.id))
    (h20 : ∀ b ∈ c.blobs, cut b.id = blobHeaderSize → dir b.id = none) (lazy : Bool)
    {b₀ : CBlob} (hb₀ : b₀ ∈ c.blobs) {n : Nat}
    (hf : fate cfg.klen cfg.validateData b₀.ghost (cut b₀.id) = .opened n true)
    (hothers : ∀ b ∈ c.blobs, b ≠ b₀ → ∀ m, fate cfg.klen cfg.validateData b.ghost (cut b.id) ≠ .opened m true) :
    (∀ img, dir b₀.id = some img → openIndex cfg (b₀.file.take (cut b₀.id)).length img = .rejected) ∧
    ∃ c₁ c₂, (c.toB sha).crashRecoverWithIndexes cfg sha cut dir lazy = some (c₁.toB sha) ∧
      c.crashRecover cfg (cutPlus cfg b₀ n cut) lazy = some c₂ ∧ CInv cfg c₂ ∧
      c₁ = c₂.mapBlobs (refileId b₀.id (b₀.file.take (cut b₀.id)) (b₀.ghost.take n)) ∧
      (∀ k, c₁.contains cfg k = c₂.contains cfg k) ∧
      (∀ k, c₁.read cfg k = c₂.read cfg k ∨ c₁.read cfg k = .error (.load .bincode)) := by
  obtain ⟨_, c₁, hc₁, hB₁⟩ := crash_with_indexes hB hinv hsz cut dir hdir h20 lazy
  obtain ⟨c₁', c₂, h1, h2, h3, _, h5, h6, h7, _⟩ := crash_torn_tail_E8_any hB.ok hinv hb₀ cut lazy hf hothers
  rw [hc₁] at h1
  cases h1
  refine ⟨fun img hd => ?_, c₁, c₂, hB₁, h2, h3, h5, h6, h7⟩
  have hbi : BlobInv cfg b₀ := CInvG.blobInv hinv hb₀
  have hc := hdir b₀ hb₀
  rw [hd] at hc
  rcases openIndex_at_crash hB hbi.recsOK (sized3_of_store hsz b₀ hb₀) hc (b₀.file.take (cut b₀.id)).length with
    h | ⟨m, _, _, hm, _, _, _, hL⟩
  · exact h
  · exfalso
    obtain ⟨k, hk⟩ := cutKind_of_length_boundary hbi hm hL
    rw [(fate_opened_true hf).1] at hk
    cases hk

/-- the existing start-up with index files (`restartWithIndexes`: a failing `Blob::from_file` fails `init`) is the
    special case of `recoverWithIndexes` in which nothing has to be quarantined -/
theorem recover_with_indexes_extends_restart {cfg : Cfg} {sha : List Nat → List Nat} (c : BState)
    (dir : Nat → Option (List Nat)) (lazy : Bool) {b' : BState}
    (h : c.restartWithIndexes cfg sha dir lazy = some b') : c.recoverWithIndexes cfg sha dir lazy = some b' :=
  recoverWithIndexes_of_restart c dir lazy h

/-! ## (3) `crash_with_indexes_spec` -/

/-- **`crash_with_indexes_spec`**: under the hypotheses of `crash_with_indexes`, at a cut where no blob is opened with
    a torn tail record (`NoTorn`), the storage recovered WITH the index files answers per `Spec` on the history of
    `Store.crashRecover` (the records complete in the surviving prefixes of the blobs that are not quarantined):
    `read` / `contains`, `read_with` / `contains_with` for every meta, `read_all_with_deletion_marker`, `read_all` —
    all through the byte-level look-ups -/
theorem crash_with_indexes_spec {cfg : Cfg} {sha : List Nat → List Nat} (hB : BytesOK cfg sha) {c : CState}
    (hinv : CInv cfg c) (hmeta : StoreMetaOK (c.abs cfg)) (hsz : StoreIdxSized cfg (c.abs cfg))
    (hne : (c.abs cfg).blobs ≠ []) (cut : Nat → Nat)
    (dir : Nat → Option (List Nat)) (hdir : ∀ b ∈ c.blobs, IdxAtCrash cfg sha b.ghost (dir b.id))
    (h20 : ∀ b ∈ c.blobs, cut b.id = blobHeaderSize → dir b.id = none) (lazy : Bool) (hnt : NoTorn cfg c cut) :
    ∃ b₁, (c.toB sha).crashRecoverWithIndexes cfg sha cut dir lazy = some b₁ ∧
      ∀ k,
        let H := ((c.abs cfg).crashRecover cfg.klen cfg.validateData cut lazy).history
        b₁.readWithOpt cfg k none = .ok ((Spec.latest H k).map (fun p => dataOf p.r.data)) ∧
        b₁.containsWith cfg k none = .ok ((Spec.latest H k).map (·.r.ts)) ∧
        (∀ m, MetaOK m →
          b₁.readWithOpt cfg k (some m) = .ok ((Spec.readWith H k m).map (fun p => dataOf p.r.data)) ∧
          b₁.containsWith cfg k (some m) = .ok ((Spec.readWith H k m).map (·.r.ts))) ∧
        (∃ es, b₁.readAllMarked cfg k = .ok es ∧ es.map entryView = (Spec.allCut H k).map (fun p => recView p.r)) ∧
        (∃ es, b₁.readAll cfg k = .ok es ∧ es.map entryView = (Spec.allLive H k).map (fun p => recView p.r)) := by
  obtain ⟨c₁, hB₁, _, hinv₁, hs₁, habs₁, hmeta₁⟩ :=
    crash_with_indexes_noTorn hB hinv hsz hne cut dir hdir h20 lazy hnt
  refine ⟨c₁.toB sha, hB₁, fun k => ?_⟩
  intro H
  obtain ⟨e1, e2, e3, e4, _, _⟩ := bytes_of_inv hB c₁ hinv₁ hs₁
  have hr := read_of_inv hB.ok c₁ hinv₁ k
  have hall := read_all_of_inv hB.ok c₁ hinv₁ k
  rw [habs₁] at hr hall
  refine ⟨by rw [e1]; exact hr.1, by rw [e2]; exact hr.2, fun m hm => ?_, by rw [e3]; exact hall.1,
    by rw [e4]; exact hall.2⟩
  have := read_with_of_inv hB.ok c₁ hinv₁ (hmeta₁ hmeta) k m hm
  rw [habs₁] at this
  exact ⟨by rw [e1]; exact this.2.1, by rw [e2]; exact this.2.2⟩

/-! ## … for every history -/

/-- **`crash_with_indexes` for every history** of operations (with metadata) from the empty directory, the hypotheses
    on the L2 store of the history: `b` is the byte-level storage the history leaves, every blob file is cut, every
    blob has any index-file content a crash can leave next to it (none next to a blob cut back to 20 bytes).
    Start-up with the index files = start-up without = the translation of `crashRecover`. -/
theorem crash_with_indexes_run {cfg : Cfg} {sha : List Nat → List Nat} (hB : BytesOK cfg sha) (ops : List MOp)
    (hops : ∀ op ∈ ops, op.OK cfg) (hsz : StoreIdxSized cfg ((Store.init cfg.allowDup).run (ops.map MOp.abs)))
    (cut : Nat → Nat) (dir : Nat → Option (List Nat))
    (hdir : ∀ x ∈ ((Store.init cfg.allowDup).run (ops.map MOp.abs)).blobs, IdxAtCrash cfg sha x.recs (dir x.id))
    (h20 : ∀ x ∈ ((Store.init cfg.allowDup).run (ops.map MOp.abs)).blobs,
      cut x.id = blobHeaderSize → dir x.id = none) (lazy : Bool) :
    let b := (BState.init cfg).runB cfg sha ops
    let c := (CState.init cfg).runM cfg ops
    b.crashRecoverWithIndexes cfg sha cut dir lazy = b.crashRecoverWithIndexes cfg sha cut (fun _ => none) lazy ∧
    ∃ c₁, c.crashRecover cfg cut lazy = some c₁ ∧ b.crashRecoverWithIndexes cfg sha cut dir lazy = some (c₁.toB sha) := by
  intro b c
  have hb : b = c.toB sha := runB_eq hB ops hops hsz.toStoreSized (idxSized_of_final hB.ok ops hops hsz)
  obtain ⟨habs, hinv, _⟩ := runM_ref hB.ok ops hops hsz.toStoreSized
  have key : ∀ (P : Blob → Prop), (∀ x ∈ ((Store.init cfg.allowDup).run (ops.map MOp.abs)).blobs, P x) →
      ∀ y ∈ c.blobs, P y.abs := by
    intro P h y hy
    exact h y.abs (by rw [← habs, abs_blobs]; exact List.mem_map.mpr ⟨y, hy, rfl⟩)
  rw [hb]
  exact crash_with_indexes hB hinv (by rw [habs]; exact hsz) cut dir
    (key (fun x => IdxAtCrash cfg sha x.recs (dir x.id)) hdir)
    (key (fun x => cut x.id = blobHeaderSize → dir x.id = none) h20) lazy

/-- **`crash_with_indexes_spec` for every history**: no blob opened with a torn tail (stated on the L2 store) -/
theorem crash_with_indexes_spec_run {cfg : Cfg} {sha : List Nat → List Nat} (hB : BytesOK cfg sha) (ops : List MOp)
    (hops : ∀ op ∈ ops, op.OK cfg) (hsz : StoreIdxSized cfg ((Store.init cfg.allowDup).run (ops.map MOp.abs)))
    (cut : Nat → Nat) (dir : Nat → Option (List Nat))
    (hdir : ∀ x ∈ ((Store.init cfg.allowDup).run (ops.map MOp.abs)).blobs, IdxAtCrash cfg sha x.recs (dir x.id))
    (h20 : ∀ x ∈ ((Store.init cfg.allowDup).run (ops.map MOp.abs)).blobs,
      cut x.id = blobHeaderSize → dir x.id = none) (lazy : Bool)
    (hnt : ∀ x ∈ ((Store.init cfg.allowDup).run (ops.map MOp.abs)).blobs, ∀ n,
      fate cfg.klen cfg.validateData x.recs (cut x.id) ≠ .opened n true) :
    let s := (Store.init cfg.allowDup).run (ops.map MOp.abs)
    ∃ b₁, ((BState.init cfg).runB cfg sha ops).crashRecoverWithIndexes cfg sha cut dir lazy = some b₁ ∧
      ∀ k,
        let H := (s.crashRecover cfg.klen cfg.validateData cut lazy).history
        b₁.readWithOpt cfg k none = .ok ((Spec.latest H k).map (fun p => dataOf p.r.data)) ∧
        b₁.containsWith cfg k none = .ok ((Spec.latest H k).map (·.r.ts)) ∧
        (∀ m, MetaOK m →
          b₁.readWithOpt cfg k (some m) = .ok ((Spec.readWith H k m).map (fun p => dataOf p.r.data)) ∧
          b₁.containsWith cfg k (some m) = .ok ((Spec.readWith H k m).map (·.r.ts))) ∧
        (∃ es, b₁.readAllMarked cfg k = .ok es ∧ es.map entryView = (Spec.allCut H k).map (fun p => recView p.r)) ∧
        (∃ es, b₁.readAll cfg k = .ok es ∧ es.map entryView = (Spec.allLive H k).map (fun p => recView p.r)) := by
  intro s
  have hb : (BState.init cfg).runB cfg sha ops = ((CState.init cfg).runM cfg ops).toB sha :=
    runB_eq hB ops hops hsz.toStoreSized (idxSized_of_final hB.ok ops hops hsz)
  obtain ⟨habs, hinv, hmeta⟩ := runM_ref hB.ok ops hops hsz.toStoreSized
  have key : ∀ (P : Blob → Prop), (∀ x ∈ s.blobs, P x) → ∀ y ∈ ((CState.init cfg).runM cfg ops).blobs, P y.abs := by
    intro P h y hy
    exact h y.abs (by
      show y.abs ∈ ((Store.init cfg.allowDup).run (ops.map MOp.abs)).blobs
      rw [← habs, abs_blobs]; exact List.mem_map.mpr ⟨y, hy, rfl⟩)
  have := crash_with_indexes_spec hB hinv hmeta (by rw [habs]; exact hsz)
    (by rw [habs]; exact run_blobs_ne_nil _ _) cut dir
    (key (fun x => IdxAtCrash cfg sha x.recs (dir x.id)) hdir)
    (key (fun x => cut x.id = blobHeaderSize → dir x.id = none) h20) lazy
    (key (fun x => ∀ n, fate cfg.klen cfg.validateData x.recs (cut x.id) ≠ .opened n true) hnt)
  rw [habs, ← hb] at this
  exact this

end Pearl.E2E

/-! ## non-vacuity (crash recovery with index files), and the refutation

The history of `CrashDemo` at byte level (key length 1; blob 0 closed and dumped: two records, 155 bytes, index file
314 bytes; blob 1 active: records ending at 89 and 159, never dumped), `DemoB.sha` for SHA-256. -/
namespace Pearl.E2E
open Pearl Pearl.BPTree Pearl.Container

namespace CrashIdxDemo

theorem ok : BytesOK CrashDemo.cfg DemoB.sha := ⟨CrashDemo.cfg_ok, fun _ => by simp [DemoB.sha]⟩

def mops : List MOp := CrashDemo.ops.map COp.toM

theorem mops_ok : ∀ op ∈ mops, op.OK CrashDemo.cfg := by decide

set_option maxRecDepth 100000 in
theorem store_idx_sized :
    StoreIdxSized CrashDemo.cfg ((Store.init CrashDemo.cfg.allowDup).run (mops.map MOp.abs)) := by
  unfold StoreIdxSized; decide

/-- the byte-level storage the history leaves -/
def b : BState := (BState.init CrashDemo.cfg).runB CrashDemo.cfg DemoB.sha mops

def recs0 : List Rec := [⟨1, 5, false, none, ⟨2, 1⟩⟩, ⟨2, 6, false, none, ⟨1, 2⟩⟩]
def recs1 : List Rec := [⟨1, 7, false, none, ⟨3, 3⟩⟩, ⟨3, 8, false, none, ⟨4, 4⟩⟩]

set_option maxRecDepth 1000000 in
theorem blobs_eq : ((Store.init CrashDemo.cfg.allowDup).run (mops.map MOp.abs)).blobs
    = [{ id := 0, recs := recs0, onDisk := true }, { id := 1, recs := recs1 }] := by decide

/-- what the state shows of itself -/
def view (b : BState) : List (Nat × Nat × Bool) × Option Nat × Nat :=
  (b.blobs.map (fun x => (x.id, x.file.length, x.index.onDisk)), b.active.map (·.id), b.nextId)

/-- blob 0: its current index file.  Blob 1: the index file of a dump made after its first record (never made in
    this history: a left-over) — current for the blob cut at 89, stale for the intact blob -/
def dirCur : Nat → Option (List Nat)
  | 0 => dumpedImage CrashDemo.cfg DemoB.sha (recs0.take 2)
  | 1 => dumpedImage CrashDemo.cfg DemoB.sha (recs1.take 1)
  | _ => none

/-- blob 0: its index file cut at 200 of 314 bytes.  Blob 1: the index file of the dump of BOTH its records
    (`blob_size = 159`) — it says more than the blob cut at 89 holds -/
def dirMore : Nat → Option (List Nat)
  | 0 => (dumpedImage CrashDemo.cfg DemoB.sha (recs0.take 2)).map (·.take 200)
  | 1 => dumpedImage CrashDemo.cfg DemoB.sha (recs1.take 2)
  | _ => none

/-- blob 0: a dump interrupted during the header rewrite (40 bytes rewritten: the `written` byte not yet).  Blob 1: a
    dump of its first record interrupted after 50 bytes of the buffer -/
def dirHalf : Nat → Option (List Nat)
  | 0 => (dumpedParts CrashDemo.cfg (recs0.take 2)).map
      (fun p => (DumpStage.rewriting 40).bytes DemoB.sha p.1 p.2 (blobFileLen CrashDemo.cfg (recs0.take 2)))
  | 1 => (dumpedParts CrashDemo.cfg (recs1.take 1)).map
      (fun p => (DumpStage.appending 50).bytes DemoB.sha p.1 p.2 (blobFileLen CrashDemo.cfg (recs1.take 1)))
  | _ => none

set_option maxRecDepth 1000000 in
theorem img0_length : (dumpedImage CrashDemo.cfg DemoB.sha (recs0.take 2)).map (·.length) = some 314 := by
  decide +kernel

theorem dirCur_ok : ∀ x ∈ ((Store.init CrashDemo.cfg.allowDup).run (mops.map MOp.abs)).blobs,
    IdxAtCrash CrashDemo.cfg DemoB.sha x.recs (dirCur x.id) := by
  rw [blobs_eq]
  intro x hx
  simp only [List.mem_cons, List.not_mem_nil, or_false] at hx
  rcases hx with rfl | rfl
  · exact IdxAtCrash.of_dumped_take _ _ recs0 2 (by decide)
  · exact IdxAtCrash.of_dumped_take _ _ recs1 1 (by decide)

theorem dirMore_ok : ∀ x ∈ ((Store.init CrashDemo.cfg.allowDup).run (mops.map MOp.abs)).blobs,
    IdxAtCrash CrashDemo.cfg DemoB.sha x.recs (dirMore x.id) := by
  rw [blobs_eq]
  intro x hx
  simp only [List.mem_cons, List.not_mem_nil, or_false] at hx
  rcases hx with rfl | rfl
  · refine IdxAtCrash.of_truncated_take _ _ recs0 2 200 (by decide) (fun img hd => ?_)
    have hl := img0_length
    rw [hd] at hl
    simp only [Option.map_some, Option.some.injEq] at hl
    omega
  · exact IdxAtCrash.of_dumped_take _ _ recs1 2 (by decide)

theorem dirHalf_ok : ∀ x ∈ ((Store.init CrashDemo.cfg.allowDup).run (mops.map MOp.abs)).blobs,
    IdxAtCrash CrashDemo.cfg DemoB.sha x.recs (dirHalf x.id) := by
  rw [blobs_eq]
  intro x hx
  simp only [List.mem_cons, List.not_mem_nil, or_false] at hx
  rcases hx with rfl | rfl
  · exact IdxAtCrash.of_interrupted_take _ _ recs0 2 (.rewriting 40) (by decide)
  · exact IdxAtCrash.of_interrupted_take _ _ recs1 1 (.appending 50) (by decide)

theorem h20 (cut : Nat → Nat) (dir : Nat → Option (List Nat)) (h : cut 0 ≠ 20 ∧ cut 1 ≠ 20) :
    ∀ x ∈ ((Store.init CrashDemo.cfg.allowDup).run (mops.map MOp.abs)).blobs,
      cut x.id = blobHeaderSize → dir x.id = none := by
  rw [blobs_eq]
  intro x hx
  simp only [List.mem_cons, List.not_mem_nil, or_false] at hx
  rcases hx with rfl | rfl
  · intro h0; exact absurd h0 h.1
  · intro h1; exact absurd h1 h.2

end CrashIdxDemo

-- (1) `truncated_index_rejected` on the index file of blob 0 (314 bytes), and evaluated: the empty file, the header
-- only, a cut inside the record headers, the phase-1 buffer, are rejected for the blob of 155 bytes; the file is used
set_option maxRecDepth 1000000 in
example (img : List Nat) (hi : dumpedImage CrashDemo.cfg DemoB.sha CrashIdxDemo.recs0 = some img) (blobSize : Nat) :=
  truncated_index_rejected CrashIdxDemo.ok (recs := CrashIdxDemo.recs0)
    ⟨by decide, by decide, by decide⟩ (by unfold Sized3; decide) hi blobSize

set_option maxRecDepth 1000000 in
example : (dumpedImage CrashDemo.cfg DemoB.sha CrashIdxDemo.recs0).map (·.length) = some 314 ∧
    (dumpedImage CrashDemo.cfg DemoB.sha CrashIdxDemo.recs0).map
      (fun img => [0, 83, 200, 313].map (fun t => openIndex CrashDemo.cfg 155 (img.take t)))
      = some [.rejected, .rejected, .rejected, .rejected] ∧
    ((dumpedImage CrashDemo.cfg DemoB.sha CrashIdxDemo.recs0).map (openIndex CrashDemo.cfg 155)).isSome = true ∧
    (dumpedImage CrashDemo.cfg DemoB.sha CrashIdxDemo.recs0).map (openIndex CrashDemo.cfg 155) ≠ some .rejected ∧
    (dumpedImage CrashDemo.cfg DemoB.sha CrashIdxDemo.recs0).map (openIndex CrashDemo.cfg 155) ≠ some .panic ∧
    (CrashIdxDemo.dirHalf 0).map (openIndex CrashDemo.cfg 155) = some .rejected ∧
    (CrashIdxDemo.dirHalf 0).map (·.length) = some 314 := by
  refine ⟨?_, ?_, ?_, ?_, ?_, ?_, ?_⟩ <;> decide +kernel

-- the `blob_size` check: the index file of BOTH records of blob 1 next to the blob cut at 89 (it says more than the
-- blob holds) is rejected; the index file of its first record is accepted for the blob cut at 89 and rejected for the
-- intact blob (159 bytes)
set_option maxRecDepth 1000000 in
example : (CrashIdxDemo.dirMore 1).map (openIndex CrashDemo.cfg 89) = some .rejected ∧
    (CrashIdxDemo.dirCur 1).map (openIndex CrashDemo.cfg 159) = some .rejected ∧
    ((CrashIdxDemo.dirCur 1).map (openIndex CrashDemo.cfg 89)).isSome = true ∧
    (CrashIdxDemo.dirCur 1).map (openIndex CrashDemo.cfg 89) ≠ some .rejected ∧
    (CrashIdxDemo.dirCur 1).map (openIndex CrashDemo.cfg 89) ≠ some .panic := by
  refine ⟨?_, ?_, ?_, ?_, ?_⟩ <;> decide +kernel

-- (2) `crash_with_indexes_run` on the three directories: the clean cut `cutB` (blob 1 at 89), the cut inside a record
-- header `cutH` (blob 1 is quarantined), the torn cut `cutT` (blob 1 at 150, inside the data of its second record)
example (lazy : Bool) := crash_with_indexes_run CrashIdxDemo.ok CrashIdxDemo.mops CrashIdxDemo.mops_ok
  CrashIdxDemo.store_idx_sized CrashDemo.cutB CrashIdxDemo.dirCur CrashIdxDemo.dirCur_ok
  (CrashIdxDemo.h20 _ _ (by decide)) lazy
example (lazy : Bool) := crash_with_indexes_run CrashIdxDemo.ok CrashIdxDemo.mops CrashIdxDemo.mops_ok
  CrashIdxDemo.store_idx_sized CrashDemo.cutH CrashIdxDemo.dirMore CrashIdxDemo.dirMore_ok
  (CrashIdxDemo.h20 _ _ (by decide)) lazy
example (lazy : Bool) := crash_with_indexes_run CrashIdxDemo.ok CrashIdxDemo.mops CrashIdxDemo.mops_ok
  CrashIdxDemo.store_idx_sized CrashDemo.cutT CrashIdxDemo.dirHalf CrashIdxDemo.dirHalf_ok
  (CrashIdxDemo.h20 _ _ (by decide)) lazy

-- evaluated: with the current index files (`init_lazy`) both are USED (`OnDisk`), without them (or with rejected
-- ones) the indexes are regenerated and dumped — the same storage; the torn record is indexed either way
set_option maxRecDepth 1000000 in
example :
    (CrashIdxDemo.b.crashRecoverWithIndexes CrashDemo.cfg DemoB.sha CrashDemo.cutB CrashIdxDemo.dirCur true).map
      CrashIdxDemo.view = some ([(0, 155, true), (1, 89, true)], none, 2) ∧
    (CrashIdxDemo.b.crashRecoverWithIndexes CrashDemo.cfg DemoB.sha CrashDemo.cutB CrashIdxDemo.dirMore false).map
      CrashIdxDemo.view = some ([(0, 155, true), (1, 89, false)], some 1, 2) ∧
    (CrashIdxDemo.b.crashRecoverWithIndexes CrashDemo.cfg DemoB.sha CrashDemo.cutH CrashIdxDemo.dirMore false).map
      CrashIdxDemo.view = some ([(0, 155, false)], some 0, 2) ∧
    (CrashIdxDemo.b.crashRecoverWithIndexes CrashDemo.cfg DemoB.sha CrashDemo.cutT CrashIdxDemo.dirHalf false).map
      CrashIdxDemo.view = some ([(0, 155, true), (1, 150, false)], some 1, 2) ∧
    (CrashIdxDemo.b.crashRecoverWithIndexes CrashDemo.cfg DemoB.sha CrashDemo.cutT CrashIdxDemo.dirHalf false).map
      (fun b₁ => (b₁.readWithOpt CrashDemo.cfg 3 none, (b₁.containsWith CrashDemo.cfg 3 none).toOption))
      = some (.error (.load .bincode), some (.found 8)) := by
  refine ⟨?_, ?_, ?_, ?_, ?_⟩ <;> decide +kernel

-- (3) `crash_with_indexes_spec_run`: the clean cut, every key, every meta
example (lazy : Bool) := crash_with_indexes_spec_run CrashIdxDemo.ok CrashIdxDemo.mops CrashIdxDemo.mops_ok
  CrashIdxDemo.store_idx_sized CrashDemo.cutB CrashIdxDemo.dirCur CrashIdxDemo.dirCur_ok
  (CrashIdxDemo.h20 _ _ (by decide)) lazy
  (by
    rw [CrashIdxDemo.blobs_eq]
    have h : ∀ x ∈ [({ id := 0, recs := CrashIdxDemo.recs0, onDisk := true } : Blob),
        { id := 1, recs := CrashIdxDemo.recs1 }],
        fate CrashDemo.cfg.klen CrashDemo.cfg.validateData x.recs (CrashDemo.cutB x.id) =
          .opened (complete CrashDemo.cfg.klen x.recs (CrashDemo.cutB x.id)) false := by decide
    intro x hx n hf
    rw [h x hx] at hf
    cases hf)

set_option maxRecDepth 1000000 in
example :
    (CrashIdxDemo.b.crashRecoverWithIndexes CrashDemo.cfg DemoB.sha CrashDemo.cutB CrashIdxDemo.dirCur true).map
      (fun b₁ => (b₁.readWithOpt CrashDemo.cfg 1 none, b₁.readWithOpt CrashDemo.cfg 2 none,
        b₁.readWithOpt CrashDemo.cfg 3 none)) =
      some (.ok (.found (dataOf ⟨3, 3⟩)), .ok (.found (dataOf ⟨1, 2⟩)), .ok .notFound) := by decide +kernel

/-! ### the refutation: an index file next to a blob cut back to its bare header -/

namespace CrashIdxDemo

/-- blob 1 cut back to the 20 bytes of its blob header -/
def cut20 (id : Nat) : Nat := if id = 1 then 20 else 1000

/-- … and an EMPTY index file next to it (a proper prefix — 0 bytes — of the image of a dump of its first record:
    `clean_file` / `create` of an interrupted dump leave exactly this) -/
def dirE : Nat → Option (List Nat)
  | 1 => (dumpedImage CrashDemo.cfg DemoB.sha (recs1.take 1)).map (·.take 0)
  | _ => none

set_option maxRecDepth 1000000 in
theorem dirE_ok : ∀ x ∈ ((Store.init CrashDemo.cfg.allowDup).run (mops.map MOp.abs)).blobs,
    IdxAtCrash CrashDemo.cfg DemoB.sha x.recs (dirE x.id) := by
  rw [blobs_eq]
  intro x hx
  simp only [List.mem_cons, List.not_mem_nil, or_false] at hx
  rcases hx with rfl | rfl
  · exact .absent
  · have hl : (dumpedImage CrashDemo.cfg DemoB.sha (recs1.take 1)).map (·.length) = some 256 := by decide +kernel
    refine IdxAtCrash.of_truncated_take _ _ recs1 1 0 (by decide) (fun img hd => ?_)
    rw [hd] at hl
    simp only [Option.map_some, Option.some.injEq] at hl
    omega

end CrashIdxDemo

set_option maxRecDepth 1000000 in
/-- **(2) as asked is FALSE for the cut at exactly 20 bytes** (the FINDING): blob 1 is cut back to its blob header and
    an empty index file lies next to it.  Without the index file the blob is opened (empty) and becomes the active
    blob; WITH it `Blob::from_file` rejects the index, sets `is_index_corrupted`, runs `try_regenerate_index` on the
    header-only file, which fails with `Bincode`, and `read_blobs` moves blob 1 to the corrupted directory: blob 0
    becomes the active blob (its index loaded into memory).  The index file satisfies `IdxAtCrash`; only `h20` fails.
    The answers do not change (the blob held no record any more). -/
theorem crash_index_beside_header_only :
    (∀ x ∈ ((Store.init CrashDemo.cfg.allowDup).run (CrashIdxDemo.mops.map MOp.abs)).blobs,
      IdxAtCrash CrashDemo.cfg DemoB.sha x.recs (CrashIdxDemo.dirE x.id)) ∧
    CrashIdxDemo.dirE 1 = some [] ∧ openIndex CrashDemo.cfg 20 [] = .rejected ∧
    (CrashIdxDemo.b.crashRecoverWithIndexes CrashDemo.cfg DemoB.sha CrashIdxDemo.cut20 CrashIdxDemo.dirE false).map
      CrashIdxDemo.view = some ([(0, 155, false)], some 0, 2) ∧
    (CrashIdxDemo.b.crashRecoverWithIndexes CrashDemo.cfg DemoB.sha CrashIdxDemo.cut20 (fun _ => none) false).map
      CrashIdxDemo.view = some ([(0, 155, true), (1, 20, false)], some 1, 2) ∧
    (CrashIdxDemo.b.crashRecoverWithIndexes CrashDemo.cfg DemoB.sha CrashIdxDemo.cut20 CrashIdxDemo.dirE true).map
      CrashIdxDemo.view = some ([(0, 155, true)], none, 2) ∧
    (CrashIdxDemo.b.crashRecoverWithIndexes CrashDemo.cfg DemoB.sha CrashIdxDemo.cut20 (fun _ => none) true).map
      CrashIdxDemo.view = some ([(0, 155, true), (1, 20, false)], none, 2) ∧
    (CrashIdxDemo.b.crashRecoverWithIndexes CrashDemo.cfg DemoB.sha CrashIdxDemo.cut20 CrashIdxDemo.dirE false).map
      (fun b₁ => [1, 2, 3].map (fun k => b₁.readWithOpt CrashDemo.cfg k none)) =
    (CrashIdxDemo.b.crashRecoverWithIndexes CrashDemo.cfg DemoB.sha CrashIdxDemo.cut20 (fun _ => none) false).map
      (fun b₁ => [1, 2, 3].map (fun k => b₁.readWithOpt CrashDemo.cfg k none)) := by
  refine ⟨CrashIdxDemo.dirE_ok, ?_, ?_, ?_, ?_, ?_, ?_, ?_⟩ <;> decide +kernel

/-- … hence `crash_with_indexes_run` without the hypothesis `h20` has no proof -/
theorem crash_with_indexes_header_only_false :
    ¬ (∀ (cfg : Cfg) (sha : List Nat → List Nat) (ops : List MOp) (cut : Nat → Nat) (dir : Nat → Option (List Nat))
        (lazy : Bool), BytesOK cfg sha → (∀ op ∈ ops, op.OK cfg) →
        StoreIdxSized cfg ((Store.init cfg.allowDup).run (ops.map MOp.abs)) →
        (∀ x ∈ ((Store.init cfg.allowDup).run (ops.map MOp.abs)).blobs, IdxAtCrash cfg sha x.recs (dir x.id)) →
        ((BState.init cfg).runB cfg sha ops).crashRecoverWithIndexes cfg sha cut dir lazy =
          ((BState.init cfg).runB cfg sha ops).crashRecoverWithIndexes cfg sha cut (fun _ => none) lazy) := by
  intro hall
  obtain ⟨h1, _, _, h4, h5, _⟩ := crash_index_beside_header_only
  have := hall CrashDemo.cfg DemoB.sha CrashIdxDemo.mops CrashIdxDemo.cut20 CrashIdxDemo.dirE false
    CrashIdxDemo.ok CrashIdxDemo.mops_ok CrashIdxDemo.store_idx_sized h1
  have h6 := congrArg (Option.map CrashIdxDemo.view) this
  rw [show (BState.init CrashDemo.cfg).runB CrashDemo.cfg DemoB.sha CrashIdxDemo.mops = CrashIdxDemo.b from rfl,
    h4, h5] at h6
  revert h6
  decide

end Pearl.E2E

#print axioms Pearl.E2E.truncated_index_rejected
#print axioms Pearl.E2E.index_beyond_cut_rejected
#print axioms Pearl.E2E.index_at_crash_rejected_or_current
#print axioms Pearl.E2E.crash_with_indexes
#print axioms Pearl.E2E.crash_with_indexes_noTorn
#print axioms Pearl.E2E.crash_with_indexes_torn
#print axioms Pearl.E2E.recover_with_indexes_extends_restart
#print axioms Pearl.E2E.crash_with_indexes_spec
#print axioms Pearl.E2E.crash_with_indexes_run
#print axioms Pearl.E2E.crash_with_indexes_spec_run
#print axioms Pearl.E2E.crash_index_beside_header_only
#print axioms Pearl.E2E.crash_with_indexes_header_only_false
#print axioms Pearl.E2E.fromFileQ_ok_iff
#print axioms Pearl.E2E.dirAtCrash_of_synced

/-
NOT YET PROVED
  * the general (non-witness) form of the QUARANTINE half of the two-crash history: "after an accepted torn tail, records
    appended afterwards that reach beyond the claimed end of the torn record make the next index-less scan fail".  It
    does not hold in this generality (the appended bytes can by accident continue the torn record consistently, C06);
    a correct statement needs a hypothesis on the bytes at the claimed end of the torn record (`NoAccident` of
    `Pearl/Proofs/ScanRegions.lean`).  The SILENT half (appended records that do not reach the claimed end) is proved
    in general at blob level (`two_crash_silent_loss`); its storage-level form (the state after the second start-up)
    is stated on the witness only: the state between the two start-ups does not satisfy `CInv`.
  * `crash_torn_tail_E8_read_fails` (the sufficient condition for the failing read) is stated for the ACTIVE blob and
    `lazy = false` — the blob being appended to when the crash happens; `crash_torn_tail_E8_any` (read = the read of
    the completed storage, or the load error) covers every blob and both start-up modes.
  * ONE accepted torn tail per crash: `crash_torn_tail_E8{,_any}` ask that no OTHER blob has an accepted torn tail
    (several blobs torn at once — deletion markers being appended to several closed blobs when the power fails — is
    the same argument blob by blob, not done).
  * `crash_torn_tail_E8_read_fails` gives a sufficient condition for the failing read (timestamps); the exact
    condition in terms of `Spec` ("the first-ranked record of the key is the torn one") needs a position-aware
    refinement relation (`RR` relates records, not positions).
  * index files that are present after the crash: PROVED for the contents of `IdxAtCrash` (absent, the complete image of
    any earlier dump of the blob, any proper prefix of one, any stage of an interrupted two-phase dump) —
    `crash_with_indexes`.  Not covered: (a) index-file bytes outside that class (a foreign file; bytes changed in place,
    length kept: `accepted_but_wrong_index` of `Props/EndToEnd.lean` shows such a file can be accepted); (b) pages of
    the phase-1 buffer reaching the disk OUT OF ORDER (the crash model is "a prefix of each write survives"; a file
    with the complete header, `written` SET, and holes in the body cannot arise from `from_records` under that model,
    since the `written` byte is only set by the second write, after the whole buffer — it would need reordering across
    the two writes, which only the final `fsyncdata` orders); (c) the index file of a QUARANTINED blob stays in the
    working directory (`save_corrupted_blob` moves the blob file only) — not modelled, it is never opened again
    because `read_blobs` iterates over blob files.
  * the cut at exactly 20 bytes WITH an index file next to it: stated on the witness
    (`crash_index_beside_header_only`: the blob is quarantined, the answers do not change); the general form "the
    recovered storage is the index-less one minus that empty blob, same answers" is not done.
Statements FALSE of the model, refuted above: see the header of this file.
-/

