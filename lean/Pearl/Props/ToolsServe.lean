import Pearl.Proofs.ToolsServe
import Pearl.Tie.C06
import Pearl.Props.C06
/-
C16 composed with the storage: "the offline tools produce a blob that validates, contains every intact record before the
damage (and after an isolated damaged record when skipping is requested), AND FROM WHICH THE STORAGE SERVES EACH CONTAINED
RECORD WITH ITS ORIGINAL BYTES".

`Pearl/Props/C16.lean` proves the tool side at byte level; `Pearl/Props/EndToEnd{,Crash}.lean` the storage side (a state
whose blobs are byte files answers every query per `Spec`).  Here the file a tool wrote is put, as the single blob file
`0`, into an otherwise empty work directory — no index file, nothing in memory — and the storage is started on it.

Model: `Pearl/Model/ToolsServe.lean` (new definitions only: `CBlob.ofFile`, `CState.dirOne`, `startOn`, `startOutcome`,
`Store.oneBlob`).  Lemmas: `Pearl/Proofs/ToolsServe.lean`, where the vocabulary of the statements is defined:
  * `full g`         : the bridge between the record types.  C16 talks about `Rec × List UInt8` (a record with its explicit
                       data bytes), the storage about `Rec` whose value is `(len, seed)` with the bytes `dataOf`.  They
                       do not line up for arbitrary data bytes (no `(len, seed)` generates, e.g., `C05.sq16`), so the
                       composition is stated for the blobs of the form `full g = g.map (fun r => (r, dataOf r.data))`;
  * `Fits cfg g`     : keys `< 256^K::LEN`, timestamps `< 2^64`, the file `< 2^64` bytes (the last two are the hypotheses
                       `hts` / `hlen` of the C16 theorems; the first is the range condition of `COp.OK`, needed:
                       `E2E.key_range_needed`);
  * `startOn cfg out gh lazy` : `Storage::init` (= `CState.recover`: `read_blobs` with its quarantine decision, then the
                       rest of `init_from_existing`; `lazy` = the two ways the active blob is chosen) on the directory
                       whose single blob file `0` holds the bytes `out`.  `gh` is the history variable of the directory
                       entry; start-up does not read it (`OpensServing.ghost`, `startOn_ghost_irrelevant`);
  * `startOutcome cfg out`    : what `read_blobs` does with the file: `.ok headers` / `.quarantine` / `.fail`;
  * `openedState cfg S lazy`  : the storage `init` builds from the one blob opened with the records `S`;
  * `Serves1 cfg c S`         : `CInv cfg c`, the L2 history of `c` is `[(0, S)]`, and `read`, `contains`, `read_with`,
                       `contains_with`, `read_all_with_deletion_marker`, `read_all` answer without error per `Spec` on that
                       history, values as their `dataOf` bytes;
  * `OpensServing cfg out S lazy` : `out` is the file the writer produces for `S`, `validate_blob` accepts it, `read_blobs`
                       opens it with exactly the headers of `S`, `init` and the existing `restart` return
                       `openedState cfg S lazy`, which abstracts to `Store.oneBlob` and `Serves1`.
`cfg` is arbitrary: every statement holds for both settings of `validate_data_during_index_regen` (`cfg.validateData`),
for every filter configuration, and for both `lazy` settings.
-/
namespace Pearl.ToolsServe
open Pearl Pearl.E2E

/-! ## `OpensServing` spelled out -/

/-- what `OpensServing cfg out S lazy` says, with every read path written out -/
theorem opensServing_spelled {cfg : Cfg} {out : List UInt8} {S : List Rec} {lazy : Bool}
    (h : OpensServing cfg out S lazy) :
    validateBlob out = .ok () ∧
    out = blobBytes cfg.klen (full S) ∧
    startOutcome cfg out = .ok (blobHeaders cfg.klen (full S)) ∧
    (∃ c, startOn cfg out S lazy = some c ∧ (CState.dirOne cfg out S).restart cfg lazy = c ∧
      CInv cfg c ∧ c.abs cfg = Store.oneBlob cfg.allowDup S lazy ∧ (c.abs cfg).history = [(0, S)] ∧
      (∀ k, c.read cfg k = .ok ((Spec.latest [(0, S)] k).map (fun p => dataOf p.r.data))) ∧
      (∀ k, c.contains cfg k = .ok ((Spec.latest [(0, S)] k).map (·.r.ts))) ∧
      ((∀ r ∈ S, MetaOK r.mt) → ∀ k m, MetaOK m →
        c.readWith cfg k m = .ok ((Spec.readWith [(0, S)] k m).map (fun p => dataOf p.r.data)) ∧
        c.containsWith cfg k (some m) = .ok ((Spec.readWith [(0, S)] k m).map (·.r.ts))) ∧
      (∀ k, ∃ es, c.readAllMarked cfg k = .ok es ∧
        es.map entryView = (Spec.allCut [(0, S)] k).map (fun p => recView p.r)) ∧
      (∀ k, ∃ es, c.readAll cfg k = .ok es ∧
        es.map entryView = (Spec.allLive [(0, S)] k).map (fun p => recView p.r)) ∧
      (∀ k bytes, c.read cfg k = .ok (.found bytes) → ∃ r ∈ S, r.key = k ∧ r.del = false ∧ bytes = dataOf r.data) ∧
      ∀ gh, (startOn cfg out gh lazy).map CState.eraseGhost = some c.eraseGhost) :=
  ⟨h.valid, h.bytes, h.outcome, _, h.start, h.restart, h.serves.inv, h.abs, h.serves.history, h.serves.read,
    h.serves.contains, h.serves.readWith, fun k => (h.serves.readAll k).1, fun k => (h.serves.readAll k).2,
    h.serves.read_original, h.ghost⟩

/-- for ANY history variable `gh` on the directory entry, start-up succeeds and every answer of the started storage is the
    answer of `openedState` -/
theorem opensServing_any_ghost {cfg : Cfg} {out : List UInt8} {S : List Rec} {lazy : Bool}
    (h : OpensServing cfg out S lazy) (gh : List Rec) :
    ∃ c, startOn cfg out gh lazy = some c ∧
      (∀ k, c.read cfg k = (openedState cfg S lazy).read cfg k) ∧
      (∀ k, c.contains cfg k = (openedState cfg S lazy).contains cfg k) ∧
      (∀ k m, c.readWithOpt cfg k m = (openedState cfg S lazy).readWithOpt cfg k m) ∧
      (∀ k, c.readAll cfg k = (openedState cfg S lazy).readAll cfg k) := by
  have hg := h.ghost gh
  cases hs : startOn cfg out gh lazy with
  | none => rw [hs] at hg; cases hg
  | some c =>
    rw [hs] at hg
    have he : c.eraseGhost = (openedState cfg S lazy).eraseGhost := Option.some.inj hg
    refine ⟨c, rfl, fun k => ?_, fun k => ?_, fun k m => ?_, fun k => ?_⟩
    · rw [← (ghost_not_read cfg c k).1, he, (ghost_not_read cfg _ k).1]
    · rw [← (ghost_not_read cfg c k).2, he, (ghost_not_read cfg _ k).2]
    · rw [← (ghost_not_read_meta cfg c .settle k m).2.1, he, (ghost_not_read_meta cfg _ .settle k m).2.1]
    · rw [← (ghost_not_read_meta cfg c .settle k none).2.2.2.2, he, (ghost_not_read_meta cfg _ .settle k none).2.2.2.2]

/-! ## (1) the recovered blob is opened and served -/

/-- the base case: the storage opens what the writer produces (every `validate_every`: recovery of an intact blob is
    the identity) -/
theorem produced_blob_opens {cfg : Cfg} (hcfg : cfg.OK) {g : List Rec} (hg : Fits cfg g) (ve : Nat) (skip lazy : Bool) :
    recoveryBlobV ve (blobBytes cfg.klen (full g)) skip = .ok (blobBytes cfg.klen (full g)) ∧
    OpensServing cfg (blobBytes cfg.klen (full g)) g lazy :=
  ⟨(C16.recover_every cfg.klen (full g) ve hg.size (full_ts hg.ts)).1 skip, opensServing_produced hcfg hg lazy⟩

/-- record `i` altered (≤ 4 adjacent bytes, in its data or in its header outside the length fields): `validate_blob`
    rejects the input; recovery without skipping writes the blob of the records before `i`, with skipping the blob of all
    records but `i`; the storage opens either output and serves exactly those records with their original bytes -/
theorem recovered_flip_opens {cfg : Cfg} (hcfg : cfg.OK) {g : List Rec} (hg : Fits cfg g) (i : Nat) (input : List UInt8)
    (hflip : FlipIn cfg.klen (full g) i input) (ve : Nat) (lazy : Bool) :
    (∃ e, validateBlob input = .error e) ∧
    recoveryBlobV ve input false = .ok (blobBytes cfg.klen (full (g.take i))) ∧
    recoveryBlobV ve input true = .ok (blobBytes cfg.klen (full (g.eraseIdx i))) ∧
    OpensServing cfg (blobBytes cfg.klen (full (g.take i))) (g.take i) lazy ∧
    OpensServing cfg (blobBytes cfg.klen (full (g.eraseIdx i))) (g.eraseIdx i) lazy := by
  obtain ⟨h1, h2⟩ := (C16.recover_every cfg.klen (full g) ve hg.size (full_ts hg.ts)).2.1 i input hflip
  rw [← full_take] at h1
  rw [← full_eraseIdx] at h2
  exact ⟨C16.validate_rejects_flip cfg.klen (full g) i input hg.size (full_ts hg.ts) hflip, h1, h2,
    opensServing_produced hcfg (hg.take i) lazy, opensServing_produced hcfg (hg.eraseIdx i) lazy⟩

/-- the file cut strictly inside record `i`: `validate_blob` rejects it, recovery (both modes) writes the blob of the
    records before `i`, which the storage opens and serves -/
theorem recovered_cut_opens {cfg : Cfg} (hcfg : cfg.OK) {g : List Rec} (hg : Fits cfg g) (i t : Nat)
    (hc : CutIn cfg.klen (full g) i t) (ve : Nat) (skip lazy : Bool) :
    (∃ e, validateBlob ((blobBytes cfg.klen (full g)).take t) = .error e) ∧
    recoveryBlobV ve ((blobBytes cfg.klen (full g)).take t) skip = .ok (blobBytes cfg.klen (full (g.take i))) ∧
    OpensServing cfg (blobBytes cfg.klen (full (g.take i))) (g.take i) lazy := by
  have h1 := (C16.recover_every cfg.klen (full g) ve hg.size (full_ts hg.ts)).2.2 i t skip hc
  rw [← full_take] at h1
  exact ⟨(cutIn_tools cfg.klen (full g) i t hg.size (full_ts hg.ts) hc).1, h1,
    opensServing_produced hcfg (hg.take i) lazy⟩

/-- **`recovered_blob_opens`**.  A produced blob (`full g`, under the hypotheses of `C16.recover_prefix` and the key range of
    the storage) damaged in record `i` by any flip / cut the C16 theorems cover.  For every `validate_every`, with and
    without `skip_wrong_record`, `recovery_blob` returns a file `out`; `out` is the blob of a list `S` of ORIGINAL records
    that starts with all the records before the damaged one — exactly those, or (skipping an altered record) all records
    but the damaged one —; and `out`, placed as the single blob file `0` of an otherwise empty work directory, is opened by
    start-up (not quarantined; `init` with quarantine = the existing `restart`) into a state satisfying `CInv` whose L2
    abstraction is the store with the one blob `(0, S)`: `read`, `contains`, `read_with`, `read_all` answer per `Spec` on
    that history with the original bytes (`OpensServing`, spelled out in `opensServing_spelled`). -/
theorem recovered_blob_opens {cfg : Cfg} (hcfg : cfg.OK) {g : List Rec} (hg : Fits cfg g) (i : Nat) (input : List UInt8)
    (hdam : FlipIn cfg.klen (full g) i input ∨
      ∃ t, CutIn cfg.klen (full g) i t ∧ input = (blobBytes cfg.klen (full g)).take t)
    (ve : Nat) (skip lazy : Bool) :
    ∃ out S, recoveryBlobV ve input skip = .ok out ∧
      g.take i <+: S ∧ S.Sublist g ∧
      (S = g.take i ∨ (skip = true ∧ FlipIn cfg.klen (full g) i input ∧ S = g.eraseIdx i)) ∧
      OpensServing cfg out S lazy := by
  rcases hdam with hflip | ⟨t, hc, rfl⟩
  · obtain ⟨_, h1, h2, o1, o2⟩ := recovered_flip_opens hcfg hg i input hflip ve lazy
    cases skip with
    | false => exact ⟨_, g.take i, h1, List.prefix_refl _, List.take_sublist _ _, Or.inl rfl, o1⟩
    | true =>
      refine ⟨_, g.eraseIdx i, h2, ?_, List.eraseIdx_sublist _ _, Or.inr ⟨rfl, hflip, rfl⟩, o2⟩
      rw [List.eraseIdx_eq_take_drop_succ]
      exact List.prefix_append _ _
  · obtain ⟨_, h1, o1⟩ := recovered_cut_opens hcfg hg i t hc ve skip lazy
    exact ⟨_, g.take i, h1, List.prefix_refl _, List.take_sublist _ _, Or.inl rfl, o1⟩

/-- the read path after recovery, in one line: whatever `read` returns from the storage started on the recovered file is
    the `dataOf` bytes of a record of the ORIGINAL blob with that key (and every record before the damage is in the
    history the answers are computed from) -/
theorem recovered_blob_serves_original {cfg : Cfg} (hcfg : cfg.OK) {g : List Rec} (hg : Fits cfg g) (i : Nat)
    (input : List UInt8)
    (hdam : FlipIn cfg.klen (full g) i input ∨
      ∃ t, CutIn cfg.klen (full g) i t ∧ input = (blobBytes cfg.klen (full g)).take t)
    (ve : Nat) (skip lazy : Bool) :
    ∃ out S c, recoveryBlobV ve input skip = .ok out ∧ startOn cfg out S lazy = some c ∧ CInv cfg c ∧
      g.take i <+: S ∧ S.Sublist g ∧
      (∀ k, c.read cfg k = .ok ((Spec.latest [(0, S)] k).map (fun p => dataOf p.r.data))) ∧
      ∀ k bytes, c.read cfg k = .ok (.found bytes) → ∃ r ∈ g, r.key = k ∧ r.del = false ∧ bytes = dataOf r.data := by
  obtain ⟨out, S, h1, h2, h3, _, h5⟩ := recovered_blob_opens hcfg hg i input hdam ve skip lazy
  refine ⟨out, S, _, h1, h5.start, h5.serves.inv, h2, h3, h5.serves.read, fun k bytes hr => ?_⟩
  obtain ⟨r, hr1, hr2⟩ := h5.serves.read_original k bytes hr
  exact ⟨r, h3.subset hr1, hr2⟩

/-! ## (2) migration -/

/-- **`migrated_blob_opens`**: `migrate_blob` (every `validate_every`) turns the version-0 image of a produced blob into the
    blob, which the storage opens and serves in full -/
theorem migrated_blob_opens {cfg : Cfg} (hcfg : cfg.OK) {g : List Rec} (hg : Fits cfg g) (ve : Nat) (lazy : Bool) :
    migrateBlobV ve (blobBytesV0 cfg.klen (full g)) = .ok (blobBytes cfg.klen (full g)) ∧
    OpensServing cfg (blobBytes cfg.klen (full g)) g lazy :=
  ⟨(C16.migrate_preserves_every cfg.klen (full g) ve hg.size (full_ts hg.ts)).1, opensServing_produced hcfg hg lazy⟩

/-- the version-0 image ITSELF is refused by the storage: `Header::from_file` fails with `BlobVersion`, the one validation
    error `should_save_corrupted_blob` does not save (the table of `Pearl/Model/Crash.lean`, tied to the constants extracted
    from the source in `Tie/C06.lean`), so `read_blobs` does NOT quarantine the file: `init` FAILS — for every history
    variable, both `lazy` settings, both `validate_data_during_index_regen` settings (no hypothesis on `recs` at all) —, and
    the existing `restart` leaves the directory as it is.  (Had the file been quarantined, start-up would have succeeded
    without it: `startOn_quarantine`.) -/
theorem v0_image_rejected_not_quarantined (cfg : Cfg) (recs : List (Rec × List UInt8)) (gh : List Rec) (lazy : Bool) :
    blobHeaderFromFile (blobBytesV0 cfg.klen recs) = .error .blobVersion ∧
    BlobHeaderErr.blobVersion.cls = .validation Gen.SAVE_CORRUPTED_VALIDATION_EXCEPT ∧
    shouldSaveCorruptedBlob BlobHeaderErr.blobVersion.cls = false ∧
    startOutcome cfg (blobBytesV0 cfg.klen recs) = .fail ∧
    startOutcome cfg (blobBytesV0 cfg.klen recs) ≠ .quarantine ∧
    startOn cfg (blobBytesV0 cfg.klen recs) gh lazy = none ∧
    (CState.dirOne cfg (blobBytesV0 cfg.klen recs) gh).restart cfg lazy = CState.dirOne cfg (blobBytesV0 cfg.klen recs) gh := by
  have hf := startOutcome_v0 cfg recs
  obtain ⟨h1, h2⟩ := startOn_fail cfg _ gh lazy hf
  have hq : startOutcome cfg (blobBytesV0 cfg.klen recs) ≠ .quarantine := by rw [hf]; intro h; cases h
  exact ⟨blobHeader_v0 cfg.klen recs, rfl, rfl, hf, hq, h1, h2⟩

/-- the two halves together, for the C16 inputs: before migration `init` fails on the file, after migration the storage
    serves every record -/
theorem migrate_makes_servable {cfg : Cfg} (hcfg : cfg.OK) {g : List Rec} (hg : Fits cfg g) (ve : Nat) (lazy : Bool) :
    startOn cfg (blobBytesV0 cfg.klen (full g)) g lazy = none ∧
    ∃ out, migrateBlobV ve (blobBytesV0 cfg.klen (full g)) = .ok out ∧ OpensServing cfg out g lazy :=
  ⟨(v0_image_rejected_not_quarantined cfg (full g) g lazy).2.2.2.2.2.1, _, (migrated_blob_opens hcfg hg ve lazy).1,
    (migrated_blob_opens hcfg hg ve lazy).2⟩

/-! ## (3) `validate_blob` accepts ⟷ the storage opens the file with all its records -/

/-- the inputs the C16 theorems cover: a produced blob `full g`, any prefix of it (`t ≥` its length: the blob itself), or
    the blob with one record altered (`FlipIn`) -/
def Covered (cfg : Cfg) (g : List Rec) (x : List UInt8) : Prop :=
  (∃ t, x = (blobBytes cfg.klen (full g)).take t) ∨ ∃ i, FlipIn cfg.klen (full g) i x

/-- **`validate_blob_iff_opens_partial`**: on the covered inputs, `validate_blob x` succeeds IF AND ONLY IF `x` is the file of
    a prefix `S` of the original records that start-up opens in full and serves (`OpensServing`, for both `lazy` settings).
    So on these inputs a file that `validate_blob` accepts needs no recovery, and a file it rejects (a cut inside a record
    or inside the blob header, an altered record) is not something the storage opens with all its records. -/
theorem validate_blob_iff_opens_partial {cfg : Cfg} (hcfg : cfg.OK) {g : List Rec} (hg : Fits cfg g) (x : List UInt8)
    (hx : Covered cfg g x) :
    validateBlob x = .ok () ↔ ∃ S, S <+: g ∧ ∀ lazy, OpensServing cfg x S lazy := by
  have hlen := hg.size
  have hts := full_ts hg.ts
  constructor
  · intro hv
    rcases hx with ⟨t, rfl⟩ | ⟨i, hflip⟩
    · by_cases ht : t < (blobBytes cfg.klen (full g)).length
      · by_cases hb : IsBoundary cfg.klen (full g) t
        · obtain ⟨n, _, rfl⟩ := hb
          rw [C16.prefix_at_boundary_is_blob, ← full_take]
          exact ⟨g.take n, List.take_prefix _ _, fun lazy => opensServing_produced hcfg (hg.take n) lazy⟩
        · obtain ⟨e, he⟩ := C16.validate_rejects_truncated cfg.klen (full g) hlen hts t ht hb
          rw [he] at hv; cases hv
      · rw [List.take_of_length_le (by omega)]
        exact ⟨g, List.prefix_refl _, fun lazy => opensServing_produced hcfg hg lazy⟩
    · obtain ⟨e, he⟩ := C16.validate_rejects_flip cfg.klen (full g) i x hlen hts hflip
      rw [he] at hv; cases hv
  · rintro ⟨S, _, h⟩
    exact (h false).valid

/-- "start-up opens `x` with all its records": for some history variable on the directory entry, `init` succeeds on the
    directory that holds `x` as its single blob file, and the started storage satisfies the invariant `CInv`, has the
    one-blob history `[(0, S)]` for some record list `S`, and serves it (`Serves1`).  Nothing is said about the bytes
    of `x`. -/
def OpensAll (cfg : Cfg) (x : List UInt8) (lazy : Bool) : Prop :=
  ∃ gh S c, startOn cfg x gh lazy = some c ∧ Serves1 cfg c S

/-- one direction holds for ARBITRARY bytes `x`: a file the storage opens with all its records is a file the writer
    produces (for the records served), hence `validate_blob` accepts it.  (Start-up does not alter the file, and `CInv` ties
    the bytes of every blob file to its records.) -/
theorem validate_of_opens_all {cfg : Cfg} (hcfg : cfg.OK) (x : List UInt8) (lazy : Bool) (h : OpensAll cfg x lazy) :
    validateBlob x = .ok () ∧ ∃ S, x = blobBytes cfg.klen (full S) ∧ Fits cfg S := by
  obtain ⟨gh, S, c, hs, hsv⟩ := h
  obtain ⟨hx, hf⟩ := produced_of_serves hcfg hs hsv.inv hsv.history
  exact ⟨by rw [hx]; exact C16.validate_accepts_produced cfg.klen (full S) hf.size (full_ts hf.ts), S, hx, hf⟩

/-- **`validate_blob_iff_opens_partial`, storage side only**: on the covered inputs, `validate_blob x` succeeds iff start-up
    opens `x` with all its records.  In particular, for a produced blob cut inside a record or inside its blob header, or
    with a record altered, whatever start-up does with the file (quarantine it; open it with a torn record, finding E8;
    open it with a record whose data no longer matches its checksum) the result is NOT a storage that satisfies the
    invariant and serves the records of the file. -/
theorem validate_blob_iff_opens_all_partial {cfg : Cfg} (hcfg : cfg.OK) {g : List Rec} (hg : Fits cfg g) (x : List UInt8)
    (hx : Covered cfg g x) (lazy : Bool) :
    validateBlob x = .ok () ↔ OpensAll cfg x lazy := by
  constructor
  · intro hv
    obtain ⟨S, _, h⟩ := (validate_blob_iff_opens_partial hcfg hg x hx).mp hv
    exact ⟨S, S, _, (h lazy).start, (h lazy).serves⟩
  · exact fun h => (validate_of_opens_all hcfg x lazy h).1

/-- the unrestricted "⟸ … ⟹" is FALSE (C16 `validate_ignores_version`): `validate_blob` does not look at the blob version.
    A produced blob with the version field changed (byte 8: 1 → 7) is accepted by `validate_blob`, and the storage does not
    open it: `Header::from_file` fails with `BlobVersion`, `init` fails (not even a quarantine).  The witness is stated
    after the example blobs below (`validate_blob_iff_opens_false`). -/
theorem validate_accepts_but_init_fails (cfg : Cfg) (x : List UInt8) (hv : validateBlob x = .ok ())
    (hh : blobHeaderFromFile x = .error .blobVersion) (gh : List Rec) (lazy : Bool) :
    validateBlob x = .ok () ∧ startOutcome cfg x = .fail ∧ startOn cfg x gh lazy = none ∧
      (¬ ∃ S, OpensServing cfg x S lazy) ∧ ¬ OpensAll cfg x lazy := by
  have hf : startOutcome cfg x = .fail := by
    unfold startOutcome openBlob
    rw [hh]; rfl
  refine ⟨hv, hf, (startOn_fail cfg x gh lazy hf).1, ?_, ?_⟩
  · rintro ⟨S, h⟩
    rw [h.outcome] at hf
    cases hf
  · rintro ⟨gh', S, c, hs, _⟩
    rw [(startOn_fail cfg x gh' lazy hf).1] at hs
    cases hs

/-! ## non-vacuity: the 4-record example of C16

`C05.recs4` — a plain record, an empty record with meta, a deletion marker, an empty record — carries for its first record
the data bytes `C05.sq16`, which no `(len, seed)` generates; `g4` are the same four `Rec`s, `full g4` gives record 0 its
`dataOf ⟨16, 0⟩` bytes.  Same layout as `C16.b4`: 327 bytes, record boundaries 20, 104, 191, 259, 327. -/

namespace Demo4

/-- key length 3, groups of 2, a 100-bit bloom filter with two hashers; data validation during index regeneration on -/
def cfg : Cfg :=
  { klen := 3, group := 2, bloom := some (⟨10, 2, 100, 1, 0⟩, 100), h := fun j k => 7 * k + 13 * j,
    allowDup := true, validateData := true }

/-- the same with `validate_data_during_index_regen = false` -/
def cfgN : Cfg := { cfg with validateData := false }

theorem cfg_ok : cfg.OK :=
  ⟨by decide, by decide, fun p hp => by cases hp; exact ⟨⟨by decide, by decide, by decide, by decide, by decide⟩, by decide⟩⟩

theorem cfgN_ok : cfgN.OK := ⟨cfg_ok.klen, cfg_ok.group, cfg_ok.bloom⟩

def g4 : List Rec := C05.recs4.map (·.1)

abbrev f4 : List UInt8 := blobBytes 3 (full g4)

end Demo4

set_option maxRecDepth 1000000

namespace Demo4

theorem g4_fits : Fits cfg g4 := ⟨by decide, by decide, by decide⟩
theorem g4_fitsN : Fits cfgN g4 := ⟨g4_fits.key, g4_fits.ts, g4_fits.size⟩

theorem f4_layout : f4.length = 327 ∧ dataOf ⟨16, 0⟩ ≠ C05.sq16 ∧ full g4 ≠ C05.recs4 ∧
    (List.range 5).map (fun n => (blobBytes 3 (full (g4.take n))).length) = [20, 104, 191, 259, 327] := by decide

/-- one data byte of record 0 altered (byte 91: 185 → 0xAA) -/
theorem flip_data : FlipIn 3 (full g4) 0 (f4.set 91 0xAA) :=
  ⟨f4.take 91, [185], [0xAA], f4.drop 92, (blobHeaders 3 (full g4))[0]!, by decide, by decide, rfl,
    by decide, by decide, by decide, Or.inl (by decide)⟩

/-- one timestamp byte in the header of record 1 altered (byte 148: 102 → 0xAA) -/
theorem flip_header : FlipIn 3 (full g4) 1 (f4.set 148 0xAA) :=
  ⟨f4.take 148, [102], [0xAA], f4.drop 149, (blobHeaders 3 (full g4))[1]!, by decide, by decide, rfl,
    by decide, by decide, by decide, Or.inr (by decide)⟩

/-- one timestamp byte in the header of record 2, the deletion marker of key 1, altered (byte 235: 103 → 0xAA) -/
theorem flip_marker : FlipIn 3 (full g4) 2 (f4.set 235 0xAA) :=
  ⟨f4.take 235, [103], [0xAA], f4.drop 236, (blobHeaders 3 (full g4))[2]!, by decide, by decide, rfl,
    by decide, by decide, by decide, Or.inr (by decide)⟩

theorem cut_150 : CutIn 3 (full g4) 1 150 := by decide

end Demo4

open Demo4

-- (1) the theorems on the examples: every `validate_every`, both `lazy` settings, both validation settings
example (ve : Nat) (lazy : Bool) :
    recoveryBlobV ve (f4.set 91 0xAA) true = .ok (blobBytes 3 (full (g4.eraseIdx 0))) ∧
    OpensServing cfg (blobBytes 3 (full (g4.eraseIdx 0))) (g4.eraseIdx 0) lazy ∧
    OpensServing cfgN (blobBytes 3 (full (g4.eraseIdx 0))) (g4.eraseIdx 0) lazy :=
  ⟨(recovered_flip_opens cfg_ok g4_fits 0 _ flip_data ve lazy).2.2.1,
   (recovered_flip_opens cfg_ok g4_fits 0 _ flip_data ve lazy).2.2.2.2,
   (recovered_flip_opens cfgN_ok g4_fitsN 0 _ flip_data ve lazy).2.2.2.2⟩

example (ve : Nat) (skip lazy : Bool) := recovered_blob_opens cfg_ok g4_fits 1 _ (Or.inl flip_header) ve skip lazy
example (ve : Nat) (skip lazy : Bool) :=
  recovered_blob_opens cfgN_ok g4_fitsN 1 (f4.take 150) (Or.inr ⟨150, cut_150, rfl⟩) ve skip lazy

/-- the answers after recovery with skipping of the altered record 1 (key 2), from the theorem: key 2 is gone, key 1 is
    deleted (its marker, record 2, survived), key 3 is served -/
example (ve : Nat) (lazy : Bool) : ∃ out c, recoveryBlobV ve (f4.set 148 0xAA) true = .ok out ∧
    startOn cfg out (g4.eraseIdx 1) lazy = some c ∧
    c.read cfg 2 = .ok .notFound ∧ c.read cfg 1 = .ok (.deleted 103) ∧ c.read cfg 3 = .ok (.found []) := by
  obtain ⟨_, _, h2, _, o2⟩ := recovered_flip_opens cfg_ok g4_fits 1 _ flip_header ve lazy
  refine ⟨_, _, h2, o2.start, ?_, ?_, ?_⟩ <;> rw [o2.serves.read_l2] <;> decide

/-- per `Spec` on the surviving history — which also means: when the record that is lost is a DELETION MARKER, recovery with
    skipping brings the deleted value back (key 1: deleted in the original blob, `Found` with the original 16 bytes after
    recovery of the blob whose marker was damaged); without skipping the records after the marker are lost instead -/
example (ve : Nat) (lazy : Bool) : ∃ out c, recoveryBlobV ve (f4.set 235 0xAA) true = .ok out ∧
    startOn cfg out (g4.eraseIdx 2) lazy = some c ∧
    (Spec.latest [(0, g4)] 1).map (·.r) = .deleted 103 ∧
    c.read cfg 1 = .ok (.found (dataOf ⟨16, 0⟩)) ∧ c.read cfg 3 = .ok (.found []) := by
  obtain ⟨_, _, h2, _, o2⟩ := recovered_flip_opens cfg_ok g4_fits 2 _ flip_marker ve lazy
  refine ⟨_, _, h2, o2.start, by rw [latest_oneBlob]; decide, ?_, ?_⟩ <;> rw [o2.serves.read_l2] <;> decide

-- the same by evaluation of the two models on the concrete files (independent of the theorems above): the tool, then
-- start-up on its output with an EMPTY history variable, then the read paths
/-- `recovery_blob` with skipping on the blob whose record 1 is altered -/
abbrev out1 : List UInt8 := blobBytes 3 (full (g4.eraseIdx 1))
/-- `recovery_blob` on the blob cut inside record 1 -/
abbrev out2 : List UInt8 := blobBytes 3 (full (g4.take 1))

example :
    recoveryBlob (f4.set 148 0xAA) true = .ok out1 ∧
    startOutcome cfg out1 = .ok (blobHeaders 3 (full (g4.eraseIdx 1))) ∧
    (startOn cfg out1 [] false).map (fun c => c.read cfg 1) = some (.ok (.deleted 103)) ∧
    (startOn cfg out1 [] false).map (fun c => c.read cfg 2) = some (.ok .notFound) ∧
    (startOn cfg out1 [] false).map (fun c => c.read cfg 3) = some (.ok (.found [])) ∧
    (startOn cfg out1 [] false).map (fun c => c.contains cfg 3) = some (.ok (.found 104)) ∧
    (startOn cfg out1 [] false).map (fun c => c.readWith cfg 2 (some [9, 8])) = some (.ok .notFound) ∧
    (startOn cfgN out1 [] true).map (fun c => c.read cfgN 1) = some (.ok (.deleted 103)) ∧
    (startOn cfgN out1 [] true).map (fun c => c.read cfgN 3) = some (.ok (.found [])) := by
  refine ⟨by decide, by decide, by decide, by decide, by decide, by decide, by decide, by decide, by decide⟩

example :
    recoveryBlob (f4.take 150) false = .ok out2 ∧
    (startOn cfg out2 [] false).map (fun c => c.read cfg 1) = some (.ok (.found (dataOf ⟨16, 0⟩))) ∧
    (startOn cfg out2 [] false).map (fun c => c.read cfg 2) = some (.ok .notFound) ∧
    (startOn cfg out2 [] false).map (fun c => DemoRA.shape (c.readAll cfg 1)) = some (some [(101, false)]) ∧
    (startOn cfg out2 [] false).map (fun c => DemoRA.loads (c.readAll cfg 1)) =
      some (some [.ok (serMeta none, dataOf ⟨16, 0⟩)]) := by
  refine ⟨by decide, by decide, by decide, by decide, by decide⟩

-- (2) migration
example (ve : Nat) (lazy : Bool) : migrateBlobV ve (blobBytesV0 3 (full g4)) = .ok f4 ∧ OpensServing cfg f4 g4 lazy :=
  migrated_blob_opens cfg_ok g4_fits ve lazy

example (gh : List Rec) (lazy : Bool) : startOn cfg (blobBytesV0 3 (full g4)) gh lazy = none :=
  (v0_image_rejected_not_quarantined cfg (full g4) gh lazy).2.2.2.2.2.1

-- by evaluation: the version-0 image differs from the blob, `validate_blob` accepts it (it does not look at the version),
-- `read_blobs` fails on it; a file with a damaged MAGIC byte, in contrast, is quarantined and start-up succeeds without it
example : blobBytesV0 3 (full g4) ≠ f4 ∧ validateBlob (blobBytesV0 3 (full g4)) = .ok () ∧
    startOutcome cfg (blobBytesV0 3 (full g4)) = .fail ∧ startOn cfg (blobBytesV0 3 (full g4)) [] false = none ∧
    startOutcome cfg (f4.set 0 7) = .quarantine ∧
    ((startOn cfg (f4.set 0 7) [] false).map fun c => (c.abs cfg).history) = some [(1, [])] := by decide

/-- the quarantine table of the model is the one extracted from `should_save_corrupted_blob` -/
example : Gen.SAVE_CORRUPTED_VALIDATION_EXCEPT = "BlobVersion" ∧
    Pearl.SAVE_CORRUPTED_VALIDATION_EXCEPT = Gen.SAVE_CORRUPTED_VALIDATION_EXCEPT ∧
    classifyHeaderErr .blobVersion = .fail ∧ classifyHeaderErr .blobMagicByte = .quarantine :=
  ⟨Tie.C06.quarantine_table.2.1, C06.classify_table_tied.2.1, C06.classify_spec.2.2.1, C06.classify_spec.2.1⟩

-- (3) the iff on covered inputs
example : Covered cfg g4 (f4.take 191) ∧ Covered cfg g4 (f4.take 150) ∧ Covered cfg g4 (f4.set 91 0xAA) ∧
    Covered cfg g4 f4 :=
  ⟨Or.inl ⟨191, rfl⟩, Or.inl ⟨150, rfl⟩, Or.inr ⟨0, flip_data⟩, Or.inl ⟨327, by decide⟩⟩

example : validateBlob (f4.take 191) = .ok () ∧ ∃ S, S <+: g4 ∧ ∀ lazy, OpensServing cfg (f4.take 191) S lazy := by
  have hv : validateBlob (f4.take 191) = .ok () := by decide
  exact ⟨hv, (validate_blob_iff_opens_partial cfg_ok g4_fits _ (Or.inl ⟨191, rfl⟩)).mp hv⟩

example : ¬ ∃ S, S <+: g4 ∧ ∀ lazy, OpensServing cfg (f4.set 91 0xAA) S lazy := by
  rw [← validate_blob_iff_opens_partial cfg_ok g4_fits _ (Or.inr ⟨0, flip_data⟩)]
  decide

/-- **the unrestricted iff is FALSE**: the produced blob with its version field changed (byte 8: 1 → 7) is accepted by
    `validate_blob` and refused by the storage (`init` fails; not quarantined) — for the storage that validates data and
    for the one that does not -/
theorem validate_blob_iff_opens_false :
    (¬ ∀ (cfg : Cfg) (x : List UInt8) (lazy : Bool),
      validateBlob x = .ok () ↔ ∃ S, OpensServing cfg x S lazy) ∧
    (¬ ∀ (cfg : Cfg) (x : List UInt8) (lazy : Bool), cfg.OK → (validateBlob x = .ok () ↔ OpensAll cfg x lazy)) := by
  have hv : validateBlob (f4.set 8 7) = .ok () := by decide
  have hh : blobHeaderFromFile (f4.set 8 7) = .error .blobVersion := by decide
  have hw := validate_accepts_but_init_fails cfg _ hv hh [] false
  exact ⟨fun h => hw.2.2.2.1 ((h cfg _ false).mp hv), fun h => hw.2.2.2.2 ((h cfg _ false cfg_ok).mp hv)⟩

example (gh : List Rec) (lazy : Bool) :
    validateBlob (f4.set 8 7) = .ok () ∧ startOn cfg (f4.set 8 7) gh lazy = none ∧
    startOn cfgN (f4.set 8 7) gh lazy = none :=
  ⟨by decide, (validate_accepts_but_init_fails cfg _ (by decide) (by decide) gh lazy).2.2.1,
    (validate_accepts_but_init_fails cfgN _ (by decide) (by decide) gh lazy).2.2.1⟩

-- what start-up does with the DAMAGED files themselves (by evaluation), and that none of it is "opened with all its
-- records" (by the theorem): the blob cut inside the data of record 0 is opened WITH the torn record when data validation
-- is off (finding E8) and quarantined when it is on; the blob with a data byte of record 0 altered is opened with all four
-- headers when data validation is off (the record then fails its checksum when read) and quarantined when it is on
example : startOutcome cfgN (f4.take 95) = .ok ((blobHeaders 3 (full g4)).take 1) ∧
    startOutcome cfg (f4.take 95) = .quarantine ∧
    startOutcome cfgN (f4.set 91 0xAA) = .ok (blobHeaders 3 (full g4)) ∧
    startOutcome cfg (f4.set 91 0xAA) = .quarantine := by
  refine ⟨by decide, by decide, by decide, by decide⟩

example (lazy : Bool) : ¬ OpensAll cfgN (f4.take 95) lazy ∧ ¬ OpensAll cfgN (f4.set 91 0xAA) lazy := by
  have h1 : validateBlob (f4.take 95) ≠ .ok () := by decide
  have h2 : validateBlob (f4.set 91 0xAA) ≠ .ok () := by decide
  exact ⟨fun h => h1 ((validate_blob_iff_opens_all_partial cfgN_ok g4_fitsN _ (Or.inl ⟨95, rfl⟩) lazy).mpr h),
    fun h => h2 ((validate_blob_iff_opens_all_partial cfgN_ok g4_fitsN _ (Or.inr ⟨0, flip_data⟩) lazy).mpr h)⟩

example (lazy : Bool) : OpensAll cfg (f4.take 191) lazy :=
  (validate_blob_iff_opens_all_partial cfg_ok g4_fits _ (Or.inl ⟨191, rfl⟩) lazy).mp (by decide)

end Pearl.ToolsServe

#print axioms Pearl.ToolsServe.opensServing_spelled
#print axioms Pearl.ToolsServe.opensServing_any_ghost
#print axioms Pearl.ToolsServe.produced_blob_opens
#print axioms Pearl.ToolsServe.recovered_flip_opens
#print axioms Pearl.ToolsServe.recovered_cut_opens
#print axioms Pearl.ToolsServe.recovered_blob_opens
#print axioms Pearl.ToolsServe.recovered_blob_serves_original
#print axioms Pearl.ToolsServe.migrated_blob_opens
#print axioms Pearl.ToolsServe.v0_image_rejected_not_quarantined
#print axioms Pearl.ToolsServe.migrate_makes_servable
#print axioms Pearl.ToolsServe.validate_blob_iff_opens_partial
#print axioms Pearl.ToolsServe.validate_of_opens_all
#print axioms Pearl.ToolsServe.validate_blob_iff_opens_all_partial
#print axioms Pearl.ToolsServe.validate_accepts_but_init_fails
#print axioms Pearl.ToolsServe.validate_blob_iff_opens_false

/-
NOT YET PROVED (none of the requested statements is missing; boundaries and possible strengthenings)

1. Record types.  The composition is stated for blobs `full g` (data bytes = `dataOf (len, seed)`); for C16's general
   `Rec × List UInt8` with arbitrary data bytes the storage side has no L2 record to abstract to.  `C05.recs4` itself is NOT
   of that form (`f4_layout`), so the examples use `g4` = the same four records with the storage's data bytes.
2. One blob file in the directory.  With further (intact) blob files next to the recovered one the same argument goes through
   `ofBlobs_ref` for the list of opened blobs; not stated.
3. Index files.  The directory holds no index file (a tool output has none).  Start-up next to a STALE index file of the
   damaged original is the business of `restart_with_indexes_of_inv` / `crash_with_indexes` (C03: rejected unless current);
   the composition with a leftover index file of the ORIGINAL blob beside the RECOVERED blob is not stated.
4. `validate_blob x = ok ⟹ the storage opens x` for arbitrary bytes `x` is false (version: `validate_blob_iff_opens_false`);
   the other direction is proved for arbitrary bytes (`validate_of_opens_all`).  Other known gaps between the two, not
   refuted here on witnesses: `validate_blob` does not look at the header flags either; and `C16.oddFile` (a record whose
   meta region carries a trailing byte) is accepted by `validate_blob` AND by the storage scan, but is not a file the writer
   model produces, so it is not `OpensAll` in the sense used here (which includes the invariant `CInv`).
5. Alterations that touch a length field of a record header (C16, NOT YET PROVED 1) are outside `Covered`.
-/
