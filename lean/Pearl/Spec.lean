import Pearl.Model.Basic
/-
L0: the abstract specification, stated over the *history* only: which records were appended to which
blob, in which order.  Nothing here mentions indexes, filters, files or the container.

  rank (properties C01/C02): greatest timestamp first, then most recently created blob (= greatest id),
  then most recently appended (= greatest position in the blob).
-/
namespace Pearl

/-- a record together with where it lives: blob id and position in the blob's append order -/
structure PRec where
  r : Rec
  blob : Nat
  seq : Nat
deriving DecidableEq, Repr, Inhabited

/-- `rankBefore a b`: `a` is ranked strictly before `b` -/
def rankBefore (a b : PRec) : Bool :=
  decide (a.r.ts > b.r.ts) ||
    (a.r.ts == b.r.ts && (decide (a.blob > b.blob) || (a.blob == b.blob && decide (a.seq > b.seq))))

/-- non-strict version used for sorting: `a` is not ranked after `b` -/
def rankLe (a b : PRec) : Bool := !rankBefore b a

/-- the history: blobs as `(id, records in append order)`; the order of the outer list is irrelevant -/
abbrev History := List (Nat × List Rec)

def positionedFrom (id : Nat) : Nat → List Rec → List PRec
  | _, [] => []
  | i, r :: rs => ⟨r, id, i⟩ :: positionedFrom id (i+1) rs

/-- every record of the history with its position -/
def History.positioned (h : History) : List PRec :=
  h.flatMap fun b => positionedFrom b.1 0 b.2

namespace Spec

/-- all records of key `k`, in rank order -/
def all (h : History) (k : Key) : List PRec :=
  (h.positioned.filter (fun p => p.r.key == k)).mergeSort rankLe

/-- cut a rank-ordered list immediately after its first deletion marker -/
def cut : List PRec → List PRec
  | [] => []
  | p :: ps => if p.r.del then [p] else p :: cut ps

/-- `read_all_with_deletion_marker` -/
def allCut (h : History) (k : Key) : List PRec := cut (all h k)

/-- `read_all`: the cut list without the marker -/
def allLive (h : History) (k : Key) : List PRec := (allCut h k).filter (fun p => !p.r.del)

/-- `read` / `contains`: classification of the first-ranked record -/
def latest (h : History) (k : Key) : ReadResult PRec :=
  match all h k with
  | [] => .notFound
  | p :: _ => if p.r.del then .deleted p.r.ts else .found p

/-- `read_with(meta)`: first listed (non-marker) record whose metadata equals `m`,
    else `Deleted` if the list ends in a marker, else `NotFound` -/
def readWith (h : History) (k : Key) (m : Meta) : ReadResult PRec :=
  let l := allCut h k
  match l.find? (fun p => !p.r.del && p.r.mt == m) with
  | some p => .found p
  | none =>
    match l.getLast? with
    | some p => if p.r.del then .deleted p.r.ts else .notFound
    | none => .notFound

/-- is key `k` live in the blob whose records are `rs` (its first-ranked record there is not a marker)? -/
def liveIn (id : Nat) (rs : List Rec) (k : Key) : Bool :=
  (latest [(id, rs)] k).isFound

/-- number of records physically appended per blob, and in total -/
def count (h : History) : Nat := (h.map (fun b => b.2.length)).sum

end Spec
end Pearl
