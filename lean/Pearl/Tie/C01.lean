import Pearl.Gen.Consts
import Pearl.Model.Store
/-! Tie of the C01/C02 model to the current source through the translator (regenerated on every run). -/
namespace Pearl.Tie.C01

/-- `ReadResult::latest` replaces `self` only when `other` has a STRICTLY greater timestamp — what
    `Pearl.ReadResult.latest` (`optGt`) models; first-seen wins on ties -/
theorem latest_comparison_is_strict : Gen.LATEST_OTHER_WINS_IF = ">" := rfl

example : optGt (some 5) (some 5) = false ∧ optGt (some 6) (some 5) = true ∧ optGt (some 0) none = true := by decide

end Pearl.Tie.C01
