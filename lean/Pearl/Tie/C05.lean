import Pearl.Gen.Consts
import Pearl.Model.Record
/-! Tie of the L5 byte model to the current source through the translator. -/
namespace Pearl.Tie.C05

theorem record_header_layout :
    Gen.layout_record_Header =
      [("magic_byte", "u64"), ("key", "Vec<u8>"), ("meta_size", "u64"), ("data_size", "u64"), ("flags", "u8"),
       ("blob_offset", "u64"), ("timestamp", "u64"), ("data_checksum", "u32"), ("header_checksum", "u32")] := rfl

/-- the fields after `blob_offset` are `blob_offset u64 + timestamp u64 + two u32` = 24 bytes, after the
    checksum 4 bytes: the two patch offsets of `finalize_with_checksum` (defaults of `finalizeWithChecksum`) -/
theorem patch_offsets : Gen.BLOB_OFFSET_PATCH = 24 ∧ Gen.CHECKSUM_PATCH = 4 := by decide

theorem single_pass_threshold : Pearl.MAX_SINGLE_PASS_DATA_SIZE = Gen.MAX_SINGLE_PASS_DATA_SIZE := by decide
theorem record_magic : Pearl.RECORD_MAGIC_BYTE = Gen.RECORD_MAGIC_BYTE := by decide
theorem delete_flag : Pearl.DELETE_FLAG.toNat = Gen.DELETE_FLAG := by decide
theorem blob_magic : Pearl.BLOB_MAGIC_BYTE = Gen.BLOB_MAGIC_BYTE ∧ Pearl.BLOB_VERSION = Gen.BLOB_VERSION := by decide
theorem blob_header_layout :
    Gen.layout_blob_Header = [("magic_byte", "u64"), ("version", "u32"), ("flags", "u64")] := rfl

/-- the validation chain of a record read back from a blob is the straight line the model has (`headerValidate`:
    magic byte, then header checksum; `entryLoad` / `loadData`: header validation, then CRC-32C of the whole data
    against `data_checksum`, `recordDataChecksum` otherwise) - no shortcut, no partial checksum -/
theorem validation_chain :
    Gen.RECORD_VALIDATE = ["header.validate()?", "check_data_checksum()?"] ∧
    Gen.RECORD_CHECK_DATA = ["header.data_checksum_audit(data)"] ∧
    Gen.HEADER_VALIDATE = ["check_magic_byte()?", "check_header_checksum()?"] ∧
    Gen.DATA_AUDIT = ["CRC32C.checksum(data)", "==", "data_checksum", "RecordDataChecksum"] := by decide

/-- `Meta::serialized_size` and `Header::serialized_size` (the `meta_size` of a record header and the header length) are
    bincode's own `serialized_size`, not a hand-written formula: the model's lengths are the lengths of the
    serialized images (`serMeta`, `serHeader`) -/
theorem sizes_from_bincode : Gen.RECORD_SERIALIZED_SIZES = ["bincode", "bincode"] := by decide

end Pearl.Tie.C05
