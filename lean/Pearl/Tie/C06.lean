import Pearl.Gen.Consts
/-! `should_save_corrupted_blob`: which start-up errors quarantine a blob (rename into the corrupted dir). -/
namespace Pearl.Tie.C06
theorem quarantine_table :
    Gen.SAVE_CORRUPTED_BINCODE = true ∧ Gen.SAVE_CORRUPTED_VALIDATION_EXCEPT = "BlobVersion" ∧
    Gen.SAVE_CORRUPTED_OTHER = false := ⟨rfl, rfl, rfl⟩
end Pearl.Tie.C06
