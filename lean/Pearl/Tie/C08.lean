import Pearl.Gen.Consts
/-! The deadlock threshold of C08 is `OBSERVER_CHANNEL_SIZE_LIMIT + 2` concurrent writers. -/
namespace Pearl.Tie.C08
theorem channel_capacity : Gen.OBSERVER_CHANNEL_SIZE_LIMIT = 1024 := by decide
theorem capacity_positive : 0 < Gen.OBSERVER_CHANNEL_SIZE_LIMIT := by decide
end Pearl.Tie.C08
