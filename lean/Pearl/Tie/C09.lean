import Pearl.Gen.Consts
import Pearl.Model.BPTreeBytes
/-! Tie of the L4 index model to the current source through the translator. -/
namespace Pearl.Tie.C09

theorem block_size : (BPTree.Params.real 0).B = Gen.BLOCK_SIZE := by decide
theorem index_header_layout :
    Gen.layout_IndexHeader =
      [("magic_byte", "u64"), ("records_count", "usize"), ("record_header_size", "usize"), ("meta_size", "usize"),
       ("hash", "Vec<u8>"), ("version", "u8"), ("key_size", "u16"), ("blob_size", "u64")] := rfl
theorem tree_meta_layout : Gen.layout_TreeMeta = [("leaves_offset", "u64"), ("tree_offset", "u64")] := rfl
theorem node_meta_layout : Gen.layout_NodeMeta = [("size", "u64")] := rfl
theorem index_version_magic :
    BPTree.indexHeaderVersion = Gen.HEADER_VERSION ∧ BPTree.magicByte = Gen.INDEX_HEADER_MAGIC_BYTE ∧
    BPTree.magicByte = Gen.RECORD_MAGIC_BYTE ∧ Gen.HASH_LENGTH = 32 := by decide

/-- the node-capacity / node-size arithmetic of the model is, definitionally, the arithmetic the translator reads out
    of `bptree/serializer.rs` and `bptree/node.rs` -/
theorem max_amount_formula (p : BPTree.Params) :
    BPTree.maxAmount p = Gen.fn_max_nonleaf_node_capacity p.B p.K BPTree.nodeMetaSize := rfl
theorem min_amount_formula (p : BPTree.Params) :
    BPTree.minAmount p = Gen.fn_min_amount (BPTree.maxAmount p) := rfl
theorem node_size_formula (p : BPTree.Params) (n : Nat) :
    BPTree.nodeSize p n = Gen.fn_node_serialized_size_with_keys p.K n BPTree.nodeMetaSize := rfl
theorem offset_size_is_u64 : BPTree.offsetSize = 8 ∧ BPTree.nodeMetaSize = 8 := by decide

/-- the search inside a serialized inner node compares keys in the key type's own order (`K::Ref`), like the search
    in the leaves and like the in-memory index: the model has ONE order (`Keyed.key`) for all three -/
theorem node_search_order : Gen.NODE_SEARCH_CMP = ["key.as_ref_key()", "K::Ref::from"] := by decide

end Pearl.Tie.C09
