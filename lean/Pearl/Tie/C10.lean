import Pearl.Gen.Consts
import Pearl.Model.AHash
import Pearl.Model.Filter
/-! Tie of the filter models to the current source through the translator. -/
namespace Pearl.Tie.C10

theorem bloom_config_layout :
    Gen.layout_bloom_Config =
      [("elements", "usize"), ("hashers_count", "usize"), ("max_buf_bits_count", "usize"),
       ("buf_increase_step", "usize"), ("preferred_false_positive_rate", "f64")] := rfl
theorem bloom_save_layout :
    Gen.layout_bloom_Save = [("config", "Config"), ("buf", "Vec<u64>"), ("bits_count", "usize")] := rfl
theorem range_layout : Gen.layout_RangeFilterInner = [("min", "K"), ("max", "K"), ("initialized", "bool")] := rfl
theorem ahash_constants :
    AHash.MULTIPLE = Gen.AHASH_MULTIPLE ∧ AHash.ROT = Gen.AHASH_ROT ∧
    [AHash.PI.1, AHash.PI.2.1, AHash.PI.2.2.1, AHash.PI.2.2.2] = Gen.AHASH_PI := by decide
/-- hasher `i` of a bloom filter is `AHasher::new_with_keys(i + 1, i + 2)` (`AHash.family`) -/
theorem hasher_keys : Gen.BLOOM_HASHER_KEY1_OFFSET = 1 ∧ Gen.BLOOM_HASHER_KEY2_OFFSET = 2 := by decide
/-- `impl Add for FilterResult`: only `NotContains + NotContains` stays `NotContains` -/
theorem filter_add_table : Gen.FILTER_ADD_NO_NO = "NotContains" ∧ Gen.FILTER_ADD_OTHER = "NeedAdditionalCheck" :=
  ⟨rfl, rfl⟩

/-- `Inner::merge_filters`: a node whose child has no filter (or whose own filter is `None`, or whose merge is refused)
    becomes `None` - the model's `Container.mergeFilters` (`none` on either side gives `none`, which covers every key:
    `C10b.merge_filters_rule`).  The seeded change C10-9 turned the fallback into "keep the node's filter". -/
theorem merge_filters_falls_back_to_none : Gen.MERGE_FILTERS_NO_FILTER_MERGES = false := by decide

end Pearl.Tie.C10
