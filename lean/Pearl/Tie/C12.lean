import Pearl.Gen.Consts
namespace Pearl.Tie.C12
theorem default_dirty_limit : Gen.DEFAULT_MAX_DIRTY_BYTES = 32 * 1024 * 1024 := by decide
theorem background_io_threshold : Gen.MAX_SYNC_OPERATION_SIZE = 81920 := by decide
/-- `Inner::fsyncdata` takes the in-progress flag by compare-exchange, releases it through a guard that lives in an inner
    scope, and looks at the active blob again after that scope, inside a loop: the protocol of
    `SyncProto.recheckOnly` (= the repair of E23) -/
theorem background_sync_shape :
    Gen.BACKGROUND_SYNC_SHAPE = ["loop", "guard-in-inner-scope", "recheck-after-release", "cas"] := by decide

end Pearl.Tie.C12
