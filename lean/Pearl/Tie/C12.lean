import Pearl.Gen.Consts
namespace Pearl.Tie.C12
theorem default_dirty_limit : Gen.DEFAULT_MAX_DIRTY_BYTES = 32 * 1024 * 1024 := by decide
theorem background_io_threshold : Gen.MAX_SYNC_OPERATION_SIZE = 81920 := by decide
end Pearl.Tie.C12
