import Pearl.Gen.Consts
import Pearl.Model.Worker
/-! Tie of the worker model (L7) to the current source through the translator. -/
namespace Pearl.Tie.C13

/-- The harness waits 260 ms to be past the debounce interval; the model's `debounceSure` is 250. -/
theorem debounce_below_wait : Gen.DEFAULT_DEBOUNCE_MS < 250 := by decide

/-- the request kinds of `process_msg`, in the order of its `match` -/
def variantName : OpType → String
  | .forceUpdateActiveBlob => "ForceUpdateActiveBlob"
  | .closeActiveBlob => "CloseActiveBlob"
  | .createActiveBlob => "CreateActiveBlob"
  | .restoreActiveBlob => "RestoreActiveBlob"
  | .tryDumpBlobIndexes => "TryDumpBlobIndexes"
  | .tryFsyncData => "TryFsyncData"
  | .tryUpdateActiveBlob => "TryUpdateActiveBlob"
  | .deferredDumpBlobIndexes => "DeferredDumpBlobIndexes"

/-- the calls `Pearl.processOp` stands for, per request kind (`?` = the error leaves `process_msg`, `!` = the result
    is negated in the condition that guards what follows):
    `replaceActive`, `closeActive`, `tryCreateActive`, `restoreActive`, `tryRunDump` then `deferDump` when no task was
    started (since the repair of E27), `tryRunFsync`, `tryUpdateActive` then `tryRunDump` / `deferDump`, `deferDump` -/
def modelCalls : OpType → String
  | .forceUpdateActiveBlob => "update_active_blob?"
  | .closeActiveBlob => "close_active_blob?"
  | .createActiveBlob => "create_active_blob?"
  | .restoreActiveBlob => "restore_active_blob?"
  | .tryDumpBlobIndexes => "!try_run_old_blob_indexes_dump_task defer_blob_indexes_dump?"
  | .tryFsyncData => "try_run_fsync_task"
  | .tryUpdateActiveBlob => "try_update_active_blob? !try_run_old_blob_indexes_dump_task defer_blob_indexes_dump?"
  | .deferredDumpBlobIndexes => "defer_blob_indexes_dump?"

/-- every arm of `process_msg` in the source is the arm of `processOp` with the same calls, and there is no other arm -/
theorem worker_dispatch :
    Gen.WORKER_DISPATCH =
      [OpType.forceUpdateActiveBlob, .closeActiveBlob, .createActiveBlob, .restoreActiveBlob, .tryDumpBlobIndexes,
       .tryFsyncData, .tryUpdateActiveBlob, .deferredDumpBlobIndexes].map (fun t => (variantName t, modelCalls t)) := by
  decide

/-- both receive paths of the loop (`tick`, `tick_with_deadline`) log an error of `process_msg` and go on: the loop of
    the current source is `processMsgFixed` (`ErrorPolicy.logAndContinue`), the policy the C13 theorems are about -/
theorem worker_error_policy : Gen.WORKER_MSG_ERROR_POLICY = ["log", "log"] := by decide

/-- `should_update_active_blob`: `file_size >= max_size || records_count >= max_count`, then `age > debounce`
    (`Pearl.tryUpdateActive` / `Driver.afterWrite`: `count ≥ maxCount`, `size ≥ maxSize`, age above the debounce interval) -/
theorem rotation_test : Gen.ROTATE_TEST = [">=", "||", ">=", ">"] := by decide

/-- every path that leaves a deferred index dump registered arms a deadline: the re-created record of
    `process_deferred_blob_index_dump` (since the repair of E22), its not-yet-due branch, and `defer_blob_indexes_dump`
    (unconditionally, for a new and for a refreshed record) - the loop is `WorkerTimed.Variant.repaired`, for which
    `deferred_has_deadline` is proved -/
theorem deferred_rerecord_arms_deadline :
    Gen.DEFERRED_ARMS_DEADLINE = ["rerecord:update_deadline", "not-due:update_deadline", "defer:update_deadline"] := by
  decide

end Pearl.Tie.C13
