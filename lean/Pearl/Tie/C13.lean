import Pearl.Gen.Consts
/-! The harness waits 260 ms to be past the debounce interval; the model's `debounceSure` is 250. -/
namespace Pearl.Tie.C13
theorem debounce_below_wait : Gen.DEFAULT_DEBOUNCE_MS < 250 := by decide
end Pearl.Tie.C13
