import Pearl.Gen.Consts
namespace Pearl.Tie.C14
/-- `IndexStruct::load_in_memory` as written now: every suspension point (the awaited reads of the index file) comes
    before the first assignment to `self`, and there is at least one of each.  This is the segment structure the
    cancellation model assumes for `load_index` (`Model/Cancel.lean`: `[.await none, .sync (on CBlob.loadIndex)]` - a
    dropped future leaves the blob as it was); the code before the repair of E24 switched the state between the two
    reads and this statement was false of it (`["await", "set", "await", "set", "set"]`). -/
theorem load_index_switches_after_reads :
    (Gen.LOAD_INDEX_SEGMENTS.dropWhile (· == "await")).all (· == "set") = true ∧
    Gen.LOAD_INDEX_SEGMENTS.contains "await" = true ∧ Gen.LOAD_INDEX_SEGMENTS.contains "set" = true := by decide

/-- the shape before the repair does not satisfy the statement (so the obligation is not vacuous) -/
example : (["await", "set", "await", "set", "set"].dropWhile (· == "await")).all (· == "set") = false := by decide
end Pearl.Tie.C14
