import Pearl.Gen.Consts
namespace Pearl.Tie.C15
/-- `Inner::ensure_active_blob_exists` as written now: test for an active blob, and only in the branch that has none take
    the next id, create the file, install the blob - the order in which `ConcCreate.cstep` walks a `firstOp` client
    through `locked → creating id → created id` (`Props/C15b.lean`: one id per blob that exists).  The seeded change C15-6
    (`["take-id", "test", "create", "install"]`) is the variant `ensureSeeded` of that model (`seeded_burns_ids`). -/
theorem ensure_active_order : Gen.ENSURE_ACTIVE_ORDER = ["test", "take-id", "create", "install"] := by decide
end Pearl.Tie.C15
