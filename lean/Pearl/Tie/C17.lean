import Pearl.Gen.Consts
import Pearl.Model.Pinned
/-! C17 `layout_pinned`: every serialized layout and every format constant of the current source equals the
    snapshot taken from the pinned release. -/
namespace Pearl.Tie.C17

theorem layout_pinned :
    Gen.layout_record_Header = Pinned.layout_record_Header ∧
    Gen.layout_blob_Header = Pinned.layout_blob_Header ∧
    Gen.layout_IndexHeader = Pinned.layout_IndexHeader ∧
    Gen.layout_TreeMeta = Pinned.layout_TreeMeta ∧
    Gen.layout_NodeMeta = Pinned.layout_NodeMeta ∧
    Gen.layout_bloom_Config = Pinned.layout_bloom_Config ∧
    Gen.layout_bloom_Save = Pinned.layout_bloom_Save ∧
    Gen.layout_RangeFilterInner = Pinned.layout_RangeFilterInner := ⟨rfl, rfl, rfl, rfl, rfl, rfl, rfl, rfl⟩

theorem constants_pinned :
    Gen.RECORD_MAGIC_BYTE = Pinned.RECORD_MAGIC_BYTE ∧ Gen.BLOB_MAGIC_BYTE = Pinned.BLOB_MAGIC_BYTE ∧
    Gen.BLOB_VERSION = Pinned.BLOB_VERSION ∧ Gen.INDEX_HEADER_MAGIC_BYTE = Pinned.INDEX_HEADER_MAGIC_BYTE ∧
    Gen.HEADER_VERSION = Pinned.HEADER_VERSION ∧ Gen.HASH_LENGTH = Pinned.HASH_LENGTH ∧
    Gen.BLOCK_SIZE = Pinned.BLOCK_SIZE ∧ Gen.DELETE_FLAG = Pinned.DELETE_FLAG ∧
    Gen.BLOB_OFFSET_PATCH = Pinned.BLOB_OFFSET_PATCH ∧ Gen.CHECKSUM_PATCH = Pinned.CHECKSUM_PATCH ∧
    Gen.AHASH_MULTIPLE = Pinned.AHASH_MULTIPLE ∧ Gen.AHASH_ROT = Pinned.AHASH_ROT ∧ Gen.AHASH_PI = Pinned.AHASH_PI ∧
    Gen.BLOOM_HASHER_KEY1_OFFSET = Pinned.BLOOM_HASHER_KEY1_OFFSET ∧
    Gen.BLOOM_HASHER_KEY2_OFFSET = Pinned.BLOOM_HASHER_KEY2_OFFSET := by decide

end Pearl.Tie.C17
