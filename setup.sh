#!/bin/sh
# Build the framework from files on disk only (offline).
set -e
cd "$(dirname "$0")"
export CARGO_NET_OFFLINE=true
python3 tools/rs2lean.py --repo /repo --out lean/Pearl/Gen
(cd lean && lake build)
cp /repo/Cargo.lock harness/Cargo.lock 2>/dev/null || true
(cd harness && cargo build --offline)
echo setup ok
