#!/usr/bin/env python3
"""Entry point of the verification machinery:  ./check <ID> [--tier quick|thorough] [--replay path]

Per run (DESIGN.md 2.2): regenerate Gen/ from /repo, re-check the Lean proofs of the property, audit axioms,
rebuild the harness against /repo's working tree (hooks on), run the correspondence (implementation vs
executable model) on generated scenarios with the Spec-level oracle judging the implementation, write
evidence, print VIOLATION / KNOWN-FINDING lines, exit 0/1."""
import argparse
import concurrent.futures as cf
import hashlib
import json
import os
import random
import re
import shutil
import subprocess
import sys
import time

ROOT = os.path.dirname(os.path.dirname(os.path.abspath(__file__)))
sys.path.insert(0, os.path.join(ROOT, 'tools'))
LEAN = os.path.join(ROOT, 'lean')
MODEL_BIN = os.path.join(LEAN, '.lake', 'build', 'bin', 'pearl-model')
HARNESS_DIR = os.path.join(ROOT, 'harness')
HARNESS_BIN = os.path.join(ROOT, 'target', 'debug', 'pvh')
JOBS = int(os.environ.get('VERIF_JOBS', '16'))
ALLOWED_AXIOMS = {'propext', 'Classical.choice', 'Quot.sound'}
TRUSTED_BASE = [
    "Lean 4.33.0 kernel (thorough tier re-checks the property modules with leanchecker)",
    "axioms: propext, Classical.choice, Quot.sound only (audited with #print axioms on every property theorem)",
    "tools/rs2lean.py: extraction of constants / serialized struct layouts / decision tables from /repo/src",
    "correspondence harness (Rust, in-process against /repo with --cfg pearl_verif) + scenario generators",
    "the L0 Spec (lean/Pearl/Spec.lean) as the reading of properties.jsonl",
    "rustc, tokio, bincode (fixed-int little-endian), crc, sha2 as libraries",
]


def scratch_dir():
    base = os.environ.get('TMPDIR', '/tmp')
    d = os.path.join(base, f'pearl-verif-{os.getpid()}')
    os.makedirs(d, exist_ok=True)
    return d


def sh(cmd, cwd=None, timeout=3600, env=None, input=None):
    e = dict(os.environ)
    e.setdefault('CARGO_NET_OFFLINE', 'true')
    if env:
        e.update(env)
    try:
        p = subprocess.run(cmd, cwd=cwd, shell=isinstance(cmd, str), stdout=subprocess.PIPE,
                           stderr=subprocess.STDOUT, timeout=timeout, env=e, input=input)
        return p.returncode, p.stdout.decode('utf-8', 'replace')
    except subprocess.TimeoutExpired as ex:
        return 124, (ex.stdout or b'').decode('utf-8', 'replace') + '\nTIMEOUT'


# ------------------------------------------------------------------------------------------------
# proofs

def regenerate_gen():
    rs2lean = os.path.join(ROOT, 'tools', 'rs2lean.py')
    if not os.path.exists(rs2lean):
        return True, 'no translator yet'
    rc, out = sh([sys.executable, rs2lean, '--repo', '/repo', '--out', os.path.join(LEAN, 'Pearl', 'Gen')])
    return rc == 0, out


TIE_OF = {'C02': ['C01'], 'C03': ['C09'], 'C04': ['C01'], 'C07': ['C05'], 'C11': ['C05', 'C06'],
          'C14': ['C14', 'C05'], 'C16': ['C05', 'C06'], 'C17': ['C17', 'C05', 'C09', 'C10'], 'C15': ['C15', 'C01']}


EXTRA_PROPS = {'C03': ['Pearl.Props.C03b'], 'C01': ['Pearl.Props.EndToEnd'], 'C06': ['Pearl.Props.EndToEndCrash'],
               'C10': ['Pearl.Props.C10b'], 'C16': ['Pearl.Props.ToolsServe', 'Pearl.Props.C16b'],
               'C14': ['Pearl.Props.C14b'], 'C15': ['Pearl.Props.C15b']}


def prop_modules(prop):
    """Lean modules holding the obligations of a property: its theorem file and the translator-tie files"""
    mods = []
    if os.path.exists(os.path.join(LEAN, 'Pearl', 'Props', f'{prop}.lean')):
        mods.append(f'Pearl.Props.{prop}')
    for extra in EXTRA_PROPS.get(prop, []):
        if os.path.exists(os.path.join(LEAN, *extra.split('.')) + '.lean'):
            mods.append(extra)
    for t in TIE_OF.get(prop, [prop]):
        if os.path.exists(os.path.join(LEAN, 'Pearl', 'Tie', f'{t}.lean')):
            mods.append(f'Pearl.Tie.{t}')
    return mods


def build_lean(prop):
    mods = prop_modules(prop)
    rc, out = sh(['lake', 'build', 'pearl-model'] + mods, cwd=LEAN, timeout=3000)
    return rc == 0, out, bool(mods)


def module_theorems(mod):
    path = os.path.join(LEAN, *mod.split('.')) + '.lean'
    if not os.path.exists(path):
        return []
    src_nc = strip_lean_comments(open(path).read())
    names = []
    ns = []
    for line in src_nc.splitlines():
        m = re.match(r'\s*namespace\s+(\S+)', line)
        if m:
            ns.append(m.group(1))
            continue
        m = re.match(r'\s*end\s+(\S+)', line)
        if m and ns and ns[-1].split('.')[-1] == m.group(1).split('.')[-1]:
            ns.pop()
            continue
        m = re.match(r'\s*(?:@\[[^\]]*\]\s*)?(?:protected\s+|private\s+)?theorem\s+(\S+)', line)
        if m:
            n = m.group(1)
            full = '.'.join(ns + [n]) if not n.startswith('_root_.') else n[len('_root_.'):]
            names.append(full)
    return names


def props_theorems(prop):
    names = []
    for mod in prop_modules(prop):
        names += module_theorems(mod)
    return names


def strip_lean_comments(src):
    out = []
    i = 0
    depth = 0
    n = len(src)
    while i < n:
        if src.startswith('/-', i):
            depth += 1
            i += 2
        elif depth > 0 and src.startswith('-/', i):
            depth -= 1
            i += 2
        elif depth > 0:
            if src[i] == '\n':
                out.append('\n')
            i += 1
        elif src.startswith('--', i):
            while i < n and src[i] != '\n':
                i += 1
        else:
            out.append(src[i])
            i += 1
    return ''.join(out)


FORBIDDEN = re.compile(r'\b(sorry|admit|native_decide|implemented_by|bv_decide)\b|^\s*axiom\s|\bunsafe\s|maxHeartbeats\s+0')


def import_closure(prop):
    """files of this project in the import closure of Props/<prop>.lean"""
    seen = []
    todo = list(prop_modules(prop))
    while todo:
        m = todo.pop()
        if m in seen:
            continue
        path = os.path.join(LEAN, *m.split('.')) + '.lean'
        if not os.path.exists(path):
            continue
        seen.append(m)
        for line in open(path):
            mm = re.match(r'\s*(?:public\s+)?import\s+(Pearl\.\S+)', line)
            if mm:
                todo.append(mm.group(1))
    return seen


def audit(prop):
    res = {'ok': True, 'theorems': {}, 'forbidden': [], 'modules': []}
    mods = import_closure(prop)
    res['modules'] = mods
    for m in mods:
        path = os.path.join(LEAN, *m.split('.')) + '.lean'
        src = strip_lean_comments(open(path).read())
        for ln, line in enumerate(src.splitlines(), 1):
            if FORBIDDEN.search(line):
                res['forbidden'].append(f'{m}:{ln}: {line.strip()}')
    names = props_theorems(prop)
    if not names:
        res['ok'] = not res['forbidden']
        return res
    d = scratch_dir()
    f = os.path.join(d, f'Audit{prop}.lean')
    with open(f, 'w') as fh:
        for mod in prop_modules(prop):
            fh.write(f'import {mod}\n')
        for n in names:
            fh.write(f'#print axioms {n}\n')
    rc, out = sh(['lake', 'env', 'lean', f], cwd=LEAN, timeout=1200)
    cur = None
    axioms = {}
    text = out.replace('\n  ', ' ')
    for m in re.finditer(r"'([^\n]*?)' (depends on axioms: \[([^\]]*)\]|does not depend on any axioms)", text):
        name = m.group(1)
        ax = [a.strip() for a in (m.group(3) or '').split(',') if a.strip()]
        axioms[name] = ax
    for n in names:
        if n not in axioms:
            res['theorems'][n] = None
            res['ok'] = False
        else:
            res['theorems'][n] = axioms[n]
            if not set(axioms[n]) <= ALLOWED_AXIOMS:
                res['ok'] = False
    if res['forbidden'] or rc != 0:
        res['ok'] = False
    res['log'] = out[-2000:] if rc != 0 else ''
    return res


def leanchecker(prop):
    mods = [m for m in import_closure(prop)]
    bad = []
    with cf.ThreadPoolExecutor(max_workers=JOBS) as ex:
        futs = {ex.submit(sh, ['lake', 'env', 'leanchecker', m], LEAN, 1800): m for m in mods}
        for fu in cf.as_completed(futs):
            rc, out = fu.result()
            if rc != 0:
                bad.append((futs[fu], out[-500:]))
    return bad


# ------------------------------------------------------------------------------------------------
# implementation side

def build_harness():
    lock_src = '/repo/Cargo.lock'
    lock_dst = os.path.join(HARNESS_DIR, 'Cargo.lock')
    rc, out = sh(['cargo', 'build', '--offline'], cwd=HARNESS_DIR, timeout=3000)
    if rc != 0 and os.path.exists(lock_src):
        # lockfile drift: start again from the repository's lockfile
        shutil.copy(lock_src, lock_dst)
        rc, out = sh(['cargo', 'build', '--offline'], cwd=HARNESS_DIR, timeout=3000)
    return rc == 0, out


def script_lines(lines):
    return [l.strip() for l in lines if l.strip() and not l.strip().startswith('#')]


_BLOOM_BITS = {}


def bloom_bits(cfg):
    """bit count of a bloom configuration `elements,hashers,max_bits`: an f64 formula in the implementation, obtained
    from it once per configuration and handed to the model as an input"""
    if cfg not in _BLOOM_BITS:
        e, k, m = cfg.split(',')
        try:
            pr = subprocess.run([HARNESS_BIN, 'run', '-'], input=f'bloom new {e} {k} {m}\n'.encode(), stdout=subprocess.PIPE,
                                stderr=subprocess.DEVNULL, timeout=60)
            out = pr.stdout.decode().strip()
            _BLOOM_BITS[cfg] = int(out.split('bits=')[1]) if 'bits=' in out else 0
        except Exception:
            _BLOOM_BITS[cfg] = 0
    return _BLOOM_BITS[cfg]


def run_chunk(idx, scens, timeout):
    """run a list of scenarios through harness, model and oracle; returns per-scenario dicts"""
    d = scratch_dir()
    sp = os.path.join(d, f'chunk{idx}.txt')
    flat = []
    for s in scens:
        flat += script_lines(s)
    with open(sp, 'w') as fh:
        fh.write('\n'.join(flat) + '\n')
    wd = os.path.join(d, f'wd{idx}')
    os.makedirs(wd, exist_ok=True)
    e = dict(os.environ)
    e.update({'RUST_LOG': 'off', 'RUST_BACKTRACE': '0'})
    try:
        pr = subprocess.run([HARNESS_BIN, 'run', sp, '--dir', wd], stdout=subprocess.PIPE, stderr=subprocess.DEVNULL,
                            timeout=timeout, env=e)
        rc, out = pr.returncode, pr.stdout.decode('utf-8', 'replace')
    except subprocess.TimeoutExpired as ex:
        rc, out = 124, (ex.stdout or b'').decode('utf-8', 'replace')
    impl = [l for l in out.splitlines()]
    crashed = rc != 0 or len(impl) != len(flat)
    if len(impl) < len(flat):
        impl += ['crash'] * (len(flat) - len(impl))
    impl = impl[:len(flat)]
    # nondeterministic background events observed by the implementation are handed to the model as
    # annotations; the model checks that they were enabled
    def annotate(l, o):
        c0 = l.split()[0] if l.split() else ''
        # `@lost`: the implementation left the script here (an operation that was really cancelled, a start that failed):
        # the directory-accounting component of the driver stops answering `fcounts` for this scenario
        if (c0 == 'cancel' and o.startswith('cancelled')) or \
                (c0 in ('restart', 'open', 'dmgsweep', 'flipsweep', 'toolsweep') and o.startswith(('err ', 'panic', 'crash')) and o != 'err AlreadyOpen'):
            return annotate0(l, o) + ' @lost'
        return annotate0(l, o)

    def annotate0(l, o):
        if l.startswith('cfg ') and 'bloom=' in l:
            b = [t for t in l.split() if t.startswith('bloom=')][0][6:]
            if b not in ('off', '0') and b.count(',') == 2:
                return l + f' @bits={bloom_bits(b)}'
        if o.split(' polls=')[0].endswith(' switched'):      # (`cancel k w …` that completed reports `ok switched polls=n`)
            return l + ' @switched'
        if l.startswith(('bloom new', 'bloom2 new')) and o.startswith('ok bits='):
            return l + ' @bits=' + o[8:]
        if l == 'indexsum' and o.startswith('#indexsum'):
            ms = [':'.join([t.split(':')[0], t.split(':')[2]]) for t in o.split()[1:] if t.count(':') == 3]
            return l + ' @meta=' + ','.join(ms) if ms else l
        return l
    minput = [annotate(l, o) for l, o in zip(flat, impl)]
    rc2, mout = sh([MODEL_BIN], input=('\n'.join(minput) + '\n').encode(), timeout=600)
    model = mout.splitlines()
    if len(model) < len(flat):
        model += ['model-crash'] * (len(flat) - len(model))
    oin = '\n'.join(f'{a} => {b}' for a, b in zip(flat, impl)) + '\n'
    rc3, oout = sh([MODEL_BIN, '--oracle'], input=oin.encode(), timeout=600)
    oracle = oout.splitlines()
    if len(oracle) < len(flat):
        oracle += ['oracle-crash'] * (len(flat) - len(oracle))
    shutil.rmtree(wd, ignore_errors=True)
    res = []
    pos = 0
    for s in scens:
        n = len(script_lines(s))
        res.append({'script': script_lines(s), 'impl': impl[pos:pos + n], 'model': model[pos:pos + n],
                    'oracle': oracle[pos:pos + n], 'crashed': crashed})
        pos += n
    return res


PROTO = re.compile(r'^(ok|maybe|no$|offloaded|raw |true|false|sweep |alive|dead|switched|noswitch|bad-op|err |found |deleted |notfound|n=|list|counts |#|panic |skipped |crash|trace |snap |bits |some |none|val )')


def is_protocol_line(l):
    return bool(PROTO.match(l))


def run_scenarios(scens, timeout=900, chunk=None):
    if not scens:
        return []
    chunk = chunk or max(1, (len(scens) + JOBS - 1) // JOBS)
    chunks = [scens[i:i + chunk] for i in range(0, len(scens), chunk)]
    results = [None] * len(chunks)
    with cf.ThreadPoolExecutor(max_workers=JOBS) as ex:
        futs = {ex.submit(run_chunk, i, c, timeout): i for i, c in enumerate(chunks)}
        for fu in cf.as_completed(futs):
            results[futs[fu]] = fu.result()
    out = []
    for i, r in enumerate(results):
        if any(x['crashed'] for x in r) and len(chunks[i]) > 1:
            # isolate: rerun every scenario of a crashed chunk on its own
            with cf.ThreadPoolExecutor(max_workers=JOBS) as ex:
                single = list(ex.map(lambda a: run_chunk(10_000 + i * 1000 + a[0], [a[1]], timeout)[0],
                                     enumerate(chunks[i])))
            out += single
        else:
            out += r
    return out


def kill_run(idx, rng_seed, tier):
    """C06 process-kill mode: a child harness process executes a script and acknowledges every step on its stdout;
    it is killed with SIGKILL after a random delay; the directory it left behind is then opened by a second harness
    process that checks every acknowledged write (tools/gen.kill_script: one key per write)"""
    import gen
    import signal
    rng = random.Random(rng_seed)
    script = gen.kill_script(rng, tier)
    d = os.path.join(scratch_dir(), f'kill{idx}')
    shutil.rmtree(d, ignore_errors=True)
    os.makedirs(d)
    sp = os.path.join(d, 'script.txt')
    open(sp, 'w').write('\n'.join(script) + '\n')
    e = dict(os.environ)
    e.update({'RUST_LOG': 'off'})
    p = subprocess.Popen([HARNESS_BIN, 'run', sp, '--dir', d, '--keep'], stdout=subprocess.PIPE, stderr=subprocess.DEVNULL, env=e)
    delay = rng.choice([0.004, 0.01, 0.02, 0.04, 0.08, 0.15, 0.3]) * rng.uniform(0.5, 1.5)
    time.sleep(delay)
    try:
        p.send_signal(signal.SIGKILL)
    except ProcessLookupError:
        pass
    out = p.stdout.read().decode('utf-8', 'replace')
    p.wait()
    lines = out.split('\n')
    acked = lines[:-1] if not out.endswith('\n') else [l for l in lines if l != '']
    if not out.endswith('\n') and lines:
        acked = lines[:-1]
    wd = [x for x in os.listdir(d) if x.startswith('pearl-verif-')]
    ackfile = os.path.join(d, 'acks.txt')
    n_ack = 0
    with open(ackfile, 'w') as fh:
        for l, o in zip(script, acked):
            t = l.split()
            if t[0] == 'w' and o.startswith('ok'):
                fh.write(f'{t[1]} {t[4]} {t[5] if int(t[4]) > 0 else 0}\n')
                n_ack += 1
    if not wd:
        return {'script': [script[0], 'killcheck (child was killed before the directory was created)'], 'impl': ['ok', 'sweep ok n=0 q=0 e8=0'],
                'model': ['ok', 'sweep ok'], 'oracle': ['ok', 'skip'], 'crashed': False, 'acked': 0, 'killed_after_s': delay}
    vs = [script[0] + f' from={os.path.join(d, wd[0])}', 'nomodel', 'states', f'killcheck {ackfile}', 'states', 'alive']
    vp = os.path.join(d, 'verify.txt')
    open(vp, 'w').write('\n'.join(vs) + '\n')
    impl, errtail = [], ''
    for attempt in range(2):
        # a second attempt tells a reproducible start-up failure on this directory from a hiccup of the host
        try:
            pr = subprocess.run([HARNESS_BIN, 'run', vp, '--dir', os.path.join(d, f'v{attempt}')], stdout=subprocess.PIPE,
                                stderr=subprocess.PIPE, timeout=300, env=e)
            impl = pr.stdout.decode('utf-8', 'replace').splitlines()
            errtail = f'rc={pr.returncode} ' + ' '.join(pr.stderr.decode('utf-8', 'replace').split())[-300:]
        except subprocess.TimeoutExpired:
            impl = []
            errtail = 'timeout'
        if impl:
            break
    if len(impl) < len(vs):
        listing = []
        try:
            wdp = os.path.join(d, wd[0])
            listing = [(f, os.path.getsize(os.path.join(wdp, f))) for f in sorted(os.listdir(wdp))]
        except OSError:
            pass
        impl += [f'crash {errtail} files={listing}'] * (len(vs) - len(impl))
    shutil.rmtree(d, ignore_errors=True)
    return {'script': vs, 'impl': impl[:len(vs)], 'model': ['ok'] * len(vs), 'oracle': ['skip'] * len(vs), 'crashed': False, 'no_rerun': True,
            'acked': n_ack, 'killed_after_s': round(delay, 4), 'steps_acked': len(acked), 'steps_total': len(script)}


# ------------------------------------------------------------------------------------------------
# judging

def cmd_of(line):
    return line.split()[0]


class Finding:
    def __init__(self, kind, scen, line_no, detail):
        self.kind = kind          # 'violation' | 'model-disagreement' | 'aux-disagreement'
        self.scen = scen
        self.line_no = line_no
        self.detail = detail


def judge(res, pdef):
    """classify one scenario result for a property definition"""
    findings = []
    nomodel = False
    disagreed = False
    dump_in_flight = False
    disk_unreliable = False
    for i, (cmd, impl, model, orc) in enumerate(zip(res['script'], res['impl'], res['model'], res['oracle'])):
        c = cmd_of(cmd)
        if c in ('nomodel', 'fault'):
            nomodel = True        # injected damage / faults: only the oracles judge from here on
            continue
        if 'dmg=' in cmd:
            nomodel = True
        if c == 'conc':
            nomodel = True         # the schedule decides the outcome: the harness checks it against the recorded history
        if c == 'cancel':
            if impl.startswith('cancelled'):
                nomodel = True     # the future was really dropped: the Spec oracle accepts "entirely or not at all"
            else:
                impl = impl.split(' polls=')[0]
        is_p = c in pdef['p_cmds']
        orc_applies = c in pdef.get('oracle_cmds', ())
        pyor = pdef.get('py_oracle')
        verdict = None
        if pyor:
            pv = pyor(res, i)
            if pv == 'OK':
                continue          # the property's own oracle accepts this line outright
            if pv:
                findings.append(Finding('violation', res, i, pv))
                break
        race2 = any(l.startswith(('race2', 'closerace')) for l in res['script'])      # stalled racers: the Spec oracle follows them
        if (orc_applies or (race2 and c in ('r', 'ram', 'states', 'race2', 'closerace'))) and orc.startswith('MISMATCH') \
                and not (nomodel and pdef.get('no_oracle_after_nomodel') and not race2) \
                and not any(l.startswith('conc ') for l in res['script'][:i + 1]):
            # (after a `conc` run the Spec oracle has not seen the clients' operations: the run is judged by its own history
            # check, the counters by the property's oracle)
            verdict = orc
            if nomodel and pdef.get('tolerate_err_after_damage') and impl.startswith(('err ', 'list')) and 'err ' in impl:
                verdict = None     # after injected damage a read may fail; it must not return wrong data
        if impl.startswith('panic') or impl.startswith('crash') or impl.startswith('skipped') or impl == 'err StepTimeout':
            if pdef.get('crash_is_violation', True):
                findings.append(Finding('violation', res, i, f'implementation {impl}'))
                break
        if verdict:
            findings.append(Finding('violation', res, i, verdict))
            break
        if c in ('dmgsweep', 'crashsweep', 'metasweep', 'offfault', 'flipsweep', 'faultsweep', 'cancelsweep', 'toolsweep', 'conc', 'killcheck') and impl.startswith('sweep ok'):
            impl = 'sweep ok'      # the count of damaged copies is reported, not compared
        # index-file sizes depend on whether a background dump (started by a close / rotation / explicit request) ran
        # before or after a later delete or write reached the same blob: once such a race was possible (no quiescent
        # point in between) the byte counts of `fcounts` are not compared any more in this scenario
        if c in ('close_active', 'close_active_bg', 'force', 'free') or (c == 'w' and impl.endswith('switched')):
            dump_in_flight = True
        elif c in ('quiesce', 'settle', 'fcounts', 'trace', 'fstates', 'dirty'):
            dump_in_flight = False
        elif c in ('d', 'w', 'restore_active', 'restore_active_bg', 'restart', 'open', 'close', 'dmgsweep', 'flipsweep', 'toolsweep') and dump_in_flight:
            disk_unreliable = True
        if c == 'fcounts':
            # the one command that stays comparable after `nomodel`: the driver answers it from the proved accounting
            # model (Acct) stepped in lock-step; `fcounts ?` / `disk=?` = the model could not follow (skipped)
            if impl.startswith('fcounts ') and model.startswith('fcounts ') and model != 'fcounts ?' and not disagreed:
                fi = dict(t.split('=', 1) for t in impl.split()[1:] if '=' in t)
                fm = dict(t.split('=', 1) for t in model.split()[1:] if '=' in t)
                diff = [k for k, v in fm.items() if v != '?' and fi.get(k) != v
                        and not (disk_unreliable and k in ('disk', 'dirsum'))]
                if diff:
                    disagreed = True
                    findings.append(Finding('model-disagreement' if is_p else 'aux-disagreement', res, i,
                                            f'fcounts fields {diff}: impl=[{impl}] model=[{model}]'))
            continue
        impl_only = c in pdef.get('impl_only_cmds', ()) or (c in pdef.get('impl_only_if_ct', ()) and ' rt=ct' in res['script'][0])
        if impl != model and not nomodel and not impl_only and not disagreed:
            # remember the first disagreement, but keep looking: the oracle may confirm a violation a few
            # lines later (e.g. at the `states` probe that follows a delete)
            disagreed = True
            if is_p:
                findings.append(Finding('model-disagreement', res, i, f'impl=[{impl}] model=[{model}] oracle=[{orc}]'))
            else:
                findings.append(Finding('aux-disagreement', res, i, f'impl=[{impl}] model=[{model}]'))
    return findings


def shrink(scen, pdef, still_fails, budget=60):
    """delta debugging over script units (an operation together with the `states` probe that follows it;
    the cfg line and its probe stay)"""
    lines = script_lines(scen)
    head = [lines[0]]
    rest = lines[1:]
    if rest and rest[0] == 'states':
        head.append('states')
        rest = rest[1:]
    body = []
    for l in rest:
        if l == 'states' and body:
            body[-1].append(l)
        else:
            body.append([l])

    def flat(units):
        return head + [l for u in units for l in u]
    n = 2
    tries = 0
    t_end = time.time() + (45 if len(lines) < 3000 else 20)
    while len(body) >= 2 and tries < budget and time.time() < t_end:
        sz = max(1, len(body) // n)
        removed = False
        for start in range(0, len(body), sz):
            cand = body[:start] + body[start + sz:]
            tries += 1
            if cand and still_fails(flat(cand)):
                body = cand
                n = max(n - 1, 2)
                removed = True
                break
            if tries >= budget:
                break
        if not removed:
            if sz == 1:
                break
            n = min(n * 2, len(body))
    return flat(body)


def write_replay(prop, finding, extra=None):
    os.makedirs(os.path.join(ROOT, 'replays'), exist_ok=True)
    body = {'property': prop, 'kind': finding.kind, 'detail': finding.detail,
            'line': finding.line_no, 'script': finding.scen['script'],
            'impl': finding.scen['impl'], 'model': finding.scen['model'], 'oracle': finding.scen['oracle']}
    if extra:
        body.update(extra)
    h = hashlib.sha1(json.dumps(body['script']).encode()).hexdigest()[:10]
    path = os.path.join(ROOT, 'replays', f'{prop}-{h}.json')
    with open(path, 'w') as fh:
        json.dump(body, fh, indent=1)
    return path


def load_known():
    p = os.path.join(ROOT, 'known_findings.json')
    if not os.path.exists(p):
        return []
    return json.load(open(p)).get('findings', [])


def known_match(prop, finding, known):
    """a known finding matches when its property is the same and every regex of `match` is found in the
    corresponding field (script text / detail) of the shrunk failing scenario"""
    text = '\n'.join(finding.scen['script'])
    for k in known:
        if k.get('property') != prop or k.get('status') != 'known':
            continue
        m = k.get('match', {})
        ok = True
        if 'detail' in m and not re.search(m['detail'], finding.detail):
            ok = False
        if 'predicate' in m:
            import props
            fn = props.KNOWN_PREDICATES.get(m['predicate'])
            if fn is None or not fn(finding):
                ok = False
        for pat in m.get('script', []):
            if not re.search(pat, text, re.M):
                ok = False
        for pat in m.get('script_absent', []):
            if re.search(pat, text, re.M):
                ok = False
        if ok:
            return k
    return None


# ------------------------------------------------------------------------------------------------

def main():
    import props
    ap = argparse.ArgumentParser()
    ap.add_argument('prop')
    ap.add_argument('--tier', default=os.environ.get('VERIF_TIER', 'quick'))
    ap.add_argument('--replay')
    ap.add_argument('--no-proofs', action='store_true')
    ap.add_argument('--count', type=int)
    args = ap.parse_args()
    prop = args.prop
    tier = args.tier if args.tier in ('quick', 'thorough') else 'quick'
    seed = int(os.environ.get('VERIF_SEED', '1'))
    t0 = time.time()
    pdef = props.PROPS[prop]
    known = load_known()
    out_lines = []
    violations = []   # (finding, replay path, suffix)
    known_hits = []
    broken = []       # names of obligations / correspondences that no longer check

    try:
        # 1. translator + proofs
        ok_gen, gen_log = regenerate_gen()
        if not ok_gen:
            broken.append('translator: tools/rs2lean.py could not extract from /repo/src: ' + gen_log[-400:])
        ok_lean, lean_log, have_props = build_lean(prop)
        theorems = props_theorems(prop) if have_props else []
        aud = {'ok': True, 'theorems': {}, 'forbidden': [], 'modules': []}
        if not ok_lean:
            broken.append('lake build Pearl.Props.%s failed: %s' % (prop, last_error(lean_log)))
        elif have_props and not args.no_proofs:
            aud = audit(prop)
            if not aud['ok']:
                broken.append('axiom audit failed: ' + json.dumps({k: v for k, v in aud.items() if k in ('forbidden',)})
                              + ' ' + json.dumps({k: v for k, v in aud['theorems'].items()
                                                  if v is None or not set(v) <= ALLOWED_AXIOMS}))
            if tier == 'thorough':
                bad = leanchecker(prop)
                if bad:
                    broken.append('leanchecker rejected: ' + ', '.join(m for m, _ in bad))
        discharged = sum(1 for n in theorems if aud['theorems'].get(n) is not None and
                         set(aud['theorems'][n]) <= ALLOWED_AXIOMS) if ok_lean else 0

        # 2. harness
        ok_h, hlog = build_harness()
        if not ok_h:
            broken.append('harness does not build against /repo: ' + last_error(hlog))

        stats = {'evaluations': 0, 'steps': 0, 'nontrivial': set(), 'ops': {}, 'keylen': {}, 'features': {},
                 'p_lines': 0, 'model_disagreements': 0, 'aux_disagreements': 0, 'oracle_mismatches': 0}
        samples = []

        def run_and_judge(scens):
            results = run_scenarios(scens, timeout=pdef.get('timeout', 900))
            fs = []
            for r in results:
                stats['evaluations'] += 1
                stats['steps'] += len(r['script'])
                for o in r['impl']:
                    m = re.match(r'sweep ok n=(\d+)', o)
                    if m:
                        stats['sweep_cases'] = stats.get('sweep_cases', 0) + int(m.group(1))
                for l in r['script']:
                    c = cmd_of(l)
                    stats['ops'][c] = stats['ops'].get(c, 0) + 1
                    if c in pdef['p_cmds']:
                        stats['p_lines'] += 1
                for feat in pdef['features'](r['script']):
                    stats['features'][feat] = stats['features'].get(feat, 0) + 1
                if pdef['nontrivial'](r['script']):
                    stats['nontrivial'].add(hashlib.sha1('\n'.join(r['script']).encode()).hexdigest())
                fs += judge(r, pdef)
            return results, fs

        if args.replay:
            body = json.load(open(args.replay))
            scens = [body['script']] if 'script' in body else []
            results, fs = run_and_judge(scens) if (ok_h and scens) else ([], [])
            for f in fs:
                print(f'{f.kind}: line {f.line_no}: {f.scen["script"][f.line_no]}: {f.detail}')
            if fs and any(f.kind == 'violation' for f in fs):
                print(f'VIOLATION property={prop} replay={args.replay}')
                return 1
            print('replay: no violation reproduced' if scens else 'replay: file names a broken obligation, nothing to run')
            return 0

        findings = []
        if ok_h and os.path.exists(MODEL_BIN):
            rng = random.Random(seed * 1000003 + (1 if tier == 'thorough' else 0))
            corpus = props.load_corpus(prop)
            n = args.count or pdef['count'][tier]
            if 'scenarios' in pdef:
                scens = corpus + pdef['scenarios'](tier, rng)
            else:
                scens = corpus + [pdef['gen'](rng, tier) for _ in range(n)]
            samples = [s for s in scens[len(corpus):len(corpus) + 2]]
            results, findings = run_and_judge(scens)
            if pdef.get('kill_runs'):
                nk = pdef['kill_runs'][tier]
                with cf.ThreadPoolExecutor(max_workers=JOBS) as ex:
                    kres = list(ex.map(lambda i: kill_run(i, seed * 7001 + i, tier), range(nk)))
                stats['kill_runs'] = nk
                stats['kill_acked_writes'] = sum(r.get('acked', 0) for r in kres)
                stats['kill_mid_script'] = sum(1 for r in kres if 0 < r.get('steps_acked', 0) < r.get('steps_total', 0))
                for r in kres:
                    stats['evaluations'] += 1
                    stats['steps'] += len(r['script'])
                    if r.get('acked', 0) > 0:
                        stats['nontrivial'].add('kill:' + str(r.get('killed_after_s')) + ':' + str(r.get('acked')))
                    findings += judge(r, pdef)
        elif not os.path.exists(MODEL_BIN):
            broken.append('model driver did not build')

        # 3. verdicts
        seen_sigs = set()
        for f in findings:
            if f.kind == 'violation':
                stats['oracle_mismatches'] += 1
            elif f.kind == 'model-disagreement':
                stats['model_disagreements'] += 1
            else:
                stats['aux_disagreements'] += 1
        shrink_deadline = time.time() + (90 if tier == 'quick' else 240)
        # findings already recognised as listed ones do not use up the slots for minimisation and reporting
        viol = [x for x in findings if x.kind == 'violation']
        listed = [x for x in viol if known_match(prop, x, known)]
        fresh = [x for x in viol if not known_match(prop, x, known)]
        for f in listed[:4] + fresh[:8]:
            def still(lines, f=f):
                # (a candidate of an implementation that crashes or hangs must not cost more than a minute)
                r = run_scenarios([lines], timeout=60)[0]
                return any(x.kind == 'violation' and sig_of(x) == sig_of(f) for x in judge(r, pdef))
            if known_match(prop, f, known):
                f2 = f            # already recognised as a listed finding: no need to minimise it again
            elif f.scen.get('no_rerun') or any('pause:' in l for l in f.scen['script']):
                # a SIGKILL run (the directory the child left behind is unique), or a scenario with stalled file
                # operations: a candidate that lost its `release` line would wait out every time-out
                f2 = f
            elif time.time() < shrink_deadline:
                small = shrink(f.scen['script'], pdef, still)
                r = run_scenarios([small])[0]
                fs2 = [x for x in judge(r, pdef) if x.kind == 'violation']
                f2 = fs2[0] if fs2 else f
            else:
                f2 = f            # shrinking budget used up: report the scenario as generated
            k = known_match(prop, f2, known)
            sig = (k['id'] if k else None, sig_of(f2))
            if k:
                if k['id'] not in [h['id'] for h in known_hits]:
                    known_hits.append(k)
                continue
            if sig in seen_sigs:
                continue
            seen_sigs.add(sig)
            path = write_replay(prop, f2)
            violations.append((f2, path, ''))
        disagreements = [x for x in findings if x.kind != 'violation']
        if disagreements:
            d0 = disagreements[0]
            broken.append(f'correspondence model≠implementation ({d0.kind}) at `{d0.scen["script"][d0.line_no]}`: {d0.detail}')
        if broken and not violations:
            # property no longer shown to hold: search for a failing input with the oracle only
            found = None
            if ok_h and os.path.exists(MODEL_BIN):
                found = search(prop, pdef, seed, tier, known)
            if found:
                f2, path = found
                violations.append((f2, path, ''))
            else:
                os.makedirs(os.path.join(ROOT, 'replays'), exist_ok=True)
                path = os.path.join(ROOT, 'replays', f'{prop}-broken-obligation.json')
                body = {'property': prop, 'broken': broken}
                if disagreements:
                    d0 = disagreements[0]
                    body.update({'script': d0.scen['script'], 'impl': d0.scen['impl'], 'model': d0.scen['model'],
                                 'line': d0.line_no})
                json.dump(body, open(path, 'w'), indent=1)
                violations.append((None, path, ' no-failing-input-found'))

        for k in known_hits:
            print(f'KNOWN-FINDING: property={prop} {k["what"]}')
        for f, path, suffix in violations:
            if f is not None:
                print(f'# {f.detail} at `{f.scen["script"][f.line_no]}`')
            else:
                for b in broken:
                    print('# broken: ' + b[:600])
            print(f'VIOLATION property={prop} replay={os.path.relpath(path, ROOT)}{suffix}')

        # 4. evidence
        wall = time.time() - t0
        ev = {
            'property_id': prop, 'tier': tier, 'seed': seed, 'level': 'proof',
            'coverage': {
                'obligations': max(len(theorems), 1),
                'discharged': discharged if theorems else (1 if ok_lean else 0),
                'obligation_names': theorems or ['(model builds; property theorems not yet stated for this id)'],
                'axioms': aud['theorems'],
                'checker_cmd': 'python3 tools/rs2lean.py --repo /repo --out lean/Pearl/Gen && cd lean && lake build pearl-model ' + ' '.join(prop_modules(prop)) + ' && lake env lean <#print axioms of every theorem of these modules>'
                               + (' && lake env leanchecker <modules>' if tier == 'thorough' else ''),
                'trusted_base': TRUSTED_BASE,
                'modules_audited': aud['modules'],
                'evaluations': stats['evaluations'],
                'distinct_nontrivial': len(stats['nontrivial']),
                'rule': pdef['rule'],
                'samples': samples or [['(no scenarios run)']],
                'steps': stats['steps'],
                'p_observations_compared': stats['p_lines'],
                'op_distribution': stats['ops'],
                'features_hit': stats['features'],
                'model_vs_impl_disagreements': stats['model_disagreements'],
                'aux_disagreements': stats['aux_disagreements'],
                'impl_vs_oracle_failures': stats['oracle_mismatches'],
                'kill_runs': stats.get('kill_runs', 0),
                'kill_acknowledged_writes_checked': stats.get('kill_acked_writes', 0),
                'kill_runs_killed_mid_script': stats.get('kill_mid_script', 0),
                'sweep_cases': stats.get('sweep_cases', 0),
                'broken_obligations': broken,
                'known_findings_reproduced': [k['id'] for k in known_hits],
                'traces_validated_against_impl': stats['evaluations'],
            },
            'assumptions': pdef.get('assumptions', []),
            'wall_s': round(wall, 2),
            'violations': len(violations),
        }
        os.makedirs(os.path.join(ROOT, 'evidence'), exist_ok=True)
        json.dump(ev, open(os.path.join(ROOT, 'evidence', f'{prop}.json'), 'w'), indent=1)
        print(f'{prop} {tier}: {len(theorems)} theorems ({discharged} discharged), {stats["evaluations"]} scenarios, '
              f'{len(stats["nontrivial"])} non-trivial, {stats["steps"]} steps, {len(violations)} violations, '
              f'{len(known_hits)} known findings, {wall:.1f}s')
        return 1 if violations else 0
    finally:
        shutil.rmtree(scratch_dir(), ignore_errors=True)


def sig_of(f):
    d = f.detail
    d = re.sub(r'expected=\[.*', '', d)
    d = re.sub(r'\d+', 'N', d)
    return (cmd_of(f.scen['script'][f.line_no]), d[:60])


def last_error(log):
    lines = [l for l in log.splitlines() if 'error' in l.lower()]
    return ' | '.join(lines[:3])[:600] if lines else log[-300:]


def search(prop, pdef, seed, tier, known):
    """the property is no longer shown to hold: look for a concrete failing input using the implementation and
    the Spec-level oracle only (model outputs are ignored)"""
    budget = 60 if tier == 'quick' else 300
    t0 = time.time()
    rng = random.Random(seed * 7919 + 17)
    rnd = 0
    while time.time() - t0 < budget:
        scens = (pdef['scenarios']('thorough', rng) if 'scenarios' in pdef else [pdef['gen'](rng, 'thorough') for _ in range(JOBS * 4)])
        results = run_scenarios(scens, timeout=pdef.get('timeout', 900))
        for r in results:
            for f in judge(r, pdef):
                if f.kind == 'violation' and not known_match(prop, f, known):
                    def still(lines, f=f):
                        rr = run_scenarios([lines])[0]
                        return any(x.kind == 'violation' and sig_of(x) == sig_of(f) for x in judge(rr, pdef))
                    small = shrink(f.scen['script'], pdef, still)
                    rr = run_scenarios([small])[0]
                    fs2 = [x for x in judge(rr, pdef) if x.kind == 'violation']
                    f2 = fs2[0] if fs2 else f
                    return f2, write_replay(prop, f2, {'found_by': 'search after broken obligation'})
        rnd += 1
    return None


if __name__ == '__main__':
    sys.exit(main())
