#!/bin/sh
# usage: confirm_cfg.sh <worktree> <n> : like confirm_seed.sh, but the demonstration is built with --cfg pearl_verif
W="$1"; N="$2"
cd "$W" || exit 2
export TMPDIR="$W/tmp"; mkdir -p "$TMPDIR"
git checkout -q -- src
rm -f tests/demo_*.rs
git apply --ignore-whitespace "out/$N/patch.diff" || { echo "APPLY-FAIL"; exit 1; }
S=$(cargo test --offline 2>&1 | grep "test result" | tr '\n' ' ')
echo "suite-with-mutant: $S"
cp "out/$N/demo_$N.rs" tests/
D1=$(RUSTFLAGS="--cfg pearl_verif" CARGO_TARGET_DIR="$W/target_verif" cargo test --offline --test "demo_$N" 2>&1 | grep "test result" | tr '\n' ' ')
echo "demo-with-mutant: $D1"
git checkout -q -- src
D2=$(RUSTFLAGS="--cfg pearl_verif" CARGO_TARGET_DIR="$W/target_verif" cargo test --offline --test "demo_$N" 2>&1 | grep "test result" | tr '\n' ' ')
echo "demo-without: $D2"
rm -f tests/demo_*.rs
