"""Scenario generators.  Every random choice comes from one `random.Random(seed)`; a scenario is a list of
script lines (DESIGN appendix B) whose first line is the `cfg` line."""
import random

KEYLENS = [1, 4, 8, 33, 128]
TS_POOL = [0, 3, 5, 5, 7, 9, 9, 11]   # 0: the smallest timestamp is a value like any other
METAS_W = ['-', '-', 'e', 'm:01', 'm:02ff']
METAS_Q = ['e', 'm:01', 'm:02ff', 'm:77']
DLENS = [0, 1, 7, 10, 100, 300]


def mk_keys(rng, klen, n):
    keys = set()
    base = [rng.randrange(256) for _ in range(klen)]
    while len(keys) < n:
        k = list(base)
        # vary the last byte mostly, sometimes the first (shared prefixes / distant keys)
        k[-1] = rng.randrange(256)
        if klen > 1 and rng.random() < 0.3:
            k[0] = rng.randrange(256)
        keys.add(bytes(k).hex())
    return sorted(keys)


def absent_keys(rng, klen, keys):
    out = []
    while len(out) < 2:
        k = bytes(rng.randrange(256) for _ in range(klen)).hex()
        if k not in keys and k not in out:
            out.append(k)
    return out


def cfg_line(rng, **over):
    c = dict(key=rng.choice(KEYLENS), dup=rng.choice([0, 1, 1]), group=rng.choice([2, 3, 8]),
             bloom=rng.choice(['off', 'off', '100,2,1000', '50,3,127', '10,1,64']),
             rt=rng.choice(['mt', 'mt', 'ct']), validate=rng.choice([0, 0, 1]))
    c.update(over)
    return c, 'cfg ' + ' '.join(f'{k}={v}' for k, v in c.items())


def queries(kind, keys, absent):
    q = []
    if kind in ('c01', 'all'):
        for k in keys + absent:
            q += [f'r {k}', f'c {k}']
    if kind in ('c02', 'all'):
        for k in keys + absent[:1]:
            q += [f'ram {k}', f'ra {k}']
            for m in METAS_Q:
                q.append(f'rw {k} {m}')
    if kind in ('c15', 'all'):
        q += ['counts', 'fcounts']
    return q


def range_prelude(rng, keys, seed):
    """filter-shaped start of a history: the first blob of a filter group holds the middle keys, the next one both
    extremes (a merged-in range wider on both sides); then possibly a third blob"""
    lines = []
    for kk in keys[1:-1]:
        lines += [f'w {kk} {rng.choice(TS_POOL)} - 3 {seed}', 'states']
        seed += 1
    lines += [rng.choice(['close_active', 'force always']), 'states']
    for kk in (keys[0], keys[-1]):
        lines += [f'w {kk} {rng.choice(TS_POOL)} - 3 {seed}', 'states']
        seed += 1
    lines += [rng.choice(['close_active', 'force always']), 'states']
    return lines, seed


def offload_grow_prelude(rng, keys, seed):
    """a closed blob in a filter group, buffers off-loaded at a group level, then more blobs closed into the group"""
    lines = [f'w {keys[0]} {rng.choice(TS_POOL)} - 3 {seed}', 'states', rng.choice(['close_active', 'force always']), 'states']
    seed += 1
    if rng.random() < 0.5:
        lines += [f'w {keys[-1]} {rng.choice(TS_POOL)} - 3 {seed}', 'states', 'force always', 'states']
        seed += 1
    lines += [f'offload 100000000 {rng.choice([1, 1, 2])}', 'states']
    for kk in (keys[1 % len(keys)], keys[-1], keys[0])[:rng.choice([2, 3])]:
        lines += [f'w {kk} {rng.choice([3, 5])} - 3 {seed}', 'states', 'force always', 'states']
        seed += 1
    return lines, seed


def kv_scenario(rng, kind='all', n_ops=None, size='quick', **over):
    """history of writes/deletes/blob switches/settles/restarts with queries after every step"""
    c, line = cfg_line(rng, **over)
    klen = c['key']
    nkeys = rng.randint(1, 4) if size == 'quick' else rng.randint(2, 6)
    keys = mk_keys(rng, klen, nkeys)
    absent = absent_keys(rng, klen, keys)
    n_ops = n_ops or (rng.randint(4, 14) if size == 'quick' else rng.randint(8, 40))
    lines = [line, 'states']
    seed = 1
    if len(keys) >= 3 and rng.random() < 0.3:
        pre, seed = range_prelude(rng, keys, seed)
        lines += pre + queries(kind, keys, absent)
    y = rng.random()
    if y < 0.12:
        # a marker whose timestamp lies between two puts that live in other (closed) blobs: the newer blob answers
        # Deleted while an older one still holds a newer record
        k0 = keys[0]
        lines += [f'w {k0} 10 - 3 {seed}', 'states', rng.choice(['close_active', 'force always']), 'states',
                  f'w {k0} {rng.choice([0, 1, 3])} - 3 {seed + 1}', 'states']
        if rng.random() < 0.5:
            lines += [rng.choice(['close_active', 'force always']), 'states']
        lines += [f'd {k0} {rng.choice([5, 7])} - {rng.choice([0, 1])}', 'states', rng.choice(['close_active', 'force always', 'settle']), 'states']
        seed += 2
        lines += queries(kind, keys, absent)
    elif y < 0.18 and kind in ('c02', 'all') and c['dup'] == 1:
        # more than 20 versions of one key with tied timestamps spread over several blobs (the cross-blob order relies
        # on a stable sort), then a tying marker followed by further tying puts
        k0 = keys[0]
        n0, n1 = rng.randint(11, 14), rng.randint(11, 14)
        hi, mid, lo = rng.choice([(9, 7, 3), (11, 5, 0), (7, 5, 3)])
        for i in range(n0):
            lines += [f'w {k0} {hi if i % 2 == 0 else mid} - {rng.choice([0, 3])} {seed % 250 + 1}', 'states']
            seed += 1
        lines += [rng.choice(['close_active', 'force always']), 'states']
        for i in range(n1):
            lines += [f'w {k0} {mid if i % 2 == 0 else lo} - {rng.choice([0, 3])} {seed % 250 + 1}', 'states']
            seed += 1
        lines += queries(kind, keys[:1], absent[:1])
        if rng.random() < 0.5:
            lines += [rng.choice(['close_active', 'force always']), 'states']
        lines += [f'd {k0} {mid} - 0', 'states']
        for i in range(rng.randint(4, 8)):
            lines += [f'w {k0} {mid} - 3 {seed % 250 + 1}', 'states']
            seed += 1
        lines += queries(kind, keys[:1], absent[:1])
    p_switch = rng.choice([0.1, 0.25, 0.5])
    p_del = rng.choice([0.0, 0.15, 0.4])
    hot = rng.choice(keys)
    for _ in range(n_ops):
        x = rng.random()
        if x < p_switch:
            y = rng.random()
            if y < 0.35:
                lines.append('close_active')
            elif y < 0.6:
                lines.append('create_active')
            elif y < 0.8:
                lines.append('restore_active')
            elif y < 0.92:
                lines.append('settle')
            else:
                lines.append(rng.choice(['restart', 'restart', 'restart lazy']))
                if rng.random() < 0.3:
                    # bloom buffers released right after a start: the filters of blobs whose index came from its
                    # file are then read from that file at the offset recorded while the file was loaded
                    lines += ['states', f'offload {rng.choice([1, 100000000])} {rng.choice([0, 0, 1])}']
        else:
            k = hot if rng.random() < 0.5 else rng.choice(keys)
            ts = rng.choice(TS_POOL)
            if rng.random() < p_del:
                m = rng.choice(['-', '-', 'e', 'm:01'])
                lines.append(f'd {k} {ts} {m} {rng.choice([0, 1, 1])}')
            else:
                m = rng.choice(METAS_W)
                ln = rng.choice(DLENS)
                lines.append(f'w {k} {ts} {m} {ln} {seed % 250 + 1}')
                seed += 1
        lines.append('states')
        lines += queries(kind, keys, absent)
    return lines


def acct_scenario(rng, size='quick', **over):
    """C15: counters against the directory after every step of a kv history, and across quarantines: a blob file is
    damaged between two sessions (with and without `ignore_corrupted`), then the storage goes on"""
    y0 = rng.random()
    if y0 < 0.06:
        c, line = cfg_line(rng, dup=1, rt='mt', **over)
        return first_op_race_scenario(rng, line, mk_keys(rng, c['key'], 2))
    if y0 < 0.7:
        return kv_scenario(rng, 'c15', size=size, **over)
    c, line = cfg_line(rng, dup=1, ignore=rng.choice([0, 0, 1]), **over)
    keys = mk_keys(rng, c['key'], 3)
    lines = [line, 'states', 'counts', 'fcounts']
    seed = 1
    if rng.random() < 0.3:
        # the newest blob is quarantined in one session, every remaining blob in the next one: the storage starts
        # from an empty work directory next to a corrupted directory that holds the largest id
        nb = rng.choice([2, 3])
        for b in range(nb):
            lines += [f'w {rng.choice(keys)} {rng.choice(TS_POOL)} - {rng.choice([10, 300])} {seed}', 'states']
            seed += 1
            if b < nb - 1:
                lines += ['force always', 'states']
        kinds = ['magic', 'hflip:0', 'cut:30']
        lines += ['counts', 'fcounts', 'nomodel', f'restart bdmg={nb - 1}:{rng.choice(kinds)}', 'states', 'counts', 'fcounts']
        lines += ['restart bdmg=' + ','.join(f'{b}:{rng.choice(kinds)}' for b in range(nb - 1)) + rng.choice(['', ' lazy']),
                  'states', 'counts', 'fcounts']
        for _ in range(2):
            lines += [f'w {rng.choice(keys)} {rng.choice(TS_POOL)} - 10 {seed}', 'states', 'counts', 'fcounts']
            seed += 1
        lines += ['force always', 'states', 'counts', 'fcounts', 'restart', 'states', 'counts', 'fcounts']
        return lines
    if rng.random() < 0.15:
        # an index file whose stored hash does not match (its header is valid): the load into memory that a delete into
        # that closed blob needs must fall back to regenerating the index from the blob
        kk = keys[0]
        for b in range(2):
            lines += [f'w {kk} {rng.choice([3, 5])} - 10 {seed}', 'states', f'w {keys[1]} 5 - 10 {seed + 1}', 'states', 'close_active', 'states']
            seed += 2
        lines += ['settle', 'counts', 'fcounts', 'nomodel', f'restart idmg={rng.choice([0, 1])}:hash' + rng.choice(['', ' lazy']), 'states',
                  f'd {kk} 9 - 1', 'states', 'counts', 'fcounts', f'w {kk} 11 - 10 {seed}', 'states', 'settle', 'counts', 'fcounts',
                  'restart', 'states', 'counts', 'fcounts']
        return lines
    nblobs = 1
    damaged = False
    for _ in range(rng.randint(6, 14) if size == 'quick' else rng.randint(10, 30)):
        x = rng.random()
        if x < 0.5:
            lines.append(f'w {rng.choice(keys)} {rng.choice(TS_POOL)} {rng.choice(METAS_W)} {rng.choice([0, 10, 300, 5000])} {seed % 250 + 1}')
            seed += 1
        elif x < 0.6:
            lines.append(f'd {rng.choice(keys)} {rng.choice(TS_POOL)} - {rng.choice([0, 1])}')
        elif x < 0.8:
            op = rng.choice(['close_active', 'create_active', 'restore_active', 'force always', 'force always', 'settle'])
            if op in ('create_active', 'force always'):
                nblobs += 1
            lines.append(op)
        elif x < 0.88:
            lines.append(rng.choice(['restart', 'restart lazy']))
        else:
            if not damaged:
                lines.append('nomodel')
                damaged = True
            b = rng.randrange(0, max(1, nblobs))
            kind = rng.choice(['magic', 'hflip:0', 'hflip:1', f'cut:{rng.choice([1, 5, 30])}', 'dflip:0'])
            lines.append(f'restart bdmg={b}:{kind}')
        lines += ['states', 'counts', 'fcounts']
    lines += ['settle', 'fcounts', 'restart', 'states', 'counts', 'fcounts']
    return lines


def tie_depth_scenario(rng, kind='c01', size='quick', **over):
    """C01/C02: a timestamp tie between two closed blobs with on-disk indexes of very different depth, on the
    current-thread runtime (every index read is a blocking task there, so the shallow look-up of the OLDER blob
    finishes first): the newer blob must still win the tie"""
    klen = rng.choice([503, 1000])
    c, line = cfg_line(rng, key=klen, dup=1, rt='ct', bloom=rng.choice(['off', '100,2,1000']), **over)
    ts = rng.choice(TS_POOL)
    base = rng.randrange(1, 50)
    k = nat_key(klen, base + 2 * rng.randrange(0, 40))
    lines = [line, 'states', f'w {k} {ts} - 3 1', 'states', 'close_active', 'states']
    seed = 2
    fillers = [nat_key(klen, base + 2 * i + 1) for i in range(rng.choice([30, 60]))]
    for f in fillers:
        lines += [f'w {f} {rng.choice(TS_POOL)} - 0 {seed % 250 + 1}', 'states']
        seed += 1
    lines += [f'w {k} {ts} - 3 {seed % 250 + 1}', 'states', 'close_active', 'states', 'settle', 'res']
    q = [f'r {k}', f'c {k}'] if kind == 'c01' else [f'ram {k}', f'ra {k}']
    lines += q * 4
    lines += ['restart', 'states'] + q * 2
    return lines


def nontrivial_kv(lines):
    """some key has >= 2 versions in >= 2 blobs, with a timestamp tie or a marker that is not the newest"""
    per_key = {}
    blob = 0
    for l in lines:
        t = l.split()
        if t[0] in ('close_active', 'create_active', 'restore_active', 'restart'):
            blob += 1
        elif t[0] in ('w', 'd'):
            per_key.setdefault(t[1], []).append((blob, int(t[2]), t[0] == 'd'))
    for k, v in per_key.items():
        if len(v) >= 2 and len({b for b, _, _ in v}) >= 2:
            tss = [ts for _, ts, _ in v]
            tie = len(set(tss)) < len(tss)
            marker_not_newest = any(d and ts < max(tss) for _, ts, d in v)
            if tie or marker_not_newest:
                return True
    return False


LIFECYCLE = ['close_active', 'create_active', 'restore_active', 'close_active_bg', 'create_active_bg',
             'restore_active_bg', 'force always', 'force never', 'force nonempty', 'force ge3', 'free',
             'offload 100000000 0', 'offload 100000000 1', 'offload 100000000 2', 'fsync', 'settle', 'settle']


def maint_scenario(rng, size='quick', **over):
    """C04: data operations interleaved with every lifecycle / maintenance operation in every active-blob
    state; all queries after every step"""
    c, line = cfg_line(rng, dup=rng.choice([0, 1, 1]), **over)
    klen = c['key']
    keys = mk_keys(rng, klen, rng.randint(2, 4))
    absent = absent_keys(rng, klen, keys)
    n_ops = rng.randint(6, 14) if size == 'quick' else rng.randint(10, 36)
    lines = [line, 'states']
    seed = 1
    y = rng.random()
    if y > 0.9:
        # a second restore after the hole left by the first one: close, restore, close, wait for the dump, restore, write
        lines += [f'w {keys[0]} 5 - 3 {seed}', 'states', 'close_active', 'states', 'restore_active', 'states',
                  f'w {keys[1]} 5 - 3 {seed + 1}', 'states', 'close_active', 'states', rng.choice(['settle', 'quiesce']), 'states',
                  'restore_active', 'states', f'w {keys[0]} 7 - 3 {seed + 2}', 'states']
        seed += 3
        lines += queries('all', keys, absent)
    if y < 0.2:
        pre, seed = offload_grow_prelude(rng, keys, seed)
        lines += pre + queries('all', keys, absent)
    elif y < 0.35 and len(keys) >= 3:
        pre, seed = range_prelude(rng, keys, seed)
        lines += pre + queries('all', keys, absent)
    for _ in range(n_ops):
        x = rng.random()
        if x < 0.5:
            op = rng.choice(LIFECYCLE)
            lines.append(op)
            lines.append('states')
            if op == 'settle':
                lines.append('res')
        elif x < 0.55:
            lines += [rng.choice(['restart', 'restart lazy']), 'states']
        else:
            k = rng.choice(keys)
            ts = rng.choice(TS_POOL)
            if rng.random() < 0.25:
                lines.append(f'd {k} {ts} {rng.choice(["-", "e", "m:01"])} {rng.choice([0, 1])}')
            else:
                lines.append(f'w {k} {ts} {rng.choice(METAS_W)} {rng.choice(DLENS)} {seed % 250 + 1}')
                seed += 1
            lines.append('states')
        lines += queries('all', keys, absent)
        lines.append('alive')
    return lines


BG_CALLS = ['close_active_bg', 'create_active_bg', 'restore_active_bg', 'force always', 'force never',
            'force nonempty', 'close_active', 'create_active', 'restore_active', 'free', 'force panic']


def worker_scenario(rng, size='quick', **over):
    """C13: arbitrary public calls (all *_in_background variants in every active-blob state, force updates,
    data ops), then an overflow of the active blob past the debounce interval, then close"""
    maxdata = rng.choice([2, 3, 5])
    c, line = cfg_line(rng, dup=1, maxdata=maxdata, dirty=rng.choice([33554432, 33554432, 100, 0]), **over)
    klen = c['key']
    keys = mk_keys(rng, klen, 3)
    lines = [line, 'states']
    seed = 1
    if c['dirty'] <= 100 and rng.random() < 0.4:
        # a write over the dirty-byte limit requests the background sync; by the time the request is served the active blob
        # has been closed by hand (or the storage is being closed): the sync task must still finish, and `close` return
        shape = rng.choice(['close', 'close_active'])
        lines += ['nomodel', f'w {keys[0]} 5 - 2000 1 @nodrain', 'states']
        if shape == 'close_active':
            lines += ['close_active', 'states', 'alive']
        lines += ['close', 'open', 'states', f'r {keys[0]}', 'alive']
        seed += 1
    n_calls = rng.randint(2, 8) if size == 'quick' else rng.randint(4, 20)
    for _ in range(n_calls):
        if rng.random() < 0.7:
            lines += [rng.choice(BG_CALLS), 'states', 'alive']
        else:
            k = rng.choice(keys)
            if rng.random() < 0.2:
                lines += [f'd {k} {rng.choice(TS_POOL)} - {rng.choice([0, 1])}', 'states']
            else:
                lines += [f'w {k} {rng.choice(TS_POOL)} - 5 {seed}', 'states']
                seed += 1
    y = rng.random()
    if y > 0.93:
        # the creation of the next blob fails once while the worker serves a rotation request; once the fault is gone
        # the next writes over the limit must lead to a switch again
        lines = [line, 'states']
        for i in range(maxdata):
            lines += [f'w {rng.choice(keys)} {rng.choice(TS_POOL)} - 5 {i + 1}', 'states']
        lines += ['wait 260', 'nomodel', f'fault create 0 .blob fail:{rng.choice([28, 5])}', f'w {keys[0]} 9 - 5 50', 'states', 'clearfaults',
                  'alive', 'wait 260', f'w {keys[1]} 9 - 5 51', 'states', 'wait 260', f'w {keys[2]} 9 - 5 52', 'states', 'alive',
                  'settle', 'close', 'open', 'states', 'counts']
        return lines
    if y > 0.86:
        # two explicit dump requests separated by idle time: the second one must be served like the first
        # (`defer=100,300`: a request that finds the task of the first pass not yet reported as finished is deferred by
        # that interval, not by the default hour - the waits below cover it either way)
        lines = [line.replace(f'maxdata={maxdata}', 'maxdata=1000000') + ' defer=100,300', 'states', f'w {keys[0]} 5 - 5 1', 'states', 'nomodel', 'close_active', 'states',
                 'wait 1500', 'quiesce', 'res @alldumped', f'wait {rng.choice([300, 600])}', f'w {keys[1]} 5 - 5 2', 'states', 'close_active', 'states',
                 'wait 1500', 'quiesce', 'res @alldumped', 'alive', 'close', 'open', 'states', 'counts']
        return lines
    if y > 0.80:
        # E27 shape: the dump task of the first pass has done all its work but is not finished yet (held at its very
        # end, locks released); the next blob is closed and its dump requested right then: the request is refused by
        # `try_run_old_blob_indexes_dump_task` and must still be carried out (deferred) once the task has ended
        # (multi-thread runtime: the held task occupies a worker thread).  `dumpstat` waits until the worker has
        # served the request, so that the task is really still unfinished when it is served.
        closer = rng.choice(['close_active', 'close_active', 'close_active_bg'])
        lines = [line.replace(f'maxdata={maxdata}', 'maxdata=1000000').replace('rt=ct', 'rt=mt') + ' defer=100,300', 'states',
                 f'w {keys[0]} 5 - 10 1', 'states', 'nomodel', 'fault taskend 0 index_dump_task pause:27', 'close_active', 'states',
                 'quiesce', 'res', f'w {keys[1]} 5 - 10 2', 'states', closer, 'dumpstat', 'states', 'release 27',
                 f'wait {rng.choice([1200, 1500])}', 'quiesce', 'res @alldumped', 'alive', 'close', 'open', 'states', 'counts']
        return lines
    if y < 0.08:
        # the worker is kept busy by a slow predicate while 1024 requests fill its queue to capacity; the writes that
        # take the active blob over its limit happen right then: the rotation must still come (multi-thread runtime:
        # the predicate sleeps on a worker thread)
        lines = [line.replace('rt=ct', 'rt=mt'), 'states']
        for i in range(maxdata - 1):
            lines += [f'w {rng.choice(keys)} {rng.choice(TS_POOL)} - 5 {i + 1}', 'states']
        lines += ['wait 260', 'nomodel', f'force slow:{rng.choice([900, 1300])} @nodrain', 'flood 1024',
                  f'w {keys[0]} 9 - 5 77', 'states', 'quiesce', 'states', 'alive', 'settle', 'close', 'open', 'states', 'counts']
        return lines
    if y < 0.13:
        # E22 shape: the dump task of a deferred dump stalls on the first blob, a second delete (re-registering a
        # deferred dump) lands while it is stalled, the task stalls again on the next blob past the deadline: the
        # re-registered dump must still be carried out without any further request
        lines = [line.replace(f'maxdata={maxdata}', 'maxdata=1000000').replace('rt=ct', 'rt=mt') + ' defer=100,300', 'states']
        ks = keys[:3]
        sd = 1
        for b in range(3):
            for kk in ks:
                lines += [f'w {kk} 5 - 10 {sd}', 'states']
                sd += 1
            lines += ['close_active', 'states']
        lines += ['settle', 'res', 'nomodel', 'fault create 0 .index pause:1', 'fault create 1 .index pause:2',
                  f'd {ks[0]} 9 - 1', 'states', 'res', f'releaselater 1 {rng.choice([450, 500])}', 'wait 150', f'd {ks[1]} 11 - 1',
                  f'wait {rng.choice([300, 400])}', 'release 2', 'quiesce', 'states', 'clearfaults', 'res', 'wait 2500', 'quiesce',
                  'res @alldumped', 'alive', 'close', 'open', 'states', 'counts']
        return lines
    if y < 0.2:
        # a deferred index dump comes due while a dump task is still running (its index file creation is stalled); the
        # next deferred dump must still be carried out
        lines = [line.replace(f'maxdata={maxdata}', 'maxdata=1000000') + ' defer=100,300', 'states']
        k1, k2 = keys[0], keys[1]
        for b in range(2):
            lines += [f'w {k1} {rng.choice([3, 5])} - 10 {2 * b + 1}', 'states', f'w {k2} {rng.choice([3, 5])} - 10 {2 * b + 2}', 'states',
                      'close_active', 'states']
        lines += ['settle', 'res', 'nomodel', f'd {k1} 9 - 1', 'states', 'fault create 0 .index pause:1', 'free @nodrain',
                  f'wait {rng.choice([450, 600])}', 'release 1', 'quiesce', 'clearfaults', 'states',
                  f'd {k2} 11 - 1', 'states', 'wait 2500', 'quiesce', 'res @alldumped', 'alive', 'close', 'open', 'states', 'counts']
        return lines
    if y < 0.32:
        # several closed blobs whose indexes are back in memory (a delete reached them), then ONE dump request while the
        # first index file creation stalls for longer than the pass's time quantum: the request must still dump them all
        kk = keys[0]
        lines = [line.replace(f'maxdata={maxdata}', 'maxdata=1000000'), 'states']
        nb = rng.choice([3, 4])
        for b in range(nb):
            lines += [f'w {kk} {rng.choice([3, 5])} - 10 {b + 1}', 'states', 'close_active', 'states']
        lines += ['settle', 'res', f'd {kk} 9 - 1', 'states', 'res', 'nomodel',
                  'fault create 0 .index pause:1', f'releaselater 1 {rng.choice([300, 450])}', 'free', 'wait 3000', 'quiesce',
                  'clearfaults', 'res @alldumped',
                  'alive', 'settle', 'res', 'close', 'open', 'states', 'counts']
        return lines
    if y < 0.5:
        # requests are still queued when `close` is called (no probe in between): close returns
        pre = [f'w {rng.choice(keys)} {rng.choice(TS_POOL)} - 5 {seed}', 'states']
        calls = rng.choice([['close_active_bg', 'restore_active_bg'], ['close_active_bg', 'create_active_bg'],
                            ['close_active_bg'], ['restore_active_bg', 'close_active_bg', 'restore_active_bg']])
        calls = [x + ' @nodrain' for x in calls]
        lines += pre + calls + ['close', 'open', 'states', 'counts', 'alive']
        lines += [f'w {rng.choice(keys)} {rng.choice(TS_POOL)} - 5 {seed + 1}', 'states'] + calls + ['close', 'open', 'states', 'counts']
        return lines
    # overflow: the active blob is filled beyond its record limit, then a write after the debounce interval
    lines += ['wait 260']
    for _ in range(maxdata + rng.randint(0, 2)):
        lines += [f'w {rng.choice(keys)} {rng.choice(TS_POOL)} - 5 {seed}', 'states']
        seed += 1
    lines += ['wait 260', f'w {keys[0]} 9 - 5 {seed}', 'states', 'alive', 'settle', 'res']
    lines += queries('c15', keys, [])
    lines += ['close', 'open', 'states', 'counts']
    return lines


def restart_scenario(rng, size='quick', **over):
    """C03: a history, then the storage is closed and reopened (eager/lazy) on copies of the directory with every
    index-damage pattern; answers and next id must not change"""
    c, line = cfg_line(rng, **over)
    klen = c['key']
    keys = mk_keys(rng, klen, rng.randint(2, 5))
    absent = absent_keys(rng, klen, keys)
    lines = [line, 'states']
    seed = 1
    if rng.random() < 0.12:
        # more than ten blobs (ids of two digits: `t.10.blob` sorts before `t.2.blob` as a string), one key written with ONE
        # timestamp into every one of them: which blob is newest, and which becomes active, must survive the restart
        for b in range(rng.choice([11, 12, 13])):
            lines += [f'w {keys[0]} 5 - 3 {seed % 250 + 1}', 'states']
            seed += 1
            if rng.random() < 0.3:
                lines += [f'w {rng.choice(keys)} {rng.choice(TS_POOL)} - 3 {seed % 250 + 1}', 'states']
                seed += 1
            lines += [rng.choice(['force always', 'force always', 'close_active']), 'states']
        lines += queries('all', keys, absent)
        lines += [rng.choice(['restart', 'restart', 'restart lazy']), 'states'] + queries('all', keys, absent)
        lines += [f'w {keys[0]} 5 - 3 {seed % 250 + 1}', 'states'] + queries('all', keys[:1], absent[:1])
        seed += 1
    n_ops = rng.randint(6, 16) if size == 'quick' else rng.randint(10, 60)
    for i in range(n_ops):
        x = rng.random()
        if x < 0.2:
            lines += [rng.choice(['close_active', 'create_active', 'restore_active', 'force always', 'settle']), 'states']
        elif x < 0.3:
            lines += [rng.choice(['restart', 'restart lazy']), 'states']
        else:
            k = rng.choice(keys)
            if rng.random() < 0.2:
                lines += [f'd {k} {rng.choice(TS_POOL)} - {rng.choice([0, 1])}', 'states']
            else:
                lines += [f'w {k} {rng.choice(TS_POOL)} {rng.choice(METAS_W)} {rng.choice(DLENS)} {seed % 250 + 1}', 'states']
                seed += 1
        if rng.random() < 0.15 or i == n_ops - 1:
            if rng.random() < 0.5:
                lines += ['settle']
            mode = 'kinds' if (size == 'quick' or rng.random() < 0.8) else f'lens:{rng.choice([1, 7, 13, 29])}'
            lines += [f'dmgsweep {mode}' + (' lazy' if rng.random() < 0.3 else ''), 'states']
            lines += queries('all', keys, absent)
    if rng.random() < 0.25:
        # close and reopen of a storage whose blob file name prefix is not a single dot-free word (a scratch directory next to
        # the live one: write, close, open with and without index files, read everything back)
        lines += [f'metasweep {rng.randrange(1, 10**6)} {rng.choice(["my.store", "a.b.c", "v1.2", "node-7", "x"])}']
    return lines


def meta_extra(m):
    if m in ('-', 'e'):
        return 0
    return 17 + len(m[2:]) // 2


def bytes_scenario(rng, size='quick', **over):
    """C05: values of every size class around the single-pass (4 KiB) and background-I/O (80 KiB) thresholds,
    every metadata shape; blob bytes compared with the L5 model; then stored data bytes are altered on disk"""
    c, line = cfg_line(rng, dup=1, **over)
    klen = c['key']
    keys = mk_keys(rng, klen, rng.randint(2, 4))
    lines = [line, 'states']
    seed = 1
    n = rng.randint(3, 7) if size == 'quick' else rng.randint(5, 14)
    big_budget = 1 if size == 'quick' else 2
    for i in range(n):
        m = rng.choice(METAS_W + ['m:' + 'ab' * rng.choice([1, 30, 200])])
        head = 65 + klen + meta_extra(m)
        classes = [0, 1, 2, 17, 300, 4096 - head - 1, 4096 - head, 4096 - head + 1, 5000,
                   81920 - head - 1, 81920 - head, 81920 - head + 1]
        ln = rng.choice(classes)
        if big_budget > 0 and rng.random() < 0.15:
            ln = rng.choice([200_000, 300_000])
            big_budget -= 1
        k = rng.choice(keys)
        sd = seed % 250 + 1
        if ln >= 8 and rng.random() < 0.2:
            sd = rng.randrange(240, 250)       # payloads whose CRC-32C is 0 (both generators force the last 4 bytes)
        lines += [f'w {k} {rng.choice(TS_POOL)} {m} {ln} {sd}', 'states']
        seed += 1
        if rng.random() < 0.2:
            lines += [f'd {k} {rng.choice(TS_POOL)} {rng.choice(["-", "m:01"])} {rng.choice([0, 1])}', 'states']
        if rng.random() < 0.25:
            lines += [rng.choice(['close_active', 'force always', 'settle', 'restart', 'dmgsweep kinds']), 'states']
        for kk in keys:
            lines += [f'r {kk}', f'ram {kk}']
        lines.append('blobsum')
    lines += ['dmgsweep kinds', 'states']     # every index removed / invalidated: regeneration of the unaltered blobs
    if rng.random() < 0.5:
        # metadata maps the script language cannot express (several attributes, empty values, non-ASCII names)
        lines += [f'metasweep {rng.randrange(1, 10**6)}']
    lines += [f'flipsweep {12 if size == "quick" else 60} {rng.randrange(1, 10**6)}', 'states']
    for kk in keys:
        lines += [f'r {kk}', f'ram {kk}']
    lines.append('blobsum')
    return lines


def sync_scenario(rng, size='quick', **over):
    """C12: every dirty-byte limit; the complete trace of file operations and the file counters after every step"""
    limit = rng.choice([0, 1, 100, 4096, 100000, 33554432])
    c, line = cfg_line(rng, dup=1, dirty=limit, **over)
    klen = c['key']
    keys = mk_keys(rng, klen, 3)
    lines = [line, 'states', 'trace', 'fstates']
    seed = 1
    n = rng.randint(5, 12) if size == 'quick' else rng.randint(10, 40)
    for _ in range(n):
        x = rng.random()
        if x < 0.5:
            ln = rng.choice([0, 10, 10, 300, 5000, 100000])
            lines.append(f'w {rng.choice(keys)} {rng.choice(TS_POOL)} {rng.choice(METAS_W)} {ln} {seed % 250 + 1}')
            seed += 1
        elif x < 0.6:
            lines.append(f'd {rng.choice(keys)} {rng.choice(TS_POOL)} - {rng.choice([0, 1])}')
        elif x < 0.72:
            lines.append('fsync')
        elif x < 0.95:
            lines.append(rng.choice(['close_active', 'create_active', 'restore_active', 'force always', 'settle',
                                     'close_active_bg', 'free']))
        else:
            lines.append(rng.choice(['restart', 'restart lazy']))
        lines += ['states', 'trace', 'fstates']
    lines += ['settle', 'trace', 'fstates', 'close', 'trace', 'open', 'trace', 'fstates']
    return lines


def sync_rotation_scenario(rng, size='quick', **over):
    """C12: the write that passes the dirty-byte limit also fills the blob (rotation by record limit), then further
    writes pass the limit in the new blob; traces are judged by the predicates only (the sync task and the rotation
    run concurrently, their interleaving is not modelled)"""
    maxdata = rng.choice([2, 3, 4])
    limit = rng.choice([100, 2500, 4096, 20000])
    c, line = cfg_line(rng, dup=1, dirty=limit, maxdata=maxdata, **over)
    keys = mk_keys(rng, c['key'], 3)
    lines = [line, 'states', 'nomodel', 'trace', 'fstates', 'wait 260']
    seed = 1
    for r in range(rng.randint(2, 4)):
        for i in range(maxdata):
            big = i == maxdata - 1 or rng.random() < 0.3
            ln = rng.choice([limit + 500, 3000, 30000]) if big else rng.choice([0, 10, 50])
            lines += [f'w {rng.choice(keys)} {rng.choice(TS_POOL)} - {ln} {seed % 250 + 1}', 'states', 'trace', 'fstates']
            seed += 1
        lines += ['wait 260']
    lines += ['settle', 'trace', 'fstates', 'close', 'trace', 'open', 'trace', 'fstates']
    return lines


def sync_stall_scenario(rng, size='quick', **over):
    """C12: a write is acknowledged while the background sync that an earlier write requested is still inside `sync_all`
    (held there by a pause failpoint): once the sync has returned, the bytes of that write must not stay un-synced above
    the limit without any further client action"""
    limit = rng.choice([0, 100, 1000])
    c, line = cfg_line(rng, dup=1, dirty=limit, rt=rng.choice(['mt', 'ct']), **over)
    keys = mk_keys(rng, c['key'], 3)
    lines = [line, 'states', 'trace', 'fstates', f'w {keys[0]} 5 - 10 1', 'states', 'trace', 'fstates', 'nomodel']
    seed = 2
    for rnd in range(rng.choice([1, 2])):
        lines += ['fault sync 0 .blob pause:1', f'releaselater 1 {rng.choice([250, 400])}',
                  f'w {rng.choice(keys)} 5 - {limit + rng.choice([200, 1200])} {seed}', 'states', 'wait 80']
        seed += 1
        for _ in range(rng.choice([1, 2])):
            lines += [f'w {rng.choice(keys)} 7 - {limit + rng.choice([200, 600])} {seed}', 'states']
            seed += 1
        lines += ['wait 700', 'clearfaults', 'states', 'trace', 'fstates']
    lines += ['settle', 'trace', 'fstates', 'close', 'trace', 'open', 'trace', 'fstates']
    return lines


def sync_closerace_scenario(rng, size='quick', **over):
    """C12: a write is acknowledged while `try_close_active_blob` is inside the sync of the active blob: after a successful
    close no un-synced byte of that blob remains (the write belongs to the next blob)"""
    limit = rng.choice([0, 100, 33554432])
    c, line = cfg_line(rng, dup=1, dirty=limit, rt=rng.choice(['mt', 'ct']), **over)
    keys = mk_keys(rng, c['key'], 3)
    lines = [line, 'states', 'trace', 'fstates']
    for i in range(rng.randint(1, 3)):
        lines += [f'w {rng.choice(keys)} 5 - {rng.choice([10, 300, 5000])} {i + 1}', 'states', 'trace', 'fstates']
    lines += ['quiesce', 'nomodel', f'closerace {rng.choice([250, 400])} {rng.choice(keys)} 7 {rng.choice([10, 5000])} 9', 'states', 'trace', 'fstates',
              f'w {rng.choice(keys)} 9 - 10 10', 'states', 'trace', 'fstates', 'settle', 'trace', 'fstates', 'close', 'trace', 'open', 'trace', 'fstates']
    return lines


def sync_fault_scenario(rng, size='quick', **over):
    """C12: a sync of a blob file fails right where an index is about to be written (close of the active blob, dump of
    a closed blob, close of the storage): an index must not be marked complete for bytes that were not synced"""
    limit = rng.choice([0, 100, 33554432])
    c, line = cfg_line(rng, dup=1, dirty=limit, **over)
    keys = mk_keys(rng, c['key'], 3)
    lines = [line, 'states', 'trace', 'fstates']
    seed = 1
    for _ in range(rng.randint(1, 4)):
        lines += [f'w {rng.choice(keys)} {rng.choice(TS_POOL)} {rng.choice(METAS_W)} {rng.choice([0, 10, 300, 5000])} {seed % 250 + 1}',
                  'states', 'trace', 'fstates']
        seed += 1
    if rng.random() < 0.35:
        # the background sync that a write over the limit requests fails; once the fault is gone, the next writes over
        # the limit must be followed by a sync again
        lim = int(c['dirty']) if int(c['dirty']) in (0, 100) else 100
        lines[0] = lines[0].replace(f"dirty={c['dirty']}", f'dirty={lim}')
        lines += ['quiesce', 'nomodel', f'fault sync 0 .blob fail:{rng.choice([5, 28])}' + rng.choice(['', ' sticky']),
                  f'w {rng.choice(keys)} {rng.choice(TS_POOL)} - 3000 {seed % 250 + 1}', 'states', 'trace', 'fstates',
                  'clearfaults']
        seed += 1
        for _ in range(3):
            lines += [f'w {rng.choice(keys)} {rng.choice(TS_POOL)} - {rng.choice([600, 3000])} {seed % 250 + 1}', 'states', 'trace', 'fstates']
            seed += 1
        lines += ['settle', 'trace', 'fstates', 'close', 'trace', 'open', 'trace', 'fstates']
        return lines
    lines += ['quiesce', 'nomodel', f'fault sync {rng.choice([0, 0, 1])} .blob fail:5' + rng.choice(['', ' sticky'])]
    how = rng.choice(['close_active', 'close_active', 'force', 'close'])
    if how == 'close_active':
        lines += ['close_active', 'states', 'settle', 'trace', 'fstates']
    elif how == 'force':
        lines += ['force always', 'states', 'settle', 'trace', 'fstates']
    else:
        lines += ['close', 'trace', 'clearfaults', 'open', 'trace', 'fstates']
    lines += ['clearfaults', 'trace', 'fstates']
    for _ in range(2):
        lines += [f'w {rng.choice(keys)} {rng.choice(TS_POOL)} - 10 {seed % 250 + 1}', 'states', 'trace', 'fstates']
        seed += 1
    lines += ['settle', 'trace', 'fstates', 'close', 'trace', 'open', 'trace', 'fstates']
    return lines


def harm_scenario(rng, size='quick', **over):
    """C07: histories with restarts, quarantines (damaged blob files between sessions) and index damage; byte
    snapshots of every blob file after every step; traces; queries at quiescent points"""
    c, line = cfg_line(rng, dup=1, ignore=rng.choice([0, 0, 1]), **over)
    klen = c['key']
    keys = mk_keys(rng, klen, 3)
    absent = absent_keys(rng, klen, keys)
    lines = [line, 'states', 'snap', 'trace']
    seed = 1
    if rng.random() < 0.15 and c['ignore'] == 0:
        # the newest blob is quarantined in one session, all the others in the next one (the storage then starts from
        # an empty work directory), and finally the blob created after that: nothing quarantined may be replaced
        nb = rng.choice([2, 3])
        for b in range(nb):
            lines += [f'w {rng.choice(keys)} {rng.choice(TS_POOL)} - {rng.choice([10, 300])} {seed}', 'states', 'snap']
            seed += 1
            if b < nb - 1:
                lines += ['force always', 'states', 'snap']
        kinds = ['magic', 'hflip:0', 'cut:30']
        lines += ['nomodel', f'restart bdmg={nb - 1}:{rng.choice(kinds)}', 'states', 'snap', 'trace']
        lines += ['restart bdmg=' + ','.join(f'{b}:{rng.choice(kinds)}' for b in range(nb - 1)), 'states', 'snap', 'trace']
        lines += [f'w {rng.choice(keys)} {rng.choice(TS_POOL)} - 10 {seed}', 'states', 'snap']
        for cand in (nb, nb - 1):
            lines += [f'restart bdmg={cand}:magic', 'states', 'snap', 'trace']
        return lines
    n = rng.randint(6, 14) if size == 'quick' else rng.randint(10, 40)
    nblobs = 1
    damaged = False
    for _ in range(n):
        x = rng.random()
        if x < 0.08:
            # injected I/O failure on a blob write (ENOSPC / short write), then further appends to the same blob
            if not damaged:
                lines.append('nomodel')
                damaged = True
            if rng.random() < 0.4:
                # the header write (or the first sync) of a NEW blob file fails: whatever reached the file stays, its id is
                # used up - also when the next session finds no newer blob and has to create one
                lines += ['close_active', 'states', 'snap',
                          rng.choice(['fault write 0 .blob short:10', 'fault write 0 .blob short:0', 'fault write 0 .blob fail:5',
                                      'fault sync 0 .blob fail:5']),
                          rng.choice(['create_active', f'w {rng.choice(keys)} {rng.choice(TS_POOL)} - 10 {seed % 250 + 1}']), 'states', 'snap',
                          'clearfaults', 'trace', rng.choice(['restart', 'restart lazy']), 'states', 'snap', 'trace',
                          'close_active', 'states', 'create_active', 'states', 'snap', 'trace']
                nblobs += 2
                seed += 1
                continue
            lines.append(f'fault write {rng.choice([0, 0, 1])} .blob {rng.choice(["fail:28", "short:7", "short:60", "short:300"])}')
            for _ in range(3):
                lines += [f'w {rng.choice(keys)} {rng.choice(TS_POOL)} {rng.choice(METAS_W)} {rng.choice([10, 300, 5000])} {seed % 250 + 1}', 'states', 'snap']
                seed += 1
            lines += ['clearfaults', 'trace']
            continue
        if x < 0.45:
            lines.append(f'w {rng.choice(keys)} {rng.choice(TS_POOL)} {rng.choice(METAS_W)} {rng.choice([0, 10, 300, 5000])} {seed % 250 + 1}')
            seed += 1
        elif x < 0.55:
            lines.append(f'd {rng.choice(keys)} {rng.choice(TS_POOL)} - {rng.choice([0, 1])}')
        elif x < 0.8:
            op = rng.choice(['close_active', 'create_active', 'restore_active', 'force always', 'force always', 'settle'])
            if op in ('create_active', 'force always'):
                nblobs += 1
            lines.append(op)
        elif x < 0.9:
            lines.append(rng.choice(['restart', 'restart lazy']))
        else:
            # damage a blob file (and drop its index) between two sessions: quarantine at the next start
            if not damaged:
                lines.append('nomodel')
                damaged = True
            bid = rng.randrange(0, nblobs + 1) if rng.random() < 0.5 else nblobs - 1
            kind = rng.choice(['magic', 'hflip:0', 'hflip:1', f'cut:{rng.choice([1, 5, 30])}', 'dflip:0'])
            lines.append(f'restart bdmg={max(bid, 0)}:{kind}')
        lines += ['states', 'snap']
        if lines[-3].startswith(('restart', 'force', 'create_active')):
            lines.append('trace')
        if rng.random() < 0.3:
            lines += ['settle', 'trace'] + queries('c01', keys, absent[:1]) + [f'ram {keys[0]}', 'counts', 'trace q']
    lines += ['restart', 'states', 'snap', 'trace', 'force always', 'states', 'snap', 'trace',
              f'w {keys[0]} 9 - 10 {seed % 250 + 1}', 'states', 'snap', 'trace']
    return lines


def nat_key(klen, n):
    return n.to_bytes(klen, 'big').hex()


def index_scenario(rng, size='quick', **over):
    """C09: header multisets of systematic shapes written into one blob, dumped to a B+tree index file, queried
    through the file for every present key and for absent keys below / between / above, loaded back"""
    klen = rng.choice([1, 4, 7, 8, 33, 128, 128, 503, 1000, 1000]) if size != 'quick' else rng.choice([1, 4, 7, 33, 128, 503, 1000])
    c, line = cfg_line(rng, key=klen, dup=1, rt='mt', **over)
    rhs = 57 + klen
    per_block = 4096 // rhs
    fan = (4096 - 16) // (klen + 8) + 1
    # number of keys: from a single key up to several tree levels where the key length makes that cheap
    shaped = False
    if klen >= 128 and rng.random() < 0.75:
        # aim at a leaf count around multiples of the fan-out: that is where the two copies of the layer-splitting
        # loop (collect_next_layer_nodes / shift_all_and_write) could disagree; one header per key, so that the
        # number of leaves is ceil(nkeys / per_block)
        if klen >= 500:
            targets = [1, 2, fan - 1, fan, fan + 1, 2 * fan - 1, 2 * fan, 2 * fan + 1, fan * fan - 1, fan * fan,
                       fan * fan + 1, fan * fan + fan, 2 * fan * fan, fan ** 3]
            if klen < 1000:
                targets = targets[:-2]      # 7 headers per leaf: keep the scripts (and the model run) small
        else:
            targets = [fan - 1, fan, fan + 1, 2 * fan] if size != 'quick' else [fan - 1, fan, fan, fan + 1]
        leaves = rng.choice(targets)
        nkeys = max(1, leaves * per_block - rng.choice([0, 0, 1, per_block - 1]))
        shaped = True
    elif klen >= 500:
        nkeys = rng.choice([1, 2, 3, 4, fan, fan + 1, fan * fan + 2, 3 * fan * fan]) if size != 'quick' else rng.choice([1, 3, fan + 1, fan * fan + 2])
    elif klen >= 128:
        nkeys = rng.choice([1, 2, per_block, per_block + 1, fan + 2, 2 * fan * per_block // 3]) if size != 'quick' else rng.choice([1, per_block + 1, fan + 2])
    else:
        nkeys = rng.choice([1, 2, 3, per_block - 1, per_block, per_block + 1, 3 * per_block + 1])
    base = rng.randrange(1, 50)
    nkeys = max(1, min(nkeys, (256 ** klen - base - 9) // 2, 4000))
    stride = 2
    present = [base + stride * i for i in range(nkeys)]
    run_choices = [1, 1, 1, 2, 3]
    if klen < 1000 or size != 'quick':
        run_choices += [per_block - 1, per_block, per_block + 1]
    if size != 'quick' and klen >= 33:
        run_choices += [3 * per_block]
    lines = [line, 'states']
    seed = 1
    order = []
    special = set() if shaped else set(rng.sample(range(nkeys), min(nkeys, 3)))
    for i, k in enumerate(present):
        n = 1 if shaped else (rng.choice(run_choices) if i in special else rng.choice([1, 1, 1, 2]))
        for _ in range(n):
            order.append(k)
    rng.shuffle(order)
    for k in order:
        kh = nat_key(klen, k)
        if rng.random() < 0.08:
            lines.append(f'd {kh} {rng.choice(TS_POOL)} - 0')
        else:
            lines.append(f'w {kh} {rng.choice(TS_POOL)} - {rng.choice([0, 0, 3])} {seed % 250 + 1}')
            seed += 1
        lines.append('states')
    lines += ['close_active', 'states', 'settle', 'res', 'indexsum', 'counts']
    sample = present if len(present) <= 30 else rng.sample(present, 30)
    absent = [base - 1, present[-1] + 1, present[-1] + 7] + [k + 1 for k in (sample[:5])]
    qs = []
    for k in sample + absent:
        if 0 <= k < 256 ** klen:
            kh = nat_key(klen, k)
            qs += [f'c {kh}', f'ram {kh}']
    lines += qs
    # load back: the blob becomes active again (index read from the file), then is extended and dumped again
    lines += ['restart', 'states', 'res'] + qs[:20]
    lines += [f'w {nat_key(klen, present[0])} 9 - 1 {seed % 250 + 1}', 'states', 'close_active', 'states', 'settle', 'indexsum', 'counts'] + qs[:10]
    return lines


def filter_scenario(rng, size='quick', **over):
    """C10: (1) the bloom filter type driven directly (adds, probes, merge, serialized image, file probe, off-load,
    reload; bit counts incl. 0, 64, not multiples of 64; 0..4 hashers) compared bit for bit with the model;
    (2) storage-level: histories with close/restore/delete-in-closed/offload(level)/restart for group sizes 2..9 and
    check_filters / check_filter for every stored key after every step"""
    group = rng.choice([2, 2, 3, 4, 5, 8, 9])
    bloom = rng.choice(['off', '100,2,1000', '50,3,127', '10,1,64', '20,4,65', '1000,2,8388608', '10,0,100', '10,2,0'])
    c, line = cfg_line(rng, dup=1, group=group, bloom=bloom, **over)
    klen = c['key']
    lines = [line, 'states']
    # part 1: direct protocol
    el, k, mb = rng.choice([(100, 2, 1000), (50, 3, 127), (10, 1, 64), (20, 4, 65), (10, 0, 100), (10, 2, 0), (1000, 2, 100000)])
    lines.append(f'bloom new {el} {k} {mb}')
    lines.append(f'bloom2 new {el} {k} {mb}' if rng.random() < 0.7 else f'bloom2 new {el + 1} {k} {mb + 64}')
    added = []
    for _ in range(rng.randint(3, 10) if size == 'quick' else rng.randint(5, 30)):
        kl = rng.choice([1, 4, 8, 9, 16, 17, 33])
        kh = bytes(rng.randrange(256) for _ in range(kl)).hex()
        which = rng.choice(['bloom', 'bloom', 'bloom2'])
        lines.append(f'{which} add {kh}')
        added.append(kh)
        if rng.random() < 0.3:
            lines.append(f'bloom has {rng.choice(added)}')
            lines.append(f'bloom has {bytes(rng.randrange(256) for _ in range(kl)).hex()}')
    lines += ['bloom raw', 'bloom merge', 'bloom raw']
    for kh in added[:6]:
        lines += [f'bloom has {kh}', f'bloom probe {kh}']
    lines += [f'bloom probe {bytes(rng.randrange(256) for _ in range(5)).hex()}', 'bloom offload', f'bloom has {added[0]}',
              f'bloom probe {added[0]}', 'bloom reload', f'bloom has {added[0]}', 'bloom raw']
    # part 2: storage level
    keys = mk_keys(rng, klen, rng.randint(4, 6))
    absent = absent_keys(rng, klen, keys)
    seed = 1
    if rng.random() < 0.4:
        # range shape: the first blob of a group holds the middle keys, the next one the extremes
        mid = keys[1:-1]
        for kk in mid:
            lines += [f'w {kk} {rng.choice(TS_POOL)} - 3 {seed}', 'states']
            seed += 1
        lines += [rng.choice(['close_active', 'force always']), 'quiesce', 'states']
        for kk in (keys[0], keys[-1]):
            lines += [f'w {kk} {rng.choice(TS_POOL)} - 3 {seed}', 'states']
            seed += 1
        lines += [rng.choice(['close_active', 'force always']), 'quiesce', 'states']
        for kk in keys + absent[:1]:
            lines += [f'cf {kk}', f'cfs {kk}', f'gfc {kk}', f'c {kk}']
    if bloom != 'off' and rng.random() < 0.2:
        # the storage is reopened with another number of hashers (same bit count): filters of old and new blobs cannot
        # be merged, a group holding both must answer "maybe" (judged by the no-false-negative oracle only)
        el, k, mb = bloom.split(',')
        k2 = int(k) + rng.choice([1, -1]) if int(k) > 1 else int(k) + 1
        if rng.random() < 0.4:
            # a session WITHOUT bloom filters in between (its index files carry an empty bloom section), then bloom on again
            for kk in keys[:2]:
                lines += [f'w {kk} {rng.choice(TS_POOL)} - 3 {seed}', 'states']
                seed += 1
            lines += [rng.choice(['close_active', 'force always']), 'quiesce', 'states', 'settle', 'nomodel', 'restart bloom=off', 'states']
            for b in range(rng.choice([2, 3])):
                for kk in (keys[2 + b % 2], absent[1]):
                    lines += [f'w {kk} {rng.choice(TS_POOL)} - 3 {seed}', 'states']
                    seed += 1
                lines += ['force always', 'quiesce', 'states']
            lines += ['settle', f'restart bloom={bloom}', 'states']
            for b in range(rng.choice([1, 2])):
                lines += [f'w {keys[-1]} {rng.choice(TS_POOL)} - 3 {seed}', 'states', 'force always', 'quiesce', 'states']
                seed += 1
            for kk in keys + absent:
                lines += [f'cf {kk}', f'cfs {kk}', f'gfc {kk}', f'c {kk}', f'r {kk}']
            return lines
        for kk in keys[:3]:
            lines += [f'w {kk} {rng.choice(TS_POOL)} - 3 {seed}', 'states']
            seed += 1
        lines += [rng.choice(['close_active', 'force always']), 'quiesce', 'states', 'settle', 'nomodel',
                  f'restart bloom={el},{k2},{mb}', 'states']
        for rnd in range(rng.choice([1, 2, 3])):
            for kk in keys[3:] + absent[1:2]:
                lines += [f'w {kk} {rng.choice(TS_POOL)} - 3 {seed}', 'states']
                seed += 1
            lines += [rng.choice(['close_active', 'force always']), 'quiesce', 'states']
            for kk in keys + absent:
                lines += [f'cf {kk}', f'cfs {kk}', f'gfc {kk}', f'c {kk}', f'r {kk}']
        return lines
    n = rng.randint(8, 20) if size == 'quick' else rng.randint(15, 60)
    for _ in range(n):
        x = rng.random()
        if x < 0.4:
            lines.append(f'w {rng.choice(keys)} {rng.choice(TS_POOL)} - {rng.choice([0, 5])} {seed % 250 + 1}')
            seed += 1
        elif x < 0.5:
            lines.append(f'd {rng.choice(keys)} {rng.choice(TS_POOL)} - {rng.choice([0, 1])}')
        elif x < 0.75:
            lines.append(rng.choice(['close_active', 'restore_active', 'create_active', 'force always', 'force always']))
            lines.append('quiesce')     # the index dump it may start has finished: filter answers are deterministic
        elif x < 0.85:
            lines.append('settle')
        elif x < 0.95:
            lines.append(f'offload {rng.choice([1, 1000, 100000000])} {rng.choice([0, 1, 2])}')
        else:
            lines.append(rng.choice(['restart', 'restart lazy']))
        lines.append('states')
        for kk in keys + absent[:1]:
            lines += [f'cf {kk}', f'cfs {kk}', f'gfc {kk}', f'c {kk}']
    # an off-loaded filter whose index file becomes unreadable under the running session (scratch directory)
    lines.append(f'offfault {rng.randrange(1, 10**6)}')
    return lines


def tools_scenario(rng, size='quick', **over):
    """C16: blobs produced by a kv history, then the offline tools over every file and damaged copies"""
    c, line = cfg_line(rng, dup=1, key=rng.choice([4, 8, 33, 128]), rt='mt', **over)
    klen = c['key']
    keys = mk_keys(rng, klen, rng.randint(2, 5))
    lines = [line, 'states']
    seed = 1
    n = rng.randint(5, 12) if size == 'quick' else rng.randint(8, 30)
    for _ in range(n):
        x = rng.random()
        if x < 0.6:
            lines.append(f'w {rng.choice(keys)} {rng.choice(TS_POOL)} {rng.choice(METAS_W)} {rng.choice([0, 1, 10, 300, 5000])} {seed % 250 + 1}')
            seed += 1
        elif x < 0.75:
            lines.append(f'd {rng.choice(keys)} {rng.choice(TS_POOL)} {rng.choice(["-", "m:01"])} {rng.choice([0, 1])}')
        else:
            lines.append(rng.choice(['close_active', 'force always', 'settle', 'restore_active']))
        lines.append('states')
    lines += ['settle', f'toolsweep {24 if size == "quick" else 80} {rng.randrange(1, 10**6)}', 'states']
    for k in keys:
        lines += [f'r {k}', f'ram {k}']
    return lines


def fault_scenario(rng, size='quick', **over):
    """C11: a history; then the n-th file operation of a kind on blob or index files fails (ENOSPC / EIO / short
    write) during a client call or a background dump; queries immediately, after the fault is cleared, after restart"""
    maxdata = rng.choice([1000000, 1000000, 4])
    # (a small dirty-byte limit makes writes request the background sync, which then meets the sync faults)
    c, line = cfg_line(rng, dup=1, maxdata=maxdata, dirty=rng.choice([33554432, 33554432, 33554432, 100, 0]), **over)
    klen = c['key']
    keys = mk_keys(rng, klen, 3)
    absent = absent_keys(rng, klen, keys)
    lines = [line, 'states', 'snap']
    seed = 1

    def data_op():
        nonlocal seed
        if rng.random() < 0.2:
            return f'd {rng.choice(keys)} {rng.choice(TS_POOL)} - {rng.choice([0, 1])}'
        seed += 1
        return f'w {rng.choice(keys)} {rng.choice(TS_POOL)} {rng.choice(METAS_W)} {rng.choice([0, 10, 300, 5000, 90000])} {seed % 250 + 1}'
    for _ in range(rng.randint(2, 6)):
        lines += [data_op(), 'states']
        if rng.random() < 0.3:
            lines += [rng.choice(['close_active', 'force always', 'settle']), 'states']
    lines += ['nomodel']
    # the n-th operation of each kind: every scenario takes one operation shape and walks through (kind, n, file class)
    combos = [(kind, nth, pat) for kind in ('write', 'sync', 'create') for nth in (0, 1, 2) for pat in ('.blob', '.index')]
    rng.shuffle(combos)
    rounds = rng.randint(3, 6) if size == 'quick' else len(combos)
    shape = rng.choice(['w', 'wbig', 'd', 'close_active', 'force always', 'create_active', 'settle', 'restore_active',
                        'fsync', 'mixed', 'mixed'])
    for kind, nth, pat in combos[:rounds]:
        # (short:9 / short:10: the magic of a blob header complete, its version not)
        act = rng.choice(['fail:28', 'fail:5', 'short:0', 'short:7', 'short:9', 'short:10', 'short:60']) if kind == 'write' else rng.choice(['fail:28', 'fail:5'])
        # bring the storage into a state where the operation applies
        if shape in ('close_active', 'force always', 'settle', 'fsync', 'd') or (shape == 'mixed' and rng.random() < 0.5):
            lines += [data_op(), 'states']
        if shape == 'restore_active':
            lines += [data_op(), 'states', 'close_active', 'states']
        if shape == 'create_active':
            lines += ['close_active', 'states']
        if shape == 'settle':
            lines += [rng.choice(['close_active', 'force always']), 'states']
        lines.append(f'fault {kind} {nth} {pat} {act}')
        for _ in range(1 if shape != 'mixed' else rng.randint(1, 3)):
            if shape == 'w':
                op = data_op()
            elif shape == 'wbig':
                seed += 1
                op = f'w {rng.choice(keys)} {rng.choice(TS_POOL)} - {rng.choice([5000, 90000])} {seed % 250 + 1}'
            elif shape == 'd':
                op = f'd {rng.choice(keys)} {rng.choice(TS_POOL)} - {rng.choice([0, 1])}'
            elif shape == 'mixed':
                op = rng.choice([data_op(), data_op(), 'close_active', 'force always', 'create_active', 'settle', 'restore_active', 'fsync'])
            else:
                op = shape
            lines += [op, 'states']
            for k in keys:
                lines += [f'r {k}']
        lines += ['clearfaults', 'states', 'alive']
        for k in keys + absent[:1]:
            lines += [f'r {k}', f'c {k}', f'ram {k}']
        lines += ['wait 260', data_op(), 'states', data_op(), 'states', 'snap']
        if rng.random() < 0.5:
            lines += ['settle', 'states']
        if rng.random() < 0.6:
            lines += ['restart', 'states', 'snap']
            for k in keys:
                lines += [f'r {k}', f'ram {k}']
    lines += ['restart', 'states', 'snap']
    for k in keys:
        lines += [f'r {k}', f'ram {k}']
    lines += ['counts']
    return lines


def crash_scenario(rng, size='quick', **over):
    """C06 (power-loss model): a history under a dirty-byte limit; at random points every crash state that respects
    the sync points is opened in a copy (crashsweep)"""
    limit = rng.choice([0, 100, 4096, 33554432, 33554432])
    c, line = cfg_line(rng, dup=1, dirty=limit, ignore=rng.choice([0, 0, 1]), **over)
    klen = c['key']
    keys = mk_keys(rng, klen, 3)
    lines = [line, 'states']
    seed = 1
    n = rng.randint(4, 10) if size == 'quick' else rng.randint(8, 30)
    for i in range(n):
        x = rng.random()
        if x < 0.6:
            lines.append(f'w {rng.choice(keys)} {rng.choice(TS_POOL)} {rng.choice(METAS_W)} {rng.choice([0, 10, 300, 5000, 90000])} {seed % 250 + 1}')
            seed += 1
        elif x < 0.7:
            lines.append(f'd {rng.choice(keys)} {rng.choice(TS_POOL)} - {rng.choice([0, 1])}')
        elif x < 0.9:
            lines.append(rng.choice(['close_active', 'force always', 'settle', 'create_active', 'restore_active']))
        else:
            lines.append(rng.choice(['restart', 'restart lazy']))
        lines.append('states')
        if rng.random() < 0.25 or i == n - 1:
            lines.append(f'crashsweep {16 if size == "quick" else 80} {rng.randrange(1, 10**6)}')
    return lines


def kill_script(rng, size='quick'):
    """C06 (process-kill model): every write uses its own key, so that 'acknowledged => served' needs no history"""
    limit = rng.choice([0, 4096, 33554432])
    c, line = cfg_line(rng, dup=1, dirty=limit, maxdata=rng.choice([1000000, 5, 9]), rt=rng.choice(['mt', 'ct']))
    klen = c['key']
    lines = [line]
    n = rng.randint(20, 60) if size == 'quick' else rng.randint(40, 200)
    used = set()
    for i in range(n):
        x = rng.random()
        if x < 0.85:
            while True:
                k = bytes(rng.randrange(256) for _ in range(klen)).hex()
                if k not in used and k != 'fe' * klen:
                    used.add(k)
                    break
            ln = rng.choice([0, 10, 300, 5000, 5000, 90000, 90000])
            lines.append(f'w {k} {rng.choice(TS_POOL)} {rng.choice(METAS_W)} {ln} {i % 250 + 1}')
        elif x < 0.95:
            lines.append(rng.choice(['close_active', 'force always', 'create_active', 'close_active_bg']))
        else:
            lines.append('wait 20')
    return lines


def cancel_scenario(rng, size='quick', **over):
    """C14: operation futures are polled k times and dropped; detached blocking closures finish; then queries, further
    operations, and a restart that re-parses every blob file (index files removed).  Timestamps are unique and
    increasing and every cancellation is resolved by a restart before the next one, so that the oracle never has to
    guess which of several dropped operations landed."""
    c, line = cfg_line(rng, dup=1, rt=rng.choice(['ct', 'ct', 'mt']), maxdata=rng.choice([1000000, 1000000, 6]),
                       dirty=rng.choice([0, 100, 33554432, 33554432]), **over)
    klen = c['key']
    keys = mk_keys(rng, klen, 3)
    absent = absent_keys(rng, klen, keys)
    lines = [line, 'states']
    seed = 1
    ts = 10

    def data_op():
        nonlocal seed, ts
        ts += 1
        if rng.random() < 0.25:
            return f'd {rng.choice(keys)} {ts} - {rng.choice([0, 1])}'
        seed += 1
        return f'w {rng.choice(keys)} {ts} {rng.choice(METAS_W)} {rng.choice([0, 10, 300, 5000, 90000])} {seed % 250 + 1}'

    def reads():
        out = []
        for kk in keys + absent[:1]:
            out += [f'r {kk}', f'ram {kk}']
        return out
    for _ in range(rng.randint(2, 6)):
        lines += [data_op(), 'states']
        if rng.random() < 0.3:
            lines += [rng.choice(['close_active', 'force always', 'settle']), 'states']
    rounds = rng.randint(2, 5) if size == 'quick' else rng.randint(4, 14)
    for _ in range(rounds):
        k = rng.choice([1, 1, 2, 2, 3, 4, 5, 7, 10])
        again = False
        op = rng.choice([data_op(), data_op(), data_op(), 'close_active', 'create_active', 'restore_active'])
        if rng.random() < 0.4:
            # the operation has to load the index of a closed blob from its file (an awaited read) first
            ts += 1
            kk = rng.choice(keys)
            lines += [f'w {kk} {ts} - {rng.choice([10, 300])} {seed % 250 + 1}', 'states', 'close_active', 'states', 'settle', 'states']
            ts += 1
            op = rng.choice([f'd {kk} {ts} - 1', f'd {kk} {ts} - 1', 'restore_active'])
            k = rng.choice([1, 2, 2, 3, 3, 4])
            z = rng.random()
            if z < 0.25:
                # the closed blob carries an un-synced deletion marker when its restore is dropped (the restore has to
                # sync it first when the dirty-byte limit is small)
                lines += [f'd {kk} {ts} - 1', 'states']
                ts += 1
                op = 'restore_active'
                k = rng.choice([1, 1, 2, 3])
            elif z < 0.5:
                # the blob's bloom buffer is off-loaded when the delete that has to read its index back is dropped
                lines += [f'offload 100000000 {rng.choice([0, 0, 1])}', 'states']
                op = f'd {kk} {ts} - 1'
            elif z < 0.65:
                # ... or when the restore that has to read its index back is dropped between the two reads (headers,
                # then filters); the restore is then repeated and the blob written to, so that the closing dump has to
                # serialise its filters
                lines += [f'offload 100000000 {rng.choice([0, 0, 1])}', 'states']
                op = 'restore_active'
                k = rng.choice([2, 2, 3])
                again = True
        if rng.random() < 0.15:
            # a write is dropped while its blocking closure is still inside the file write (held there by a `pause`
            # failpoint); the next write starts before that closure has finished
            ts += 1
            seed += 1
            big = rng.choice([10, 300, 5000, 90000])
            lines += ['fault write 0 .blob pause:1', f'cancel p w {rng.choice(keys)} {ts} - {big} {seed % 250 + 1}', 'states']
            for _ in range(rng.choice([1, 2])):
                ts += 1
                seed += 1
                lines += [f'w {rng.choice(keys)} {ts} - {rng.choice([0, 10, 300])} {seed % 250 + 1}', 'states']
            lines += ['release 1', 'clearfaults', 'states'] + reads()
            lines += [rng.choice(['restart noidx', 'restart noidx lazy']), 'states', 'corruptedx'] + reads()
            continue
        if op == 'close_active' and rng.random() < 0.35:
            # the container of closed blobs already has inner levels (more closed blobs than a filter group holds): the
            # insertion of the blob being closed walks up through every ancestor
            for _ in range(c['group'] + rng.choice([0, 1, 2])):
                lines += [data_op(), 'states', 'close_active', 'states']
        if op == 'close_active' and rng.random() < 0.7:
            # a close that has something to close (and, with k >= 3, is dropped while it works on that blob)
            lines += [data_op(), 'states']
            k = rng.choice([1, 2, 3, 3, 4, 5, 7])
        lines += [f'cancel {k} {op}', 'states'] + reads()
        if again:
            lines += ['restore_active', 'states']
        lines += [data_op(), 'states', 'alive']
        if rng.random() < 0.3:
            lines += ['settle', 'states']
        if rng.random() < 0.25:
            # first a start that keeps the index files (finding E20 shows here), then one that re-parses the blobs
            lines += ['restart', 'states'] + reads()
        lines += [rng.choice(['restart noidx', 'restart noidx', 'restart noidx lazy']), 'states', 'corruptedx'] + reads()
    lines += ['restart noidx', 'states', 'corruptedx', 'counts'] + reads()
    return lines


def first_op_race_scenario(rng, line, keys):
    """no active blob (closed by hand, or a lazy start) and several clients whose first operations start at the same
    instant (spinning rendezvous on threads of their own): exactly one of them creates the blob; afterwards ids, files
    and held blobs agree (`fcounts`), also across a restart"""
    lines = [line, 'states', f'w {keys[0]} 5 - 10 1', 'states', 'nomodel']
    for rnd in range(rng.choice([8, 10, 12])):
        lines += [rng.choice(['close_active', 'close_active', 'close_active', 'restart lazy']), 'states',
                  f'conc {rng.choice([4, 8, 8, 12])} {rng.choice([1, 2])} {rng.randrange(1, 10**6)}', 'states', 'fcounts']
    lines += ['alive', 'settle', 'restart', 'states', 'fcounts', 'corruptedx']
    return lines


def conc_scenario(rng, size='quick', **over):
    """C08: N concurrent clients (writes / probes / reads / deletes with unique increasing timestamps) on a fresh and on
    a reopened blob, with rotation by record limit and optionally a maintenance task"""
    maxdata = rng.choice([1000000, 50, 20, 7])
    if rng.random() < 0.12:
        # duplicates disallowed: concurrent writers only (sequentially exactly one record per key is stored)
        c, line = cfg_line(rng, dup=0, maxdata=maxdata, rt=rng.choice(['mt', 'ct']), **over)
        clients = rng.choice([4, 16, 64])
        return [line, 'states', 'nomodel', f'conc {clients} {rng.choice([3, 6])} {rng.randrange(1, 10**6)} writes', 'alive',
                'settle', 'restart noidx', 'corruptedx']
    c, line = cfg_line(rng, dup=1, maxdata=maxdata, rt=rng.choice(['mt', 'mt', 'ct']), dirty=rng.choice([0, 4096, 33554432]), **over)
    klen = c['key']
    keys = mk_keys(rng, klen, 2)
    if rng.random() < 0.15:
        # two writers of one key with one timestamp, the first stalled inside its file write: whichever wins the tie must
        # win it again after the index has been rebuilt from the blob file
        lines = [line.replace(f'maxdata={maxdata}', 'maxdata=1000000'), 'states', f'w {keys[1]} 5 - 10 1', 'states', 'nomodel']
        for rnd in range(rng.choice([1, 2])):
            la, lb = rng.choice([(90000, 10), (10, 10), (5000, 300), (300, 90000)])
            lines += [f'race2 {rng.choice([200, 300])} {keys[0]} {7 + rnd} {la} {2 + 2 * rnd} {lb} {3 + 2 * rnd}', 'states',
                      f'r {keys[0]}', f'ram {keys[0]}']
        lines += ['alive', 'settle', 'restart noidx', 'states', f'r {keys[0]}', f'ram {keys[0]}', 'corruptedx']
        return lines
    if rng.random() < 0.12:
        # the worker is stalled while it creates the blob file of a rotation; meanwhile the client closes the active blob
        # by hand and writes on: afterwards every blob file belongs to a held blob, ids and recency agree, and the answers
        # survive a restart
        md = rng.choice([2, 3])
        lines = [line.replace(f'maxdata={maxdata}', f'maxdata={md}').replace('rt=ct', 'rt=mt'), 'states']
        for i in range(md):
            lines += [f'w {keys[0]} 5 - 5 {i + 1}', 'states']
        lines += ['wait 260', 'nomodel', 'fault create 0 .blob pause:1', f'releaselater 1 {rng.choice([400, 600])}',
                  f'w {keys[1]} 7 - 5 11 @nodrain', 'close_active', f'w {keys[0]} 7 - 5 12 @nodrain', f'w {keys[0]} 7 - 5 13 @nodrain',
                  'wait 900', 'quiesce', 'clearfaults', 'states', 'fcounts', f'r {keys[0]}', f'ram {keys[0]}', 'alive', 'settle',
                  'restart', 'states', 'fcounts', f'r {keys[0]}', f'ram {keys[0]}']
        return lines
    if rng.random() < 0.15:
        return first_op_race_scenario(rng, line.replace(f'maxdata={maxdata}', 'maxdata=1000000').replace('rt=ct', 'rt=mt'), keys)
    lines = [line, 'states']
    for i, k in enumerate(keys):
        lines += [f'w {k} 5 - 10 {i + 1}', 'states']
    lines.append('nomodel')
    clients = rng.choice([2, 4, 8, 16, 64]) if size == 'quick' else rng.choice([2, 8, 32, 128, 500, 2000])
    nops = rng.choice([10, 30]) if clients <= 64 else 4
    lines.append(f'conc {clients} {nops} {rng.randrange(1, 10**6)}' + (' maint' if rng.random() < 0.5 else ''))
    lines += ['alive', 'settle', 'restart', 'wait 260']
    clients2 = rng.choice([2, 8, 32])
    lines.append(f'conc {clients2} {rng.choice([10, 20])} {rng.randrange(1, 10**6)}' + (' maint' if rng.random() < 0.3 else ''))
    lines += ['alive', 'restart noidx', 'corruptedx']
    return lines
