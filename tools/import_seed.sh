#!/bin/sh
# usage: import_seed.sh <ID> <n-in-worktree> <new-n>
ID=$1; N=$2; M=$3; R=${R:-8}; export R
D=/verif/seeded/$ID-$M
mkdir -p $D
cp /tmp/mut${R:-8}_$ID/out/$N/patch.diff $D/patch.diff
cp /tmp/mut${R:-8}_$ID/out/$N/demo_$N.rs $D/demo_$M.rs
python3 - "$ID" "$N" "$D" <<'PY'
import json,sys
import os
ID,N,D=sys.argv[1:]
R=os.environ.get('R','8')
m=json.load(open(f'/tmp/mut{R}_{ID}/out/{N}/meta.json'))
m['round']=int(R)
m['confirmed_by_me']='suite passes with the change (76 tests + doctests), demonstration fails with it and passes without it (tools/confirm_seed.sh in the scratch worktree)'
json.dump(m,open(D+'/meta.json','w'),indent=1,ensure_ascii=False)
PY
echo imported $D
