#!/usr/bin/env python3
"""Regenerates MANIFEST.json from the table below (kept here so that claims, notes and not_applicable stay in sync)."""
import json
import os

ROOT = os.path.dirname(os.path.dirname(os.path.abspath(__file__)))

CLAIMS = {
 "C16": ("Implementation-level sweep over the offline tools for every blob/index produced by random histories (validate_blob, validate_index, read_index accept and report exactly the blob's headers; a v0 image migrates back byte for byte; damaged copies are rejected; recovery with and without skipping validates, keeps every intact record before the damage / after an isolated damaged record, and the recovered blob is served by a storage) on top of the L5 byte theorems of Props/C05.lean (codec round-trips, CRC window, altered_never_served); and the Lean byte model of reader/writer/recovery/migration (Model/Tools.lean) with Props/C16.lean: validate_accepts_produced, validate_rejects_truncated / _flip_data / _flip_header / _flip_magic, recover_prefix, recover_skip, recover_addressable (the output is blobBytes of the surviving records, hence served by the storage with original bytes via load_roundtrip), migrate_preserves, tools_total.",
         "4/C16", "flips of record-header length fields are not generated (bincode would allocate the claimed length and abort the process); skipping past a header with damaged size fields needs resynchronisation and is outside the generated damage",
         "Lean 4 proofs over the byte model + tool sweep on the implementation"),
 "C17": ("Lean 4 theorems: layout_pinned / constants_pinned (every serialized struct layout and format constant extracted from the CURRENT source by the translator equals the snapshot taken from the pinned release), the decode/encode round-trips of the record header, blob header (Props/C05), index file (Props/C09 load_build, bytes_length) and bloom/range images (Props/C10), aHash constants. Tie: a committed corpus of directories written by the pinned release (key sizes 4/8/33/128, bloom on/off, markers, metadata, stale and fresh indexes, a two-level tree): for every directory and several subsets of removed index files the generating history is replayed on the model and the current code, the directory is swapped for the pinned one and every recorded query must answer as recorded; foreign key size / blob version / index version opens are checked against the property's rejection clause.",
         "4/C17", "the corpus was produced by the pinned tree plus the add-only hook commits; index files written by the pinned release are byte-compared only through C09's image check of freshly written files",
         "Lean 4 proof (layouts and constants = pinned snapshot; codec round-trips) + translator + corpus replay"),
 "C01": ("Lean 4 theorems (Props/C01.lean): for every operation history from init and every key, read/contains of the model equal the rank-first record of the Spec (run_read_eq_spec, run_contains_eq_spec, read_notFound_iff, prune_transparent, apply_log); the model is tied to the code by a differential correspondence (real library in-process vs compiled Lean model) with a Spec-level oracle judging the implementation.",
         "4/C01", "L2 theorems with index residence abstracted (C09 ties the on-disk index to the vector) and filters as a sound-pruning parameter (C10); trusted: Lean kernel, Spec, harness + generator, translator",
         "Lean 4 refinement proof (model = Spec over all histories) + model/implementation correspondence"),
 "C02": ("Lean 4 theorems (Props/C02.lean): readAllMarked/readAll/readWith equal the Spec's cut rank list / live list / first meta match for every history; delete_spec (targets and count), dedup_write, write_appends; correspondence with Spec oracle incl. placement of every acknowledged record.",
         "4/C02", "metadata restricted to <=1 entry in scripts (bincode of larger maps is not canonical); trusted: Lean kernel, Spec, harness + generator",
         "Lean 4 refinement proof + correspondence"),
 "C04": ("Lean 4 theorems (Props/C04.lean, in progress: maint_records/maint_answers) on top of the C01/C02 refinement: maintenance operations permute blobs without touching records, so every Spec-determined answer is unchanged; correspondence interleaves every lifecycle/maintenance call (sync and background) with data operations and re-asks all queries after every step; precondition oracle for lifecycle results.",
         "4/C04", "dump timing explored via settle points and the worker's own timing; offload/free/fsync are identity on the L2 state (filters by C10, sync by C12)",
         "Lean 4 proof (answers are a function of the history; maintenance preserves it) + correspondence"),
 "C03": ("Lean 4 theorems (Props/C03.lean, in progress; logical level: restart preserves the record multiset, hence every Spec-determined answer, and sets next id above all ids); correspondence closes the storage and reopens damaged copies of the directory for every index file and every damage pattern of the property (removed, header only, written flag cleared, stale/larger blob_size, truncated at many lengths), eagerly and lazily, comparing all answers and next_blob_id with the values before the close.",
         "4/C03", "byte-level index validation theorems follow with the L4/L5 layer; same-length corruption of an index body is outside the property's damage list",
         "Lean 4 proof (answers are a function of blob contents) + implementation-vs-itself damage sweep + correspondence"),
 "C05": ("Lean 4 theorems (Props/C05.lean, 27): write_path_independent (single/double buffer, every size and threshold), patch_eq_serialize (for any checksum function), header/blob-header parse round-trips, load_roundtrip, crc_window + crc32c_detects_window (any alteration inside 4 adjacent bytes / 32 consecutive bits changes CRC-32C), load_checks, altered_never_served, altered_scan_rejected; the L5 byte model is tied to the code byte-exactly: length and CRC-32C of every blob file vs blobBytes of the model after every step, over all size classes around both thresholds; plus on-disk alteration sweeps read back through the API.",
         "4/C05", "bursts wider than 4 bytes are not generated (theorem covers 32 consecutive bits); metadata bytes are not checksummed by Pearl; u64 wrap-around excluded by InRange hypotheses",
         "Lean 4 proofs over the byte-level model (bincode layout, CRC-32C) + byte-exact correspondence + alteration sweep"),
 "C06": ("Lean 4 theorems (Props/C06.lean, 19 + quarantine table tied to the source by the translator): for every blob image the writer model produces and EVERY cut length, the exact outcome of start-up (scan_prefix: blob-header cut / header-only / record boundary / cut inside a record header / inside meta+data with and without data validation), served_is_prefix (what is served is a prefix of the acknowledged order with original bytes, except possibly the torn tail record), init_total (start-up never fails on any prefix: ok or quarantine), torn_record_unreadable, two_crash_witness (E8). Tie: (i) power-loss model - at quiescent points every blob is cut at every length between its synced size and its size, combined with index variants, each state opened in a copy and judged (served prefix / quarantined intact / other blobs in full / no foreign bytes / post-recovery write survives an index-less restart); (ii) real SIGKILL - a child process acknowledges steps on a pipe and is killed after a random delay; every acknowledged write must be served or restorable by the recovery tool from a quarantined blob.",
         "4/C06", "which prefixes persist after power loss is the file system's contract (all prefixes beyond the last sync are explored); known finding E8 (torn tail accepted; two-crash history loses the post-recovery write)",
         "Lean 4 proof over the byte-level scan model for every cut + crash-state enumeration + SIGKILL runs"),
 "C07": ("Lean 4 theorems (apply_log: records of a blob only grow by appending; ids_never_reused_in_run in Props/C15.lean; L5 blobBytes append lemmas; Props/C07.lean over the event-emitting L6 model is in progress) + implementation-level oracles that do not depend on the model: byte snapshots of every blob file (work and corrupted dirs) after every step incl. restarts and quarantines (earlier content is a prefix or the file moved unchanged; new names carry ids above every id ever seen), tap-trace predicates (no blob write below the end of file, no create of an existing blob name), queries at quiescent points issue no file operation.",
         "4/C07", "injected blob damage is applied by the harness between sessions (the reference snapshot follows it); after the first injected damage the model comparison is off and the Spec oracle follows the implementation probe",
         "Lean 4 invariant proof (append-only log, fresh ids) + byte-snapshot and tap-trace oracles on the implementation"),
 "C08": ("Lean 4 theorems on the labelled transition system of clients / worker / storage RwLock (writer preference) / bounded channel (Props/C08.lean): the deadlock of the pinned protocol at exactly capacity+2 writers (deadlock_witness, constructive, for every capacity; replayed on the real code and repaired), bounded deadlock freedom, rw_exclusion, append_cs_atomic, ranges_disjoint / ranges_disjoint_interleaved / written_bytes_intact (records never overlap for any interleaving); the model of the repaired protocol (send after release) with deadlock freedom for every N is in progress. Tie: 2..2000 concurrent client tasks with stamped invocations/responses on fresh and reopened blobs, with rotation and a maintenance task, both runtimes; every probe/read is checked for freshness and provenance, every acknowledged write must be in a blob file, every blob file must parse to its last byte, the final version lists must equal the sequential outcome, the run must end.",
         "4/C08", "the schedule is whatever tokio and the OS produce; the LTS abstracts the scheduler (FIFO writer preference assumed) and trusts SeqCst atomics",
         "Lean 4 proof over the client/worker/lock/channel LTS + concurrent stress with history checking"),
 "C14": ("Lean 4 segment model (Model/Cancel.lean, Props/C14.lean, 31 theorems): every storage write/delete as a list of atomic segments between the await points of the code, with detached blocking closures; cancel_write_states (the exact set of reachable cancel states), cancel_atomic_write (session view and regenerating-restart view are each 'before' or 'after'; they differ only in the orphan state), orphan_hidden_by_dump (finding E20), no_reserved_gap, parses_after_restart, later_ops_succeed, cancelled_creation_leaves_empty_file (finding E18). Tie: operation futures are polled k times and dropped through the public API (current-thread runtime: every file operation is a suspension point), then reads, further operations and restarts with all index files removed; the Spec oracle accepts 'entirely or not at all, at the latest from the next start'.",
         "4/C14", "dropping a JoinHandle does not cancel a spawn_blocking closure (tokio contract); two known findings (E18 header-less blob file after a cancelled creation, E20 orphan record hidden by a dumped index)",
         "Lean 4 proof over the await-segment model + poll-and-drop harness"),
 "C09": ("Lean 4 theorems (Props/C09.lean, 28): for every non-empty well-formed header map and every key length with fan-out >= 3 (K <= 2032) the index file built by the modelled serializer answers get_latest / find_by_key exactly like the in-memory vectors (ondisk_latest_eq, ondisk_all_eq, ondisk_eq_inmem), count_eq, load_build, plus leaf packing, window binary search, run collection across the buffer/file hand-over, portions, absolute layer offsets and descent (descent_finds_leaf). Tie: the L4 byte image of every index file (hash and filter section masked) is compared with the real file, and every look-up goes through the real file after settle; key lengths {1,4,8,33,128,1000}.",
         "4/C09", "fan-out 2 (K in 2033..4039: debug-build underflow on a key-less node) and rhs > block (K >= 4040: stored keys missed) are outside the property range 1..1000 and recorded as observations with decide-witnesses",
         "Lean 4 proof of the B+tree build/look-up model + byte-exact index-file correspondence"),
 "C10": ("Lean 4 theorems (Props/C10.lean, 31) for an arbitrary hash family: bloom add/mono/merge/zero sizes, file_probe_eq_mem (byte probe of the little-endian image = in-memory bit, any bit count), save/raw/filters round-trips, bloom_offset_correct, range_no_fn/merge_hull, combined_no_fn, the container invariant node_filter_sup preserved by push (all cases), pop, re-push, offload, possible_rev_complete, check_filter_no_fn (= the hypothesis of C01's prune_transparent). Tie: pearl::Bloom is driven directly and every answer, serialized image, merge, file probe, off-load and reload is compared bit for bit with the model running its Lean port of the vendored aHash fallback hasher (pinned vectors reproduced); storage-level check_filters/check_filter are judged by a no-false-negative oracle over histories with offloads, restores and restarts.",
         "4/C10", "bits_count (f64 formula) is an input; the literal stack-machine iterator is tied to the recursive one by #guard tests only (listed NOT YET PROVED); storage-level filter bits are not compared bit-exactly",
         "Lean 4 proofs over filter/container models + bit-exact correspondence on the Bloom type + no-false-negative oracle"),
 "C11": ("Lean 4 fault model (Model/Fault.lean, Props/C11.lean, 34 theorems over arbitrary sequences of write steps with outcomes ok / failed before writing / cut after n bytes / second buffer failed): acked_stay_readable, acked_ranges_disjoint, failed_not_served_in_session, accepts_after_fault, restart_after_faults (start-up never fails; acknowledged records survive in the served or quarantined file), dump_failure_keeps_index, and the exact refutation failed_write_indexed_after_restart (E8) with its _partial. Tie: fault enumeration through the I/O failpoints of the hook (the n-th create/write/sync on blob or index files fails with ENOSPC/EIO or is cut short) in client calls and background dumps, judged by the Spec-level oracle over the implementation's own acknowledgements (an acknowledged record must stay readable in the session and be served or preserved intact in the corrupted directory after restart; a failed operation must never be served later; operations succeed once the fault clears; worker alive; rotation continues) plus byte snapshots; on top of the L5/L6 theorems (Props/C05, C07, C12: what a write puts where, append-only log, sync discipline). The model is not run in lock-step with the implementation while a fault is armed: the Spec oracle judges there.",
         "4/C11", "model comparison is off while a fault is armed; one known finding (E8: a torn tail record with a complete header is accepted by the index-less scan)",
         "fault enumeration with Spec oracle on the implementation, backed by the Lean byte/trace theorems"),
 "C12": ("Tap-trace predicates on the implementation for every dirty-byte limit (header synced before the first record of a new blob; index header with written bit only after a sync of its blob covering blob_size, followed by the index's own sync; no un-synced bytes after explicit fsyncdata or close of the active blob; un-synced bytes <= limit at quiescence); Lean 4 L6 event model and Props/C12.lean theorems over all operation sequences are in progress (trace correspondence).",
         "4/C12", "sync_all durability is the OS's promise; quiescence = worker queue drained and no blocking closure running; the window 'bytes acknowledged while a background sync is in flight' is examined by C08/C14 scenarios",
         "Lean 4 proof over the file-operation trace model + tap-trace predicates on the implementation"),
 "C13": ("Lean 4 worker model (Model/Worker.lean, Props/C13.lean: worker_total, overflow_switches, rotation_continues, dumps_complete, close_terminates over every message sequence; the pre-fix loop is refuted on a concrete witness); the driver executes background calls through the proved processMsgFixed; correspondence drives all *_in_background calls in every active-blob state, then overflows the active blob past the debounce and closes; liveness oracle (worker alive, rotation happened, settle and close return).",
         "4/C13", "wall-clock time abstracted to lower bounds (explicit 260 ms waits > 200 ms debounce); nondeterministic early rotations are taken from the implementation transcript and checked for enabledness",
         "Lean 4 proof over the worker's message loop + correspondence"),
 "C15": ("Lean 4 theorems (Props/C15.lean, in progress) that all counters are functions of the history; correspondence compares records_count, per-blob counts, active count, blobs_count, next_blob_id after every step incl. restarts with an oracle that recomputes them from the implementation's own per-blob probe.",
         "4/C15", "stage 1: record/blob counts and ids; disk_used / corrupted_blobs_count follow with the byte layer",
         "Lean 4 invariant proof + correspondence"),
}

PENDING_REASON = ("not yet claimed: machinery for this property is under construction in this session "
                  "(DESIGN.md staging table); the technique applies")


def main():
    checks = []
    for pid, (text, ref, note, tech) in sorted(CLAIMS.items()):
        checks.append({
            "property_id": pid,
            "quick_cmd": f"./check {pid} --tier quick",
            "thorough_cmd": f"./check {pid} --tier thorough",
            "evidence_file": f"evidence/{pid}.json",
            "replay_cmd_template": f"./check {pid} --replay {{path}}",
            "engine": "lean-proof+correspondence",
            "level_claimed": {"category": "proof", "text": text, "design_ref": "DESIGN.md " + ref},
            "level_note": note,
            "technique": tech,
        })
    na = [{"property_id": f"C{i:02d}", "reason": PENDING_REASON} for i in range(1, 18) if f"C{i:02d}" not in CLAIMS]
    m = {
        "version": 1,
        "setup_cmd": "./setup.sh",
        "hooks": {
            "guard": "pearl_verif",
            "enable": "RUSTFLAGS=--cfg pearl_verif (harness/.cargo/config.toml sets it for the harness build of /repo)",
            "baseline_off_cmd": "cd /repo && cargo test --workspace --no-fail-fast --offline",
            "source_commits": ["cae4c50", "4216739", "c0a1e13"],
            "add_only": True,
        },
        "engines": [{
            "name": "lean-proof+correspondence", "path": "tools/check.py",
            "serves_properties": sorted(CLAIMS),
            "kind_free_text": "Lean 4 theorems over an executable model (lean/Pearl); Rust harness drives the real library in-process (harness/); the compiled Lean driver runs the model and the Spec-level oracle; python orchestrator (tools/check.py)",
        }],
        "checks": checks,
        "not_applicable": na,
        "notes": "fix: commits in /repo: a311110 (C15 E1), 0b3a5fc (C04/C11 E2), 33c2a77 (C13 E3), 2eb3c52 (C03 E4), 1b4c650 (C12 E13), 225d28c (C07/C03 E9), 0ede233 (C12 E14), e937426 (C16 E5), 9bcfef8 (C11 E10), 310988c (C11 E15), 5a4cce7 (C11 E16), 5a608af (C06 E17), eb0e048 (C14 E19), fe5e781 (C08 E7); see known_findings.json and DESIGN.md section 5",
    }
    json.dump(m, open(os.path.join(ROOT, 'MANIFEST.json'), 'w'), indent=1)


if __name__ == '__main__':
    main()
