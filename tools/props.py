"""Registry: per property, its generator, which observation kinds are P-observations, which have an oracle,
the non-triviality rule and feature counters (DESIGN.md section 4)."""
import glob
import os
import gen

ROOT = os.path.dirname(os.path.dirname(os.path.abspath(__file__)))


def load_corpus(prop):
    out = []
    for p in sorted(glob.glob(os.path.join(ROOT, 'corpus', prop, '*.txt'))):
        out.append([l.rstrip('\n') for l in open(p)])
    return out


def kv_features(lines):
    feats = set()
    per_key_blob = {}
    blob = 0
    switches = 0
    for l in lines:
        t = l.split()
        if t[0] == 'cfg':
            for tok in t[1:]:
                if tok.startswith(('key=', 'dup=', 'group=', 'rt=')):
                    feats.add(tok)
                if tok.startswith('bloom='):
                    feats.add('bloom=' + ('off' if tok.endswith('off') else 'on'))
        if t[0] in ('close_active', 'create_active', 'restore_active', 'restart'):
            blob += 1
            switches += 1
            feats.add('op:' + t[0])
        if t[0] == 'settle':
            feats.add('op:settle')
        if t[0] in ('w', 'd'):
            per_key_blob.setdefault((t[1], blob), []).append((int(t[2]), t[0] == 'd'))
            if t[0] == 'd':
                feats.add('delete oip=' + t[4])
            if t[0] == 'w' and t[3] != '-':
                feats.add('write_with meta')
    for (k, b), v in per_key_blob.items():
        if len(v) > 4:
            feats.add('len>4 insertion path (binary search)')
        tss = [x for x, _ in v]
        if len(set(tss)) < len(tss):
            feats.add('timestamp tie inside a blob')
        if any(d for _, d in v) and not v[-1][1]:
            feats.add('marker below a later write in a blob')
    keys = {}
    for (k, b), v in per_key_blob.items():
        keys.setdefault(k, set()).add(b)
    if any(len(bs) >= 3 for bs in keys.values()):
        feats.add('key spread over >=3 blobs')
    if any(len(bs) >= 2 for bs in keys.values()):
        feats.add('key spread over >=2 blobs')
    return feats


RULE_KV = ("random histories (1-6 keys, key length in {1,4,8,33,128}, timestamps from a 7-element pool with "
           "repeats, 0-40% deletes, blob switch probability 0.1-0.5, settle/restart, group size {2,3,8}, bloom "
           "on/off, both runtime flavours) with the property's queries after every step; non-trivial = some key "
           "has >=2 versions in >=2 blobs with a timestamp tie or a marker that is not the newest record")

PROPS = {
    'C01': dict(
        gen=lambda rng, tier: gen.kv_scenario(rng, 'c01', size=tier),
        p_cmds={'r', 'c'}, oracle_cmds={'r', 'c', 'states'},
        count={'quick': 240, 'thorough': 4000},
        nontrivial=gen.nontrivial_kv, features=kv_features, rule=RULE_KV,
        assumptions=['index residence abstracted in the L2 theorems (C09 ties the on-disk index to the vector)',
                     'filter pruning is a parameter of the read theorem (C10 shows real filters meet its hypothesis)'],
    ),
    'C02': dict(
        gen=lambda rng, tier: gen.kv_scenario(rng, 'c02', size=tier),
        p_cmds={'ram', 'ra', 'rw', 'w', 'd'}, oracle_cmds={'ram', 'ra', 'rw', 'states'},
        count={'quick': 200, 'thorough': 3000},
        nontrivial=gen.nontrivial_kv, features=kv_features, rule=RULE_KV,
        assumptions=['metadata restricted to at most one entry (bincode of larger maps is not canonical)'],
    ),
    'C15': dict(
        gen=lambda rng, tier: gen.kv_scenario(rng, 'c15', size=tier),
        p_cmds={'counts'}, oracle_cmds={'counts', 'states'},
        count={'quick': 240, 'thorough': 4000},
        nontrivial=gen.nontrivial_kv, features=kv_features, rule=RULE_KV,
        assumptions=['disk_used and corrupted_blobs_count are checked by the C15 byte-level scenarios once L5 lands'],
    ),
}
