"""Registry: per property, its generator, which observation kinds are P-observations, which have an oracle,
the non-triviality rule and feature counters (DESIGN.md section 4)."""
import glob
import re
import os
import gen

ROOT = os.path.dirname(os.path.dirname(os.path.abspath(__file__)))


def load_corpus(prop):
    out = []
    for p in sorted(glob.glob(os.path.join(ROOT, 'corpus', prop, '*.txt'))):
        cur = None
        for l in open(p):
            l = l.rstrip('\n')
            if not l.strip() or l.strip().startswith('#'):
                continue
            if l.split()[0] == 'cfg':
                cur = []
                out.append(cur)
            if cur is not None:
                cur.append(l)
    return out


def kv_features(lines):
    feats = set()
    per_key_blob = {}
    blob = 0
    switches = 0
    for l in lines:
        t = l.split()
        if t[0] == 'cfg':
            for tok in t[1:]:
                if tok.startswith(('key=', 'dup=', 'group=', 'rt=')):
                    feats.add(tok)
                if tok.startswith('bloom='):
                    feats.add('bloom=' + ('off' if tok.endswith('off') else 'on'))
        if t[0] in ('close_active', 'create_active', 'restore_active', 'restart'):
            blob += 1
            switches += 1
            feats.add('op:' + t[0])
        if t[0] == 'settle':
            feats.add('op:settle')
        if t[0] in ('w', 'd'):
            per_key_blob.setdefault((t[1], blob), []).append((int(t[2]), t[0] == 'd'))
            if t[0] == 'd':
                feats.add('delete oip=' + t[4])
            if t[0] == 'w' and t[3] != '-':
                feats.add('write_with meta')
    for (k, b), v in per_key_blob.items():
        if len(v) > 4:
            feats.add('len>4 insertion path (binary search)')
        tss = [x for x, _ in v]
        if len(set(tss)) < len(tss):
            feats.add('timestamp tie inside a blob')
        if any(d for _, d in v) and not v[-1][1]:
            feats.add('marker below a later write in a blob')
    keys = {}
    for (k, b), v in per_key_blob.items():
        keys.setdefault(k, set()).add(b)
    if any(len(bs) >= 3 for bs in keys.values()):
        feats.add('key spread over >=3 blobs')
    if any(len(bs) >= 2 for bs in keys.values()):
        feats.add('key spread over >=2 blobs')
    return feats


RULE_KV = ("random histories (1-6 keys, key length in {1,4,8,33,128}, timestamps from a 7-element pool with "
           "repeats, 0-40% deletes, blob switch probability 0.1-0.5, settle/restart, group size {2,3,8}, bloom "
           "on/off, both runtime flavours) with the property's queries after every step; non-trivial = some key "
           "has >=2 versions in >=2 blobs with a timestamp tie or a marker that is not the newest record")

PROPS = {
    'C01': dict(
        gen=lambda rng, tier: (gen.tie_depth_scenario if rng.random() < 0.04 else gen.kv_scenario)(rng, 'c01', size=tier),
        p_cmds={'r', 'c'}, oracle_cmds={'r', 'c', 'states'},
        count={'quick': 240, 'thorough': 4000},
        nontrivial=gen.nontrivial_kv, features=kv_features, rule=RULE_KV,
        assumptions=['index residence abstracted in the L2 theorems (C09 ties the on-disk index to the vector)',
                     'filter pruning is a parameter of the read theorem (C10 shows real filters meet its hypothesis)'],
    ),
    'C02': dict(
        gen=lambda rng, tier: gen.kv_scenario(rng, 'c02', size=tier),
        p_cmds={'ram', 'ra', 'rw', 'w', 'd'}, oracle_cmds={'ram', 'ra', 'rw', 'states'},
        count={'quick': 200, 'thorough': 3000},
        nontrivial=gen.nontrivial_kv, features=kv_features, rule=RULE_KV,
        assumptions=['metadata restricted to at most one entry (bincode of larger maps is not canonical)'],
    ),
    'C15': dict(
        gen=lambda rng, tier: gen.acct_scenario(rng, size=tier),
        p_cmds={'counts', 'fcounts'}, oracle_cmds={'counts', 'states'}, py_oracle=lambda res, i: oracle_c15(res, i),
        count={'quick': 240, 'thorough': 4000},
        nontrivial=gen.nontrivial_kv, features=kv_features, rule=RULE_KV,
        assumptions=['`fcounts` compares blobs_count / next_blob_id / corrupted_blobs_count / disk_used with a listing of the '
                     'work directory and of its corrupted sub-directory at quiescent points (implementation only)'],
    ),
}


# ---- python-side oracles for P-observations that are not Spec queries -----------------------------------

def _states_before(res, i):
    for j in range(i - 1, -1, -1):
        if res['impl'][j].startswith('#states'):
            return [t.split(':') for t in res['impl'][j].split()[1:]]
    return None


def oracle_c15(res, i):
    """the counters against the directory listing taken by the harness at the same (quiescent) moment"""
    cmd = res['script'][i].split()
    out = res['impl'][i]
    if cmd[0] != 'fcounts' or not out.startswith('fcounts '):
        return None
    f = dict(t.split('=', 1) for t in out.split()[1:])
    n = {k: (int(v) if v.isdigit() else None) for k, v in f.items()}
    ignore = _cfg(res, 'ignore', '0') == '1'
    if n['blobs'] != n['held']:
        return f"MISMATCH blobs_count {n['blobs']} but the storage holds {n['held']} blobs"
    if n['known'] != n['held']:
        return f"MISMATCH {n['held']} blobs held but {n['known']} of them have a blob file in the work directory"
    if not ignore and n['files'] != n['blobs']:
        return f"MISMATCH blobs_count {n['blobs']} differs from the number of blob files in the work directory {n['files']}"
    if ignore and n['files'] < n['blobs']:
        return f"MISMATCH blobs_count {n['blobs']} exceeds the number of blob files {n['files']}"
    if n['corr'] != n['corrfiles']:
        # (with `ignore_corrupted` an unreadable blob stays in place and is not counted)
        return f"MISMATCH corrupted_blobs_count {n['corr']}: {n['corrfiles']} blob files in the corrupted directory"
    if n.get('both'):
        return (f"MISMATCH {n['both']} blob id(s) of the work directory are also the id of a quarantined blob: an id was "
                "used twice (the next quarantine would replace the quarantined file)")
    want_next = 0 if n['maxfile'] is None else n['maxfile'] + 1
    if n['next'] != want_next:
        return f"MISMATCH next_blob_id {n['next']} but the largest blob id on disk is {f['maxfile']}"
    if n['disk'] != n['dirsum']:
        return (f"MISMATCH disk_used {n['disk']} differs from the sizes of the blob and index files of the held blobs "
                f"{n['dirsum']}")
    return 'OK'


def oracle_c04(res, i):
    """lifecycle/maintenance calls succeed whenever their documented precondition holds; afterwards the storage
    keeps accepting writes and deletes; background maintenance stays alive"""
    cmd = res['script'][i].split()
    if cmd[0] == 'fcounts':
        v = oracle_c15(res, i)
        return None if v == 'OK' else v
    out = res['impl'][i]
    st = _states_before(res, i)
    c = cmd[0]
    if st is None:
        return None
    has_active = any(b[1] == 'a' for b in st)
    n_closed = sum(1 for b in st if b[1] == 'c')
    if c == 'close_active':
        want = 'ok' if has_active else 'err ActiveBlobDoesntExist'
    elif c == 'create_active':
        want = 'ok' if not has_active else 'err ActiveBlobExists'
    elif c == 'restore_active':
        want = 'ok' if (not has_active and n_closed > 0) else ('err ActiveBlobExists' if has_active else 'err Uninitialized')
    elif c in ('close_active_bg', 'create_active_bg', 'restore_active_bg', 'force', 'free', 'offload', 'fsync',
               'settle', 'restart', 'open', 'close'):
        want = 'ok'
    elif c == 'alive':
        want = 'alive'
    elif c == 'w':
        return None if out.startswith('ok') else f'MISMATCH write rejected after maintenance: {out}'
    elif c == 'd':
        return None if out.startswith('n=') else f'MISMATCH delete rejected after maintenance: {out}'
    else:
        return None
    return None if out == want else f'MISMATCH expected=[{want}] got=[{out}]'


def oracle_c13(res, i):
    cmd = res['script'][i].split()
    out = res['impl'][i]
    c = cmd[0]
    if c == 'alive':
        return None if out == 'alive' else 'MISMATCH background worker is dead'
    if c in ('settle', 'close', 'open'):
        return None if out == 'ok' else f'MISMATCH {c}: {out}'
    waited = 0
    for j in range(i - 1, -1, -1):
        t = res['script'][j].split()
        if t[0] == 'wait':
            waited += int(t[1])
        elif t[0] in ('w', 'd', 'free', 'close_active', 'force', 'restart', 'open', 'cfg'):
            break
    if c == 'res' and out.startswith('#res') and '@alldumped' in cmd and waited >= 700:
        # the script has given the requested / deferred dump ample time (an explicit wait well beyond the stall and the
        # deferral interval): every closed blob that holds records has its index on disk
        st = None
        for j in range(i - 1, -1, -1):
            if res['impl'][j].startswith('#states'):
                st = {t.split(':')[0]: t.split(':') for t in res['impl'][j].split()[1:]}
                break
        left = [t.split(':')[0] for t in out.split()[1:] if t.endswith(':m') and st and st.get(t.split(':')[0], ['', 'a', '0'])[1] == 'c'
                and int(st[t.split(':')[0]][2]) > 0]
        if left:
            return f'MISMATCH the requested index dump completed but the index of closed blob(s) {",".join(left)} is still only in memory'
    if c == 'w':
        if not out.startswith('ok'):
            return f'MISMATCH write failed: {out}'
        maxdata = None
        for tok in res['script'][0].split():
            if tok.startswith('maxdata='):
                maxdata = int(tok[8:])
        if maxdata is None:
            return None
        now = 0
        born = {}
        last = None
        for j in range(i):
            t = res['script'][j].split()
            if t[0] == 'wait':
                now += int(t[1])
            if t[0] in ('open', 'restart'):
                born = {}
            if res['impl'][j].startswith('#states'):
                last = [x.split(':') for x in res['impl'][j].split()[1:]]
                for b in last:
                    born.setdefault(b[0], now)
        if not last:
            return None
        act = [b for b in last if b[1] == 'a']
        if not act:
            return None   # the write creates a fresh active blob: age 0
        a = act[0]
        over = int(a[2]) + 1 >= maxdata
        age = now - born.get(a[0], now)
        armed = False
        for j in range(i):
            t = res['script'][j].split()[0]
            armed = True if (t == 'fault' and 'pause:' not in res['script'][j]) else (False if t == 'clearfaults' else armed)
        if over and age >= 250 and 'switched' not in out and not armed:
            return (f'MISMATCH no rotation: active blob {a[0]} holds {int(a[2]) + 1} >= {maxdata} records, '
                    f'is older than the debounce interval, and the write did not lead to a switch')
    return None


def worker_features(lines):
    feats = set()
    for l in lines:
        t = l.split()
        if t[0] in ('close_active_bg', 'create_active_bg', 'restore_active_bg', 'force', 'close_active',
                    'create_active', 'restore_active', 'free', 'offload', 'fsync', 'settle', 'restart', 'close'):
            feats.add('op:' + ' '.join(t[:2]) if t[0] == 'force' else 'op:' + t[0])
        if t[0] == 'cfg':
            for tok in t[1:]:
                if tok.startswith(('maxdata=', 'rt=')):
                    feats.add(tok)
    return feats | kv_features(lines)


def nontrivial_worker(lines):
    """a background request is made in a state where it cannot apply"""
    active = True
    closed = 0
    for l in lines:
        t = l.split()[0]
        if t in ('close_active', 'close_active_bg'):
            if not active:
                return True
            active, closed = False, closed + 1
        elif t in ('create_active', 'create_active_bg'):
            if active:
                return True
            active = True
        elif t in ('restore_active', 'restore_active_bg'):
            if active or closed == 0:
                return True
            active, closed = True, closed - 1
        elif t in ('w',):
            active = True
    return False


PROPS['C04'] = dict(
    gen=lambda rng, tier: gen.maint_scenario(rng, size=tier),
    p_cmds={'r', 'c', 'ram', 'ra', 'rw', 'counts', 'w', 'd', 'close_active', 'create_active', 'restore_active',
            'close_active_bg', 'create_active_bg', 'restore_active_bg', 'force', 'free', 'offload', 'fsync',
            'settle', 'alive', 'restart'},
    oracle_cmds={'r', 'c', 'ram', 'ra', 'rw', 'counts', 'states'}, py_oracle=oracle_c04,
    count={'quick': 160, 'thorough': 2500},
    nontrivial=lambda lines: gen.nontrivial_kv(lines) or nontrivial_worker(lines), features=worker_features,
    rule=("random interleavings of data operations with every lifecycle/maintenance call (sync and background "
          "close/create/restore, force_update with 4 predicates, free_excess_resources, offload_buffer level "
          "0..2, fsyncdata, settle = index dumps complete, restart) and all queries after every step; non-trivial = "
          "the kv rule or a lifecycle call made where its precondition fails"),
    assumptions=['background dump timing is explored through explicit settle points and the worker own timing'],
)

PROPS['C13'] = dict(
    gen=lambda rng, tier: gen.worker_scenario(rng, size=tier),
    p_cmds={'alive', 'w', 'settle', 'close', 'open', 'counts'},
    oracle_cmds={'counts', 'states'}, py_oracle=oracle_c13,
    count={'quick': 96, 'thorough': 800}, timeout=1800,
    nontrivial=nontrivial_worker, features=worker_features,
    rule=("2-20 public calls (all *_in_background variants and their sync forms in every active-blob state, "
          "force_update with 4 predicates, writes, deletes), then the active blob is filled beyond its record limit "
          "(limit 2/3/5) with a write after the 200 ms debounce, then settle, close, reopen; non-trivial = some "
          "lifecycle request is made in a state where it cannot apply"),
    assumptions=['wall-clock time enters only as lower bounds (explicit waits of 260 ms > debounce 200 ms)'],
)


def oracle_c03(res, i):
    cmd = res['script'][i].split()
    out = res['impl'][i]
    if cmd[0] == 'dmgsweep' and not out.startswith('sweep ok'):
        return f'MISMATCH reopen on a damaged index changed behaviour: {out}'
    if cmd[0] == 'metasweep' and not out.startswith('sweep ok'):
        return f'MISMATCH close and reopen (file name prefix {cmd[2] if len(cmd) > 2 else "t"}): {out}'
    if cmd[0] in ('restart', 'open') and out != 'ok':
        return f'MISMATCH {cmd[0]}: {out}'
    return None


def restart_features(lines):
    f = kv_features(lines)
    for l in lines:
        t = l.split()
        if t[0] == 'dmgsweep':
            f.add('dmgsweep ' + t[1].split(':')[0] + (' lazy' if 'lazy' in t else ''))
        if t[0] == 'restart':
            f.add(l)
    return f


PROPS['C03'] = dict(
    gen=lambda rng, tier: gen.restart_scenario(rng, size=tier),
    p_cmds={'r', 'c', 'ram', 'ra', 'rw', 'counts', 'dmgsweep', 'metasweep', 'restart'},
    oracle_cmds={'r', 'c', 'ram', 'ra', 'rw', 'counts', 'states'}, py_oracle=oracle_c03,
    count={'quick': 64, 'thorough': 240}, timeout=2400,
    nontrivial=lambda lines: any(l.startswith('dmgsweep') for l in lines) and len({l.split()[1] for l in lines if l[:2] in ('w ', 'd ')}) >= 2,
    features=restart_features,
    rule=("random histories with blob switches, deletes into closed blobs, settle points and restarts; at random "
          "points the storage is closed and every index file is damaged in a copy of the directory (removed, header "
          "only, written flag cleared, blob_size smaller/larger, truncated by 1/61/half, truncated to 0/82/84 bytes, "
          "thorough: truncated at every 1st/7th/13th length) and reopened eagerly or lazily; all answers and "
          "next_blob_id are compared with the values before the close; non-trivial = a sweep over >=2 keys"),
    assumptions=['same-length corruption of an index body is outside the property damage list'],
)


def oracle_c05(res, i):
    cmd = res['script'][i].split()
    out = res['impl'][i]
    if cmd[0] == 'dmgsweep' and not out.startswith('sweep ok'):
        return f'MISMATCH values do not round-trip once the index is regenerated from the blob: {out}'
    if cmd[0] == 'flipsweep' and not out.startswith('sweep ok'):
        return f'MISMATCH altered data bytes: {out}'
    if cmd[0] == 'metasweep' and not out.startswith('sweep ok'):
        return f'MISMATCH metadata / data do not round-trip: {out}'
    if cmd[0] in ('r', 'ram') and ':?' in out:
        return f'MISMATCH a read returned bytes that were never written: {out}'
    return None


def bytes_features(lines):
    f = set()
    klen = 4
    for l in lines:
        t = l.split()
        if t[0] == 'cfg':
            for tok in t[1:]:
                if tok.startswith('key='):
                    klen = int(tok[4:])
                    f.add(tok)
                if tok.startswith('rt='):
                    f.add(tok)
        if t[0] == 'w':
            ln = int(t[4])
            head = 65 + klen + gen.meta_extra(t[3])
            if ln == 0:
                f.add('data len 0')
            elif head + ln <= 4096:
                f.add('single-pass record' + (' (exact boundary)' if head + ln == 4096 else ''))
            elif head + ln <= 81920:
                f.add('two-buffer record, in-place I/O' + (' (exact boundary)' if head + ln == 81920 else ''))
            else:
                f.add('two-buffer record, background I/O')
            f.add('meta ' + ('none' if t[3] == '-' else 'empty' if t[3] == 'e' else 'one entry'))
        if t[0] == 'flipsweep':
            f.add('flipsweep')
        if t[0] == 'metasweep':
            f.add('metasweep (multi-attribute / non-ASCII metadata)')
    return f


PROPS['C05'] = dict(
    gen=lambda rng, tier: gen.bytes_scenario(rng, size=tier),
    p_cmds={'r', 'ram', 'flipsweep', 'dmgsweep', 'metasweep', 'w'},
    oracle_cmds={'r', 'ram', 'states'}, py_oracle=oracle_c05,
    count={'quick': 48, 'thorough': 400}, timeout=1800,
    nontrivial=lambda lines: len({f for f in bytes_features(lines) if 'record' in f or 'len 0' in f}) >= 2,
    features=bytes_features,
    rule=("3-14 writes per scenario with value lengths from {0,1,2,17,300, single-pass boundary-1/0/+1, 5000, "
          "background-I/O boundary-1/0/+1, 200k, 300k}, metadata none/empty/one entry of 1..200 bytes, key length "
          "{1,4,8,33,128}; after every step reads and the byte image of every blob file (length + CRC-32C) are compared "
          "with the L5 model; then 12 (quick) / 60 (thorough) alterations of stored data bytes (one bit, one byte, "
          "2- and 4-byte bursts; index kept / removed / removed with data validation) are applied to copies and "
          "everything is read back; non-trivial = at least two different record size classes"),
    assumptions=['bursts that straddle more than 4 adjacent bytes are not generated (the theorem covers any 32 consecutive bits)',
                 'metadata bytes are not checksummed by Pearl and the property does not claim them'],
)


# ---- trace predicates (C07, C12): evaluated on the implementation's tap trace, independent of the model ----

def _events_upto(res, i):
    evs = []
    for j in range(i + 1):
        o = res['impl'][j]
        if o.startswith('#trace'):
            for e in o.split()[1:]:
                evs.append((j, e))
    return evs


def _cfg(res, key, dflt=None):
    for tok in res['script'][0].split():
        if tok.startswith(key + '='):
            return tok[len(key) + 1:]
    return dflt


def _prev_op(res, i):
    for j in range(i - 1, -1, -1):
        c = res['script'][j].split()[0]
        if c not in ('states', 'trace', 'fstates', 'snap', 'dirty', 'res', 'nomodel'):
            return j
    return None


def _parse_f(o):
    return [t.split(':') for t in o.split()[1:]]


def trace_violation(evs):
    """(d) header written and synced before any record of a new blob; (e) an index is marked complete only
    after a sync of its blob covering blob_size and is then synced itself; blob writes never go below the end"""
    created = {}       # blob -> stage
    hi = {}            # blob -> highest end written in this session (files created in this session)
    last_sync = {}     # blob -> size published by the last sync with no write since
    pending_idx = {}   # index -> awaiting its own sync after the header rewrite
    seen_blob = set()
    for j, e in evs:
        kind, rest = e[0], e[1:]
        injected = None
        if '!' in rest:
            rest, injected = rest.split('!')[0], rest.split('!')[1]
        f = rest.split(':')
        name = f[0]
        if name.startswith('x') or name == 'o':
            continue
        for idx in list(pending_idx):
            if name == idx and kind != 'S':
                return f'index {idx} touched again before its sync ({e})'
        if name.startswith('b'):
            if kind == 'C':
                if name in seen_blob:
                    return f'create of an existing blob file {name}'
                seen_blob.add(name)
                created[name] = 0
                hi[name] = 0
            elif kind == 'O':
                seen_blob.add(name)
                # reopened in append mode: the OS places every write at the end of the file, and the file may have
                # been altered by the environment between the sessions (injected damage)
                created.pop(name, None)
                hi.pop(name, None)
            elif kind == 'W':
                off, ln = int(f[1]), int(f[2])
                if name in created:
                    st = created[name]
                    if st == 0:
                        if (off, ln) != (0, 20):
                            return f'first write to new blob {name} is not its 20-byte header: {e}'
                        created[name] = 1
                    elif st == 1:
                        return f'record written to new blob {name} before its header was synced: {e}'
                    if off < hi[name]:
                        return f'write below the end of {name}: {e} (end was {hi[name]})'
                    hi[name] = off + ln
                last_sync.pop(name, None)
            elif kind == 'S':
                if injected == 'fail':
                    continue        # the sync was issued and failed: nothing was made durable
                if name in created and created[name] == 1:
                    created[name] = 2
                last_sync[name] = int(f[1])
        elif name.startswith('i'):
            blob = 'b' + name[1:]
            if kind == 'W' and len(f) > 1 and f[1] == 'hdr':
                bs = int(f[2][3:]) if f[2][3:].isdigit() else None
                written = f[3] == 'w=1'
                if written:
                    if blob not in last_sync or bs is None or last_sync[blob] < bs:
                        return (f'index {name} marked complete for blob_size {bs} without a preceding sync of {blob} '
                                f'covering it (last sync: {last_sync.get(blob)})')
                    pending_idx[name] = True
            elif kind == 'S':
                pending_idx.pop(name, None)
    return None


def oracle_c12(res, i):
    cmd = res['script'][i].split()
    out = res['impl'][i]
    c = cmd[0]
    if c == 'trace':
        v = trace_violation(_events_upto(res, i))
        return 'MISMATCH ' + v if v else None
    if c == 'dirty' and out.startswith('dirty ') and out[6:].isdigit():
        limit = int(_cfg(res, 'dirty', '33554432'))
        if int(out[6:]) > limit:
            return f'MISMATCH un-synced bytes of the active blob {out[6:]} exceed the limit {limit} at quiescence'
    if c == 'fstates' and out.startswith('#fstates'):
        limit = int(_cfg(res, 'dirty', '33554432'))
        cur = _parse_f(out)
        # the un-synced counter against the trace: bytes written to a blob file beyond the size published by its last
        # SUCCESSFUL sync (for files created in this session, so that every write is in the trace)
        end, pub, created = {}, {}, set()
        for _, e in _events_upto(res, i):
            kind, rest = e[0], e[1:]
            failed = '!fail' in rest or '!short' in rest
            f = rest.split('!')[0].split(':')
            name = f[0]
            if not name.startswith('b'):
                continue
            if kind == 'C':
                created.add(name)
                end[name], pub[name] = 0, 0
            elif kind == 'O':
                created.discard(name)
            elif kind == 'W' and name in created and not failed:
                end[name] = max(end[name], int(f[1]) + int(f[2]))
            elif kind == 'S' and name in created and not failed:
                pub[name] = max(pub[name], int(f[1]))
        faulty = any(l.split()[0] == 'fault' and 'write' in l.split()[1:2] for l in res['script'][:i])
        for b in cur:
            name = 'b' + b[0]
            if name in created and not faulty and int(b[3]) != end[name] - min(pub[name], end[name]):
                return (f'MISMATCH blob {b[0]}: the storage counts {b[3]} un-synced bytes, the trace shows '
                        f'{end[name] - min(pub[name], end[name])} (written up to {end[name]}, last successful sync published {pub[name]})')
        act = [b for b in cur if b[1] == 'a']
        # while an injected fault is armed a sync may fail legitimately; the bound is due again after the first
        # write / delete that follows `clearfaults`
        armed, excused = False, False
        for j in range(i):
            t = res['script'][j].split()[0]
            if t == 'fault' and 'pause:' not in res['script'][j]:     # (a stalled operation is not a failed one)
                armed, excused = True, True
            elif t == 'clearfaults':
                armed = False
            elif t in ('w', 'd', 'fsync', 'close_active', 'restart', 'open') and not armed:
                excused = False
        if act and int(act[0][3]) > limit and not excused:
            return f'MISMATCH un-synced bytes of the active blob {act[0][3]} exceed the limit {limit} at quiescence'
        j = _prev_op(res, i)
        if j is not None:
            pc = res['script'][j].split()[0]
            if pc == 'fsync' and res['impl'][j] == 'ok' and act and int(act[0][3]) != 0:
                return f'MISMATCH {act[0][3]} un-synced bytes remain after an explicit fsyncdata'
            if (pc == 'close_active' and res['impl'][j] == 'ok') or (pc == 'closerace' and res['impl'][j].startswith('close=ok')):
                # the blob that was active before must be fully synced now
                for k in range(j - 1, -1, -1):
                    if res['impl'][k].startswith('#fstates'):
                        prev_act = [b for b in _parse_f(res['impl'][k]) if b[1] == 'a']
                        if prev_act:
                            now = [b for b in cur if b[0] == prev_act[0][0]]
                            if now and int(now[0][3]) != 0:
                                return f'MISMATCH blob {now[0][0]} has {now[0][3]} un-synced bytes after close of the active blob'
                        break
    if c in ('fsync', 'close', 'open', 'restart', 'settle') and out != 'ok':
        armed = False
        for j in range(i):
            t = res['script'][j].split()[0]
            armed = True if t == 'fault' else (False if t == 'clearfaults' else armed)
        if not armed:
            return f'MISMATCH {c}: {out}'
    return None


def oracle_c07(res, i):
    cmd = res['script'][i].split()
    out = res['impl'][i]
    c = cmd[0]
    if c == 'snap' and out != 'snap ok':
        return f'MISMATCH {out}'
    if c == 'trace':
        if len(cmd) > 1 and cmd[1] == 'q' and out.strip() != '#trace':
            return f'MISMATCH queries issued file operations: {out}'
        v = trace_violation(_events_upto(res, i))
        if v and ('below the end' in v or 'existing blob' in v):
            return 'MISMATCH ' + v
    if c in ('restart', 'open') and out != 'ok':
        return f'MISMATCH init failed: {out}'
    return None


def sync_features(lines):
    f = set()
    for l in lines:
        t = l.split()
        if t[0] == 'cfg':
            for tok in t[1:]:
                if tok.startswith(('dirty=', 'rt=')):
                    f.add(tok)
        elif t[0] in ('fsync', 'close_active', 'settle', 'restart', 'force', 'free', 'close_active_bg', 'd'):
            f.add('op:' + t[0])
        elif t[0] == 'w':
            f.add('write ' + ('small' if int(t[4]) <= 4000 else 'two-buffer' if int(t[4]) < 81000 else 'background'))
    return f


PROPS['C12'] = dict(
    gen=lambda rng, tier: (gen.sync_scenario if rng.random() < 0.65 else
                           gen.sync_rotation_scenario if rng.random() < 0.4 else
                           gen.sync_fault_scenario if rng.random() < 0.5 else
                           gen.sync_stall_scenario if rng.random() < 0.6 else gen.sync_closerace_scenario)(rng, size=tier),
    p_cmds={'trace', 'fstates', 'fsync', 'close', 'open', 'dirty'},
    impl_only_cmds={'fstates'}, impl_only_if_ct={'trace'},   # ct: markers into several closed blobs are issued concurrently
    oracle_cmds={'states'}, py_oracle=oracle_c12,
    count={'quick': 80, 'thorough': 1200}, timeout=1800,
    nontrivial=lambda lines: sum(1 for l in lines if l.split()[0] in ('fsync', 'close_active', 'settle')) >= 1 and
    sum(1 for l in lines if l.startswith('w ')) >= 2,
    features=sync_features,
    rule=("5-40 operations (writes of 0/10/300/5000/100000 bytes, deletes, explicit fsyncdata, lifecycle calls, "
          "settle, restarts) under a dirty-byte limit from {0,1,100,4096,100000,32 MiB}; after every step the complete "
          "tap trace (create/open/write offset+len/sync with published size, index header rewrites with blob_size and "
          "written bit) and the size/un-synced counters of every blob; predicates: header synced before first record, "
          "index marked complete only after a covering blob sync and then synced, nothing un-synced after explicit "
          "fsyncdata or close of the active blob, un-synced bytes <= limit at quiescence; non-trivial = >=2 writes "
          "and an explicit sync/close/dump"),
    assumptions=['sync_all makes data durable (OS promise)', 'quiescence = worker queue drained and no blocking closure running'],
)

PROPS['C07'] = dict(
    gen=lambda rng, tier: gen.harm_scenario(rng, size=tier),
    p_cmds={'snap', 'trace', 'restart', 'open', 'r', 'c', 'ram', 'counts'},
    impl_only_cmds={'trace'}, tolerate_err_after_damage=True, no_oracle_after_nomodel=True,
    oracle_cmds={'r', 'c', 'ram', 'states'}, py_oracle=oracle_c07,
    count={'quick': 80, 'thorough': 1200}, timeout=1800,
    nontrivial=lambda lines: any('bdmg=' in l for l in lines) or sum(1 for l in lines if l.startswith('restart')) >= 2,
    features=lambda lines: kv_features(lines) | {('damage ' + l.split('=')[1].split(':')[1]) for l in lines if 'bdmg=' in l},
    rule=("6-40 operations incl. restarts (eager/lazy) and between-session damage of blob files (magic, record-header "
          "byte, data byte, truncated tail) that leads to quarantine; after every step a byte snapshot of every *.blob "
          "in the work and corrupted directories is compared with the previous one (prefix or moved unchanged; new names "
          "must carry ids above every id seen); tap trace: no blob write below the end of file, no create of an existing "
          "blob name; queries at quiescent points must issue no file operation; non-trivial = a quarantine or >=2 restarts"),
    assumptions=['after the first injected blob damage the model comparison is switched off (nomodel); the Spec oracle keeps following the implementation probe'],
)


def index_features(lines):
    f = set()
    klen = 4
    per = {}
    for l in lines:
        t = l.split()
        if t[0] == 'cfg':
            for tok in t[1:]:
                if tok.startswith('key='):
                    klen = int(tok[4:])
                    f.add(tok)
        if t[0] in ('w', 'd'):
            per[t[1]] = per.get(t[1], 0) + 1
    rhs = 57 + klen
    pb = 4096 // rhs
    fan = (4096 - 16) // (klen + 8) + 1
    total = sum(per.values())
    leaves = max(1, (total * rhs + 4095) // 4096)
    f.add('single leaf' if total * rhs <= 4096 else ('one inner level' if leaves <= fan else 'several inner levels'))
    if any(v > pb for v in per.values()):
        f.add('run longer than a block')
    if any(v == pb for v in per.values()):
        f.add('run of exactly one block')
    if any(v > 1 for v in per.values()):
        f.add('several versions of a key')
    return f


PROPS['C09'] = dict(
    gen=lambda rng, tier: gen.index_scenario(rng, size=tier),
    p_cmds={'c', 'ram', 'counts'}, oracle_cmds={'c', 'ram', 'counts', 'states'},
    count={'quick': 40, 'thorough': 300}, timeout=2400,
    nontrivial=lambda lines: 'single leaf' not in index_features(lines) or 'several versions of a key' in index_features(lines),
    features=index_features,
    rule=("one blob filled with a header multiset of a systematic shape (key counts 1..several tree levels, version "
          "runs of 1,2,3,B/rhs-1,B/rhs,B/rhs+1,3*B/rhs, ties, markers, key lengths {1,4,8,33,128,1000} = fan-out 454..5), "
          "closed and dumped; contains/read_all_with_deletion_marker through the index FILE for every (sampled) present key "
          "and absent keys below, between and above; record count; byte image of the index file (hash and filter section "
          "masked) compared with the L4 model; restart = load back, extend, dump again; non-trivial = more than one leaf or "
          "several versions of a key"),
    assumptions=['K <= 2032 (fan-out >= 3): hypothesis of the theorems; the property range is 1..1000'],
)


def filter_features(lines):
    f = set()
    for l in lines:
        t = l.split()
        if t[0] == 'cfg':
            for tok in t[1:]:
                if tok.startswith(('group=', 'bloom=', 'key=')):
                    f.add(tok)
        elif t[0] in ('bloom', 'bloom2'):
            f.add('bloom ' + t[1] + (' k=' + t[3] + ' maxbits=' + t[4] if t[1] == 'new' else ''))
        elif t[0] in ('offload',):
            f.add('offload level ' + t[2])
        elif t[0] in ('close_active', 'restore_active', 'restart', 'settle', 'force', 'offfault'):
            f.add('op:' + t[0])
        elif t[0] == 'd':
            f.add('delete')
    return f


def oracle_c10(res, i):
    cmd = res['script'][i].split()
    out = res['impl'][i]
    if cmd and cmd[0] == 'offfault' and not out.startswith('sweep ok'):
        return f'MISMATCH off-loaded filter with an unreadable index file: {out}'
    return None


PROPS['C10'] = dict(
    gen=lambda rng, tier: gen.filter_scenario(rng, size=tier),
    p_cmds={'cf', 'cfs', 'gfc', 'c', 'bloom', 'bloom2', 'offfault'}, py_oracle=oracle_c10,
    oracle_cmds={'cf', 'cfs', 'gfc', 'c', 'states'},
    # cf / cfs / gfc are compared with the model bit for bit (FilterDriver: per-blob filters + container) AND judged by the
    # no-false-negative oracle
    count={'quick': 120, 'thorough': 1500},
    nontrivial=lambda lines: any(l.startswith('offload') for l in lines) or any(l.startswith('restore_active') for l in lines),
    features=filter_features,
    rule=("part 1: pearl::Bloom driven directly - configs (elements, hashers 0..4, max bits incl. 0, 64, 65, 127, 100000), "
          "3-30 adds of keys of 1..33 bytes into two filters, membership answers, serialized image (CRC-32C), merge, probe of "
          "the serialized image through a BloomDataProvider, off-load, reload - every output compared with the Lean model "
          "that computes bit positions with its aHash port; part 2: storage histories (group size 2..9, bloom configs incl. "
          "zero sizes and 8M bits) with close/restore/create/force/delete-in-closed/settle/offload(level 0..2)/restart and "
          "check_filters + check_filter + contains for every key after every step; the oracle flags any 'definitely absent' "
          "for a key that has a record; non-trivial = an offload or a restore occurs; part 3 (`offfault`, at the end of every "
          "storage history, in a scratch directory with the session's key length and bloom configuration): 3..8 records, blob "
          "closed and its index dumped, buffers off-loaded, then the index file is cut to 0/8/40 bytes under the running "
          "session: check_filters / check_filter must not answer 'absent' and read / contains must not answer NotFound "
          "without an error for any of the stored keys"),
    assumptions=['bits_count comes from an f64 formula and is taken from the implementation as an input of the model',
                 'storage-level filter answers are judged by the no-false-negative oracle; bit-exact comparison is done on the Bloom type'],
)


# ---- C17: committed corpus written by the pinned release ---------------------------------------------------

def c17_entries():
    base = os.path.join(ROOT, 'corpus', 'C17')
    out = []
    for name in sorted(os.listdir(base)) if os.path.isdir(base) else []:
        d = os.path.join(base, name)
        if os.path.isdir(os.path.join(d, 'dir')):
            out.append(dict(name=name, dir=os.path.join(d, 'dir'),
                            gen=[l.rstrip('\n') for l in open(os.path.join(d, 'gen.txt')) if l.strip()],
                            queries=[l.rstrip('\n') for l in open(os.path.join(d, 'queries.txt')) if l.strip()],
                            answers=[l.rstrip('\n') for l in open(os.path.join(d, 'answers.txt'))]))
    return out


def c17_scenarios(tier, rng):
    scens = []
    for e in c17_entries():
        idx = sorted(int(f.split('.')[1]) for f in os.listdir(e['dir']) if f.endswith('.index'))
        subsets = [[], idx, idx[:1], idx[-1:], idx[::2]]
        if tier == 'thorough':
            for _ in range(12):
                subsets.append([i for i in idx if rng.random() < 0.5])
        seen = set()
        for s in subsets:
            key = tuple(s)
            if key in seen:
                continue
            seen.add(key)
            for lazy in ([False, True] if tier == 'thorough' or not s else [False]):
                rp = f"replayfrom {e['dir']}" + (f" rmidx={','.join(map(str, s))}" if s else '') + (' lazy' if lazy else '')
                scens.append(e['gen'] + [rp, 'states'] + e['queries'])
        cfg = e['gen'][0]
        klen = int([t for t in cfg.split() if t.startswith('key=')][0][4:])
        other = 8 if klen != 8 else 4
        base = ' '.join(t for t in cfg.split() if not t.startswith('key='))
        probe = 'ab' * other
        scens.append([f'{base} key={other} from={e["dir"]}', 'nomodel', 'corrupted', f'r {probe}', f'c {probe}', 'counts'])
        scens.append([f'{cfg} from={e["dir"]} patch=blobver', 'nomodel', 'corrupted'])
        scens.append([f'{cfg} from={e["dir"]} patch=idxver', 'nomodel', 'states'] + e['queries'])
    return scens


def _c17_entry_of(res):
    for l in res['script']:
        m = None
        for tok in l.split():
            if tok.startswith('from=') or (l.startswith('replayfrom') and tok.startswith('/')):
                m = tok[5:] if tok.startswith('from=') else tok
        if m:
            for e in c17_entries():
                if e['dir'] == m:
                    return e
    return None


def oracle_c17(res, i):
    cmd = res['script'][i]
    out = res['impl'][i]
    e = _c17_entry_of(res)
    if e is None:
        return None
    first = res['script'][0]
    if cmd.startswith('replayfrom') and out != 'ok':
        return f'MISMATCH directory written by the pinned release does not open: {out}'
    if 'patch=blobver' in first:
        if cmd == 'corrupted' and 'Validation/BlobVersion' not in out:
            return f'MISMATCH blob with a foreign format version was not rejected with a validation error: {out}'
        return 'OK'
    if 'from=' in first and i > 0:
        r = _c17_from(res, i, e, cmd, out, first)
        return r if r else 'OK'     # the Spec oracle has no history for a directory it did not see being written
    return _c17_from(res, i, e, cmd, out, first)


def _c17_from(res, i, e, cmd, out, first):
    if 'from=' in first and 'patch=' not in first:
        # foreign key size: nothing may be served, the blobs are rejected (quarantined with a validation error)
        if cmd == 'corrupted' and (not out.startswith('n=') or int(out[2:]) < 1):
            return f'MISMATCH blobs with a foreign key size were not rejected: {out}'
        if cmd.split()[0] in ('r', 'c') and out != 'notfound':
            return f'MISMATCH blobs with a foreign key size were misread: {out}'
        if cmd == 'counts' and 'rc=0 ' not in out:
            return f'MISMATCH blobs with a foreign key size were misread: {out}'
        return None
    # answers recorded when the pinned release produced the directory
    started = any(l.startswith('replayfrom') for l in res['script'][:i]) or 'patch=idxver' in first
    if started and cmd in e['queries']:
        # the j-th query line after the replay
        start = max(j for j, l in enumerate(res['script'][:i + 1]) if l.startswith('replayfrom') or j == 0)
        qs = [j for j in range(start, len(res['script'])) if res['script'][j] in e['queries']]
        k = qs.index(i) if i in qs else None
        if k is not None and k < len(e['answers']):
            want = e['answers'][k]
            if cmd == 'counts':
                want = [t for t in want.split() if t.startswith('rc=')]
                got = [t for t in out.split() if t.startswith('rc=')]
                return None if want == got else f'MISMATCH recorded {want} got {got}'
            if out != want:
                return f'MISMATCH answer recorded by the pinned release [{want}] now [{out}]'
    return None


PROPS['C17'] = dict(
    scenarios=c17_scenarios,
    gen=lambda rng, tier: None,
    p_cmds={'r', 'c', 'ram', 'ra', 'rw', 'counts', 'replayfrom', 'corrupted'},
    oracle_cmds={'r', 'c', 'ram', 'ra', 'rw', 'states'}, py_oracle=oracle_c17,
    count={'quick': 0, 'thorough': 0}, timeout=1800,
    nontrivial=lambda lines: any(l.startswith('replayfrom') or 'from=' in l for l in lines),
    features=lambda lines: {('replay rmidx' if 'rmidx=' in l else 'replay all indexes') for l in lines if l.startswith('replayfrom')}
    | {t for l in lines[:1] for t in l.split() if t.startswith(('key=', 'patch=', 'bloom='))},
    rule=("for every directory of the committed corpus (written by the pinned release: key sizes 1/4/8/33/128/1000, bloom "
          "off/on/with more stored bits than the configured limit and queried after an off-load, deletion markers, metadata, stale and fresh index files, a two-level B+tree) and several subsets of "
          "index files removed (thorough: 12 more random subsets, eager and lazy init): the generating history is replayed "
          "on model and current code, the directory is replaced by the pinned one, and every recorded query is asked again; "
          "plus: open with a foreign key size (nothing served, blobs rejected), a foreign blob format version (init fails "
          "with Validation/BlobVersion), a foreign index version (index regenerated, same answers)"),
    assumptions=['the corpus was produced by the pinned tree plus the add-only hook commits (harness needs the probes)'],
)


def oracle_c16(res, i):
    cmd = res['script'][i].split()
    out = res['impl'][i]
    if cmd[0] == 'toolsweep' and not out.startswith('sweep ok'):
        return f'MISMATCH offline tools: {out}'
    return None


PROPS['C16'] = dict(
    gen=lambda rng, tier: gen.tools_scenario(rng, size=tier),
    p_cmds={'toolsweep', 'r', 'ram'}, oracle_cmds={'r', 'ram', 'states'}, py_oracle=oracle_c16,
    count={'quick': 32, 'thorough': 300}, timeout=2400,
    nontrivial=lambda lines: sum(1 for l in lines if l.startswith('w ')) >= 3,
    features=lambda lines: kv_features(lines) | {'toolsweep'},
    rule=("blobs and indexes produced by a random kv history (key length 4/8/33/128, metadata, markers, values "
          "0..5000 bytes); then for every blob: validate_blob / validate_index / read_index accept it and report exactly "
          "the blob's headers; a v0 image of it migrates back byte for byte; for 24 (quick) / 80 (thorough) damaged copies "
          "(truncation inside the header / at the header end / inside data / one byte short, flipped key / flags / offset / "
          "timestamp / checksum bytes, flipped data byte, blob magic) validate_blob rejects the copy, recovery (with and "
          "without skipping) produces a blob that validates, holds every intact record before the damage (and after an "
          "isolated damaged record when skipping), and a storage opened on it serves every record; truncated index copies "
          "are rejected"),
    assumptions=['flips of the length fields of a record header are not generated: bincode would try to allocate the '
                 'claimed length (tools only) and abort the process; skipping past a header with damaged size fields cannot '
                 'work without resynchronisation and is outside the generated damage'],
)


def oracle_c11(res, i):
    cmd = res['script'][i].split()
    out = res['impl'][i]
    c = cmd[0]
    armed = False
    for j in range(i):
        t = res['script'][j].split()[0]
        if t == 'fault':
            armed = True
        elif t == 'clearfaults':
            armed = False
    if c == 'states' and i > 0 and res['script'][i - 1].startswith('d ') and res['oracle'][i].startswith('MISMATCH delete-targets'):
        # a delete issued while a fault is armed may mark fewer blobs than the key is live in (the per-blob error
        # of a closed blob is logged and counted as "not deleted"); it must never mark a blob it should not
        armed_at_delete = False
        for j in range(i - 1):
            t = res['script'][j].split()[0]
            armed_at_delete = True if t == 'fault' else (False if t == 'clearfaults' else armed_at_delete)
        m = re.search(r'expected=\[([^\]]*)\] got=\[([^\]]*)\]', res['oracle'][i])
        if armed_at_delete and m:
            exp = {x.strip() for x in m.group(1).split(',') if x.strip()}
            got = {x.strip() for x in m.group(2).split(',') if x.strip()}
            if got <= exp:
                return 'OK'
    if c == 'snap' and out != 'snap ok':
        return f'MISMATCH {out}'
    if c == 'alive' and out != 'alive':
        return 'MISMATCH background worker died after an I/O fault'
    if c in ('restart', 'open', 'clearfaults') and out != 'ok' and not armed:
        return f'MISMATCH {c}: {out}'
    if not armed and c == 'w' and not out.startswith('ok'):
        return f'MISMATCH write rejected after the fault was cleared: {out}'
    if not armed and c == 'd' and not out.startswith('n='):
        return f'MISMATCH delete rejected after the fault was cleared: {out}'
    if not armed and c == 'settle' and out != 'ok':
        return f'MISMATCH index dumps do not complete after the fault was cleared: {out}'
    return None


PROPS['C11'] = dict(
    gen=lambda rng, tier: gen.fault_scenario(rng, size=tier),
    p_cmds={'r', 'c', 'ram', 'w', 'd', 'snap', 'alive', 'restart', 'counts', 'settle'},
    oracle_cmds={'r', 'c', 'ram', 'states'}, py_oracle=oracle_c11,
    count={'quick': 120, 'thorough': 1000}, timeout=2400,
    nontrivial=lambda lines: any(l.startswith('fault') for l in lines),
    features=lambda lines: {' '.join(l.split()[:2] + l.split()[3:5]) for l in lines if l.startswith('fault')} |
    {'op under fault: ' + lines[i + 1].split()[0] for i, l in enumerate(lines[:-1]) if l.startswith('fault')},
    tolerate_err_after_damage=False,
    rule=("a random history, then 1-6 rounds: arm a failpoint (the n-th create/write/sync on *.blob or *.index, n in "
          "0..2, ENOSPC / EIO / short write of 0,7,60 bytes), run 1-3 operations (writes up to 90 kB, deletes, close/force/"
          "create/restore active, settle = background dumps, fsync), read every key; clear the fault; worker must be alive; "
          "read everything; two more data operations must succeed (incl. rotation with a record limit of 4); byte snapshots; "
          "restart and read everything again. The Spec oracle follows the implementation's acknowledgements: a failed "
          "operation that is served later, a lost acknowledged record, or records of a vanished blob that is not preserved "
          "intact in the corrupted directory are violations"),
    assumptions=['the model comparison is off once a fault is armed (nomodel); the Spec oracle and the snapshot/liveness oracles judge the implementation'],
)


# ---- known findings: precise predicates (a different violation of the same property is still reported) ------

def _two_buffer_write(line):
    t = line.split()
    return len(t) == 6 and t[0] == 'w' and int(t[4]) > 4200 - 200   # header + meta + data above the single-pass limit


def known_e8_failed_large_write_indexed(f):
    """E8 seen through C11: the second pwrite of a two-buffer record failed (the call returned an error), the
    complete record header stayed in the blob, and the index-less scan at the next start accepts the torn tail
    record: exactly one unexplained record appears at the `states` probe right after a restart"""
    sc, impl, i = f.scen['script'], f.scen['impl'], f.line_no
    if 'unexplained-growth' not in f.detail or sc[i] != 'states':
        return False
    if i == 0 or not sc[i - 1].startswith(('restart', 'open')):
        return False
    # a failed write that may have left a complete record header behind: a two-buffer record whose data pwrite
    # failed, or any record cut by an injected short write on a blob file
    short_armed = any(re.match(r'fault write \d+ \S*blob\S* short:', l) for l in sc[:i])
    failed_big = [j for j in range(i) if sc[j].split()[0] in ('w', 'd') and impl[j].startswith('err')
                  and (_two_buffer_write(sc[j]) or short_armed)]
    if not failed_big:
        return False
    # the growth is one record, in the blob that was active when the write failed
    prev = None
    for j in range(i - 1, -1, -1):
        if impl[j].startswith('#states'):
            prev = {t.split(':')[0]: int(t.split(':')[2]) for t in impl[j].split()[1:]}
            break
    cur = {t.split(':')[0]: int(t.split(':')[2]) for t in impl[i].split()[1:]}
    if prev is None:
        return False
    grown = [(k, cur[k] - prev.get(k, 0)) for k in cur if cur[k] > prev.get(k, 0)]
    return len(grown) == 1 and grown[0][1] <= len(failed_big)


KNOWN_PREDICATES = {
    'e8_failed_large_write_indexed': known_e8_failed_large_write_indexed,
}


def oracle_c06(res, i):
    cmd = res['script'][i].split()
    out = res['impl'][i]
    if cmd[0] == 'killcheck':
        if not out.startswith('sweep ok'):
            return f'MISMATCH after SIGKILL: {out}'
        m = re.search(r'e8=(\d+)', out)
        if m and int(m.group(1)) > 0:
            return ('MISMATCH E8: the process was killed between the two writes of a record; the torn tail record was accepted '
                    'at start-up and a write acknowledged after that recovery was lost at the next index-less start')
        return 'OK'
    if cmd[0] == 'alive' and out != 'alive':
        return 'MISMATCH worker dead after recovery'
    if cmd[0] == 'crashsweep':
        if not out.startswith('sweep ok'):
            return f'MISMATCH crash recovery: {out}'
        m = re.search(r'e8=(\d+)', out)
        if m and int(m.group(1)) > 0:
            return (f'MISMATCH E8: in {m.group(1)} crash states a tail record torn inside its meta/data was accepted at start-up '
                    f'and a write acknowledged after that recovery was lost at the next index-less start')
    if cmd[0] in ('restart', 'open') and out != 'ok':
        return f'MISMATCH init failed: {out}'
    return None


def known_e8_two_crash(f):
    return f.scen['script'][f.line_no].startswith(('crashsweep', 'killcheck')) and 'MISMATCH E8:' in f.detail


KNOWN_PREDICATES['e8_two_crash'] = known_e8_two_crash

PROPS['C06'] = dict(
    gen=lambda rng, tier: gen.crash_scenario(rng, size=tier),
    p_cmds={'crashsweep', 'killcheck', 'restart', 'open', 'r', 'c', 'ram'},
    oracle_cmds={'states'}, py_oracle=oracle_c06, kill_runs={'quick': 48, 'thorough': 600},
    count={'quick': 60, 'thorough': 600}, timeout=2400,
    nontrivial=lambda lines: any(l.startswith('crashsweep') for l in lines) and sum(1 for l in lines if l.startswith('w ')) >= 2,
    features=lambda lines: kv_features(lines) | {t for l in lines[:1] for t in l.split() if t.startswith(('dirty=', 'validate=', 'ignore='))},
    rule=("histories under dirty-byte limits {0,100,4096,32 MiB}, data validation on/off, corrupted blobs quarantined or "
          "ignored; at random quiescent points every blob is cut at every length between its synced size and its size "
          "(every byte when <= 260 un-synced bytes, record boundaries +-1 and samples otherwise), combined with its index kept "
          "/ removed / cut at a random length / written-flag cleared; every crash state is opened in a copy: init must "
          "succeed, the cut blob serves exactly the records complete in the surviving prefix (or is quarantined with its bytes "
          "intact), every other blob is served in full, reads never return foreign bytes, and a write made after recovery must "
          "survive a clean restart without index files"),
    assumptions=['which prefixes can persist after power loss is the contract of the file system (every prefix beyond the last sync is explored)',
                 'known finding E8 (torn tail record accepted) is reported as KNOWN-FINDING'],
)


def oracle_c14(res, i):
    cmd = res['script'][i].split()
    out = res['impl'][i]
    c = cmd[0]
    if c == 'corruptedx':
        m = re.match(r'n=(\d+) short=(\d+)', out)
        if not m:
            return f'MISMATCH {out}'
        n, short = int(m.group(1)), int(m.group(2))
        if n - short > 0:
            return f'MISMATCH a blob file that held records no longer parses at start-up after a cancelled operation: {out}'
        if short > 0:
            return (f'MISMATCH E18: {short} blob file(s) left without a complete header by a cancelled blob creation were '
                    f'quarantined at the next start')
    if c in ('restart', 'open') and out != 'ok':
        return f'MISMATCH init failed: {out}'
    if c == 'alive' and out != 'alive':
        return 'MISMATCH worker dead'
    if c == 'w' and not out.startswith('ok'):
        return f'MISMATCH a later write fails after a cancelled operation: {out}'
    if c == 'd' and not out.startswith('n='):
        return f'MISMATCH a later delete fails after a cancelled operation: {out}'
    return None


PROPS['C14'] = dict(
    gen=lambda rng, tier: gen.cancel_scenario(rng, size=tier),
    p_cmds={'cancel', 'r', 'ram', 'w', 'd', 'corruptedx', 'restart', 'alive', 'counts'},
    oracle_cmds={'r', 'ram', 'states', 'counts'}, py_oracle=oracle_c14, impl_only_cmds={'corruptedx'},
    count={'quick': 120, 'thorough': 1500}, timeout=2400,
    nontrivial=lambda lines: any(l.startswith('cancel') for l in lines),
    features=lambda lines: {'cancel k=' + l.split()[1] + ' ' + l.split()[2] for l in lines if l.startswith('cancel')} |
    {t for l in lines[:1] for t in l.split() if t.startswith('rt=')},
    rule=("a history, then 2-14 rounds: an operation future (write of 0..90000 bytes, delete, close/create/restore active) is "
          "polled k in {1,2,3,4,5,7,10} times and dropped (current-thread runtime: every file operation is a suspension point; "
          "multi-thread: records above 80 KiB), already started blocking closures run to completion; then every key is "
          "read, a further operation must succeed, and at random points the storage restarts with all index files removed so "
          "that every blob file is re-parsed (no quarantine allowed). The Spec oracle treats a dropped operation as 'entirely "
          "or not at all, at the latest from the next start' (a record that shows up later than the first start after the "
          "cancellation is unexplained growth)"),
    assumptions=['dropping a tokio JoinHandle does not cancel a spawn_blocking closure (tokio contract)',
                 'the number of polls to completion is reported by the harness (polls=n) and listed in the evidence features'],
)


def oracle_c08(res, i):
    cmd = res['script'][i].split()
    out = res['impl'][i]
    c = cmd[0]
    if c == 'conc' and not out.startswith('sweep ok'):
        return f'MISMATCH concurrent clients: {out}'
    if c == 'alive' and out != 'alive':
        return 'MISMATCH worker dead after the concurrent run'
    if c == 'corruptedx' and not out.startswith('n=0 '):
        return f'MISMATCH a blob written concurrently does not parse at the next start: {out}'
    if c in ('restart', 'settle') and out != 'ok':
        return f'MISMATCH {c}: {out}'
    if c == 'fcounts':
        v = oracle_c15(res, i)
        return None if v == 'OK' else v
    if c in ('r', 'ram') and any(l.startswith('fault create 0 .blob pause') for l in res['script'][:i]):
        # rotation raced by a manual close: whatever the answer is, it must be the same after the restart
        j = [x for x in range(i) if res['script'][x] == res['script'][i]]
        k = [x for x in range(i) if res['script'][x].split()[0] == 'restart']
        if j and k and j[-1] < k[-1] and res['impl'][j[-1]] != out:
            return f'MISMATCH the answer changed across a restart: [{res["impl"][j[-1]]}] before, [{out}] after'
    return None


PROPS['C08'] = dict(
    gen=lambda rng, tier: gen.conc_scenario(rng, size=tier),
    p_cmds={'conc', 'alive', 'corruptedx', 'restart', 'settle'},
    oracle_cmds={'states'}, py_oracle=oracle_c08, no_oracle_after_nomodel=True, impl_only_cmds={'corruptedx'},
    count={'quick': 32, 'thorough': 300}, timeout=2400,
    nontrivial=lambda lines: any(l.startswith(('conc', 'race2', 'fault create')) for l in lines),
    features=lambda lines: {('conc clients=' + l.split()[1] + (' maint' if 'maint' in l else '')) for l in lines if l.startswith('conc')} |
    {t for l in lines[:1] for t in l.split() if t.startswith(('rt=', 'maxdata='))},
    rule=("2..2000 client tasks, each issuing 4-30 operations (55% writes of 0..5000 bytes, 10% deletes, 20% contains, 15% "
          "reads) on a pool of 4 keys with globally unique increasing timestamps, on a fresh blob and again after a restart "
          "(reopened blob), record limits {inf,50,20,7} so that blobs rotate during the run, multi-thread and current-thread "
          "runtimes, optionally a maintenance task (close/create/restore active, fsyncdata, free_excess_resources, "
          "force_update). Every invocation and response is stamped by a global counter; afterwards each probe/read is checked "
          "(not older than every update acknowledged before it started; only values written to that key by an operation "
          "invoked before the response), every acknowledged write is found in a blob file, every blob file parses to its last "
          "byte and validates, the final version list of every key equals the sequential outcome, the run ends (no deadlock), "
          "and the next start re-parses all blobs without quarantine"),
    assumptions=['the schedule is whatever tokio and the OS produce; the LTS theorems (Props/C08) cover all schedules of the abstract protocol',
                 'known finding E7: >= channel capacity + 2 writers inside the shared section with a full blob deadlock (proved on the LTS)'],
)


def known_e18_cancelled_creation(f):
    return f.scen['script'][f.line_no] == 'corruptedx' and 'MISMATCH E18:' in f.detail


KNOWN_PREDICATES['e18_cancelled_creation'] = known_e18_cancelled_creation
