#!/usr/bin/env python3
"""rs2lean: regenerates lean/Pearl/Gen/Consts.lean from the CURRENT Rust source of /repo.

Deliberately limited to declarations (DESIGN.md 2.1): constants (constant expressions are evaluated), the field
lists of the serialized structs (declaration order = bincode order), and three small decision tables.  It works on
a token stream with comments and string literals stripped, so reformatting does not disturb it.  If it cannot find
or recognise an item it exits non-zero: that is a broken tie, reported by `check`."""
import argparse
import os
import re
import sys


def strip(src):
    """remove comments and the contents of string/char literals"""
    out = []
    i, n = 0, len(src)
    while i < n:
        if src.startswith('//', i):
            while i < n and src[i] != '\n':
                i += 1
        elif src.startswith('/*', i):
            depth = 1
            i += 2
            while i < n and depth:
                if src.startswith('/*', i):
                    depth += 1
                    i += 2
                elif src.startswith('*/', i):
                    depth -= 1
                    i += 2
                else:
                    i += 1
        elif src[i] == '"':
            out.append('""')
            i += 1
            while i < n and src[i] != '"':
                i += 2 if src[i] == '\\' else 1
            i += 1
        else:
            out.append(src[i])
            i += 1
    return ''.join(out)


class Fail(Exception):
    pass


def read(repo, rel):
    p = os.path.join(repo, rel)
    if not os.path.exists(p):
        raise Fail(f'missing source file {rel}')
    return strip(open(p).read())


def eval_const(expr, env):
    e = expr.strip()
    e = re.sub(r'\bas\s+\w+', '', e)
    e = re.sub(r'(\d)_(?=\d|[0-9a-fA-F])', r'\1', e)
    e = re.sub(r'(0x[0-9a-fA-F_]+|\d[\d_]*)(u8|u16|u32|u64|u128|usize|i32|i64)?', lambda m: m.group(1).replace('_', ''), e)
    for k, v in env.items():
        e = re.sub(r'\b' + k + r'\b', str(v), e)
    if not re.fullmatch(r'[\d\sxXa-fA-F+\-*/()<>]+', e):
        raise Fail(f'constant expression not understood: {expr!r}')
    return int(eval(e.replace('/', '//'), {'__builtins__': {}}))


def const(src, name, env=None, where=''):
    m = re.search(r'\bconst\s+' + name + r'\s*:\s*[^=;]+=\s*([^;]+);', src)
    if not m:
        raise Fail(f'constant {name} not found {where}')
    return eval_const(m.group(1), env or {})


def struct_fields(src, name, where=''):
    m = re.search(r'\bstruct\s+' + name + r'\b[^{;]*\{', src)
    if not m:
        raise Fail(f'struct {name} not found {where}')
    i = m.end()
    depth = 1
    j = i
    while j < len(src) and depth:
        if src[j] == '{':
            depth += 1
        elif src[j] == '}':
            depth -= 1
        j += 1
    body = src[i:j - 1]
    body = re.sub(r'#\[[^\]]*\]', '', body)
    fields = []
    # split on commas at angle/paren depth 0
    cur, d = '', 0
    for ch in body:
        if ch in '<([':
            d += 1
        elif ch in '>)]':
            d -= 1
        if ch == ',' and d == 0:
            fields.append(cur)
            cur = ''
        else:
            cur += ch
    fields.append(cur)
    res = []
    for f in fields:
        f = f.strip()
        if not f:
            continue
        m = re.match(r'(?:pub(?:\([^)]*\))?\s+)?(\w+)\s*:\s*(.+)$', f, re.S)
        if not m:
            raise Fail(f'field of {name} not understood: {f!r}')
        res.append((m.group(1), re.sub(r'\s+', '', m.group(2))))
    return res


def fn_body(src, name, where=''):
    m = re.search(r'\bfn\s+' + name + r'\b[^{;]*\{', src)
    if not m:
        raise Fail(f'fn {name} not found {where}')
    i = m.end()
    depth = 1
    j = i
    while j < len(src) and depth:
        if src[j] == '{':
            depth += 1
        elif src[j] == '}':
            depth -= 1
        j += 1
    return src[i:j - 1]


def extract(repo):
    g = {}
    rec = read(repo, 'src/record/record.rs')
    g['RECORD_MAGIC_BYTE'] = const(rec, 'RECORD_MAGIC_BYTE')
    g['DELETE_FLAG'] = const(rec, 'DELETE_FLAG')
    g['MAX_SINGLE_PASS_DATA_SIZE'] = const(rec, 'MAX_SINGLE_PASS_DATA_SIZE')
    b = fn_body(rec, 'blob_offset_offset')
    m = re.fullmatch(r'\s*len\s*-\s*(\d+)\s*', b)
    if not m:
        raise Fail('blob_offset_offset is not `len - N`')
    g['BLOB_OFFSET_PATCH'] = int(m.group(1))
    b = fn_body(rec, 'checksum_offset')
    m = re.fullmatch(r'\s*len\s*-\s*(\d+)\s*', b)
    if not m:
        raise Fail('checksum_offset is not `len - N`')
    g['CHECKSUM_PATCH'] = int(m.group(1))
    g['layout_record_Header'] = struct_fields(rec, 'Header', 'in record.rs')

    # the validation chain of a record read back from a blob
    g['RECORD_VALIDATE'] = straight_line(rec, 'validate', 'in record.rs (Record)', 0)
    g['RECORD_CHECK_DATA'] = straight_line(rec, 'check_data_checksum', 'in record.rs')
    g['HEADER_VALIDATE'] = straight_line(rec, 'validate', 'in record.rs (Header)', 1)
    b = fn_body(rec, 'data_checksum_audit', 'in record.rs')
    m = re.match(r"\s*let\s+(\w+)\s*=\s*CRC32C\.checksum\(\s*data\s*\)\s*;\s*if\s+(\w+)\s*(==|!=)\s*self\.data_checksum\s*\{\s*(Ok\(\(\)\)|)", b)
    if not m or m.group(1) != m.group(2) or m.group(3) != '==' or m.group(4) != 'Ok(())' or len(re.findall(r"\bif\b", b)) != 1 \
            or re.search(r"\breturn\b", b) or 'RecordDataChecksum' not in b:
        raise Fail('data_checksum_audit: not `if CRC32C.checksum(data) == self.data_checksum { Ok(()) } else { Err(RecordDataChecksum) }`')
    g['DATA_AUDIT'] = ['CRC32C.checksum(data)', '==', 'data_checksum', 'RecordDataChecksum']
    # the sizes written into a record header are what bincode itself reports for the serialized parts
    sizes = []
    for mm in re.finditer(r"\bfn\s+serialized_size\b", rec):
        b = ' '.join(fn_body(rec[mm.start():], 'serialized_size', 'in record.rs').split())
        sizes.append('bincode' if re.fullmatch(r"(bincode::)?serialized_size\(&self\)\.expect\(\"[^\"]*\"\)", b) else 'other:' + b[:60])
    g['RECORD_SERIALIZED_SIZES'] = sizes
    io = read(repo, 'src/io/unix/sync.rs')
    g['MAX_SYNC_OPERATION_SIZE'] = const(io, 'MAX_SYNC_OPERATION_SIZE')

    bh = read(repo, 'src/blob/header.rs')
    g['BLOB_VERSION'] = const(bh, 'BLOB_VERSION')
    g['BLOB_MAGIC_BYTE'] = const(bh, 'BLOB_MAGIC_BYTE')
    g['layout_blob_Header'] = struct_fields(bh, 'Header', 'in blob/header.rs')

    ic = read(repo, 'src/blob/index/core.rs')
    g['HEADER_VERSION'] = const(ic, 'HEADER_VERSION')
    g['INDEX_HEADER_MAGIC_BYTE'] = const(ic, 'INDEX_HEADER_MAGIC_BYTE')
    ih = read(repo, 'src/blob/index/header.rs')
    g['layout_IndexHeader'] = struct_fields(ih, 'IndexHeader')
    it = read(repo, 'src/blob/index/tools.rs')
    g['HASH_LENGTH'] = const(it, 'HASH_LENGTH')
    bc = read(repo, 'src/blob/index/bptree/core.rs')
    g['BLOCK_SIZE'] = const(bc, 'BLOCK_SIZE')
    # arithmetic of the tree layout, translated as functions
    sz = read(repo, 'src/blob/index/bptree/serializer.rs')
    nd = read(repo, 'src/blob/index/bptree/node.rs')
    meta_call = {r"NodeMeta::serialized_size_default\(\)(?:\?|\s*\.expect\([^)]*\))": 'node_meta_size'}
    g['fn_max_nonleaf_node_capacity'] = arith_fn(sz, 'max_nonleaf_node_capacity', 'in bptree/serializer.rs',
                                                 extern=meta_call, consts=('BLOCK_SIZE',))
    g['fn_node_serialized_size_with_keys'] = arith_fn(nd, 'serialized_size_with_keys', 'in bptree/node.rs', extern=meta_call)
    mm = re.search(r"let\s+min_amount\s*=\s*([^;]+);", fn_body(sz, 'build_tree', 'in bptree/serializer.rs'))
    if not mm:
        raise Fail('build_tree: `let min_amount = ..` not found')
    g['fn_min_amount'] = LeanFn(['max_amount'], [], arith_expr(mm.group(1), {'max_amount'}, 'build_tree'))
    # the key comparison of the look-ups through the file: inner nodes and leaves must use the same order (`K::Ref`)
    bsearch = fn_body(nd, 'binary_search_serialized', 'in bptree/node.rs')
    cmps = re.findall(r"([\w\.\(\)]+)\.cmp\(\s*&?\s*([\w:<>]+(?:\([^()]*\))?)\s*\)", bsearch)
    if len(cmps) != 1:
        raise Fail(f'binary_search_serialized: expected one key comparison, found {len(cmps)}')
    mk = re.search(r"let\s+" + re.escape(cmps[0][1].strip()) + r"\s*=\s*([\w:]+)\(", bsearch)
    g['NODE_SEARCH_CMP'] = [cmps[0][0].replace(' ', ''), mk.group(1) if mk else cmps[0][1].replace(' ', '')]
    bm = read(repo, 'src/blob/index/bptree/meta.rs')
    g['layout_TreeMeta'] = struct_fields(bm, 'TreeMeta')
    g['layout_NodeMeta'] = struct_fields(bm, 'NodeMeta')

    ob = read(repo, 'src/storage/observer.rs')
    g['OBSERVER_CHANNEL_SIZE_LIMIT'] = const(ob, 'OBSERVER_CHANNEL_SIZE_LIMIT')

    bl = read(repo, 'src/filter/bloom.rs')
    g['layout_bloom_Config'] = struct_fields(bl, 'Config')
    g['layout_bloom_Save'] = struct_fields(bl, 'Save')
    rg = read(repo, 'src/filter/range.rs')
    g['layout_RangeFilterInner'] = struct_fields(rg, 'RangeFilterInner')
    m = re.search(r'new_with_keys\s*\(\s*\(\s*i\s*\+\s*(\d+)\s*\)\s*as\s*u128\s*,\s*\(\s*i\s*\+\s*(\d+)\s*\)\s*as\s*u128\s*\)', bl)
    if not m:
        raise Fail('bloom hasher key formula not recognised')
    g['BLOOM_HASHER_KEY1_OFFSET'] = int(m.group(1))
    g['BLOOM_HASHER_KEY2_OFFSET'] = int(m.group(2))

    ah = read(repo, 'src/filter/ahash/fallback_hash.rs')
    g['AHASH_MULTIPLE'] = const(ah, 'MULTIPLE')
    g['AHASH_ROT'] = const(ah, 'ROT')
    am = read(repo, 'src/filter/ahash/mod.rs')
    m = re.search(r'\bconst\s+PI\s*:\s*\[u64;\s*4\]\s*=\s*\[([^\]]+)\]', am)
    if not m:
        raise Fail('aHash PI not found')
    g['AHASH_PI'] = [eval_const(x, {}) for x in m.group(1).split(',') if x.strip()]

    cf = read(repo, 'src/storage/config.rs')
    body = fn_body(cf[cf.index('impl Default for Config'):], 'default')

    def dflt(field, pat=r'([^,]+)'):
        m = re.search(r'\b' + field + r'\s*:\s*' + pat + r'\s*,', body)
        if not m:
            raise Fail(f'Config::default field {field} not found')
        return m.group(1)
    g['DEFAULT_DEBOUNCE_MS'] = eval_const(dflt('debounce_interval_ms'), {})
    g['DEFAULT_GROUP_SIZE'] = eval_const(dflt('bloom_filter_group_size'), {})
    g['DEFAULT_MAX_DIRTY_BYTES'] = eval_const(re.search(r'max_dirty_bytes_before_sync\s*:\s*([^,}]+)', body).group(1), {})
    g['DEFAULT_ALLOW_DUPLICATES'] = dflt('allow_duplicates').strip() == 'true'
    g['DEFAULT_IGNORE_CORRUPTED'] = dflt('ignore_corrupted').strip() == 'true'
    m = re.search(r'deferred_min_time\s*:\s*Duration::from_secs\((\d+)\)', body)
    g['DEFAULT_DEFERRED_MIN_S'] = int(m.group(1)) if m else None
    m = re.search(r'deferred_max_time\s*:\s*Duration::from_secs\((\d+)\)', body)
    g['DEFAULT_DEFERRED_MAX_S'] = int(m.group(1)) if m else None
    if g['DEFAULT_DEFERRED_MIN_S'] is None or g['DEFAULT_DEFERRED_MAX_S'] is None:
        raise Fail('deferred dump times not recognised')

    # decision tables
    sc = read(repo, 'src/storage/core.rs')
    body = fn_body(sc, 'should_save_corrupted_blob')
    table = {}
    mb = re.search(r'ErrorKind::Bincode\s*\(\s*_\s*\)\s*=>\s*(true|false)\s*,', body)
    if mb:
        table['bincode'] = mb.group(1) == 'true'
    mv = re.search(r'ErrorKind::Validation\s*\{[^}]*\}\s*=>\s*\{?\s*!\s*matches!\s*\(\s*kind\s*,\s*ValidationErrorKind::(\w+)\s*\)\s*\}?', body)
    if mv:
        table['validation_except'] = mv.group(1)
    if len(re.findall(r'=>', body)) != 3:
        raise Fail('should_save_corrupted_blob: unexpected number of match arms')
    mo = re.search(r'_\s*=>\s*(true|false)\s*,', body)
    if 'bincode' not in table or 'validation_except' not in table or not mo:
        raise Fail('should_save_corrupted_blob: table not recognised')
    g['SAVE_CORRUPTED_BINCODE'] = table['bincode']
    g['SAVE_CORRUPTED_VALIDATION_EXCEPT'] = table['validation_except']
    g['SAVE_CORRUPTED_OTHER'] = mo.group(1) == 'true'
    tail = body[body.rindex('}'):] if '}' in body else body
    g['SAVE_CORRUPTED_NOT_PEARL_ERROR'] = bool(re.search(r'\bfalse\s*$', body.strip()))

    fm = read(repo, 'src/filter/mod.rs')
    i = fm.find('impl Add for FilterResult')
    if i < 0:
        raise Fail('impl Add for FilterResult not found')
    body = fn_body(fm[i:], 'add')
    m1 = re.search(r'\(\s*FilterResult::NotContains\s*,\s*FilterResult::NotContains\s*\)\s*=>\s*FilterResult::(\w+)', body)
    m2 = re.search(r'_\s*=>\s*FilterResult::(\w+)', body)
    if not m1 or not m2 or len(re.findall(r'=>', body)) != 2:
        raise Fail('FilterResult::add table not recognised')
    g['FILTER_ADD_NO_NO'] = m1.group(1)
    g['FILTER_ADD_OTHER'] = m2.group(1)

    # the worker loop: which calls serve which request, and what happens to an error of `process_msg`
    ow = read(repo, 'src/storage/observer_worker.rs')
    body = fn_body(ow, 'process_msg', 'in observer_worker.rs')
    mi = body.find('match msg.optype')
    if mi < 0:
        raise Fail('process_msg: `match msg.optype` not found')
    arms = []
    pos = body.index('{', mi) + 1
    while True:
        m = re.compile(r'\s*OperationType::(\w+)\s*=>\s*\{').match(body, pos)
        if not m:
            break
        depth, j = 1, m.end()
        while depth and j < len(body):
            depth += {'{': 1, '}': -1}.get(body[j], 0)
            j += 1
        arm = body[m.end():j - 1]
        # (a call whose result is negated in a condition keeps its `!`)
        calls = re.findall(r'(!?)(?:self\.inner\.|self\.|\b)(\w+)\s*\((?:&self\.inner)?\)\s*\.await(\??)', arm)
        arms.append((m.group(1), ' '.join(neg + n + q for neg, n, q in calls)))
        pos = j
        m2 = re.compile(r'\s*,').match(body, pos)
        if m2:
            pos = m2.end()
    if len(arms) < 8:
        raise Fail(f'process_msg: only {len(arms)} arms recognised')
    g['WORKER_DISPATCH'] = arms
    pol = []
    for fn in ('tick', 'tick_with_deadline'):
        b = fn_body(ow, fn, 'in observer_worker.rs')
        if re.search(r'self\.process_msg\(msg\)\.await\s*\?', b):
            pol.append('propagate')
        elif re.search(r'if\s+let\s+Err\(\w+\)\s*=\s*self\.process_msg\(msg\)\.await\s*\{', b):
            pol.append('log')
        else:
            raise Fail(f'{fn}: handling of process_msg errors not recognised')
    g['WORKER_MSG_ERROR_POLICY'] = pol
    # a deferred index dump: every branch of `process_deferred_blob_index_dump` that leaves a record registered arms a
    # deadline (`update_deadline`), and `defer_blob_indexes_dump` arms one unconditionally
    body = fn_body(ow, 'process_deferred_blob_index_dump', 'in observer_worker.rs')
    mi = body.find('try_run_old_blob_indexes_dump_task')
    me = body.find('} else {', mi)
    if mi < 0 or me < 0:
        raise Fail('process_deferred_blob_index_dump: shape not recognised')
    depth, j = 1, me + len('} else {')
    while depth and j < len(body):
        depth += {'{': 1, '}': -1}.get(body[j], 0)
        j += 1
    rerecord = body[me:j]
    tail = body[j:]
    dd = fn_body(ow, 'defer_blob_indexes_dump', 'in observer_worker.rs')
    last_if = dd.rfind('if let Some(deferred) = &self.deferred_index_dump_info')
    g['DEFERRED_ARMS_DEADLINE'] = [
        'rerecord:' + ('update_deadline' if ('DeferredEventData::new' in rerecord and 'update_deadline' in rerecord) else 'none'),
        'not-due:' + ('update_deadline' if 'update_deadline' in tail else 'none'),
        'defer:' + ('update_deadline' if last_if >= 0 and 'update_deadline' in dd[last_if:] and dd[:last_if].count('update_deadline') == 0 else 'conditional-or-none')]
    # the background sync: the flag is taken by compare-exchange, released by a guard object that lives in an inner
    # scope, and AFTER that scope the active blob is examined again inside a loop (the repair of E23)
    body = ''
    for mm in re.finditer(r"\bfn\s+fsyncdata\b", sc):
        b = fn_body(sc[mm.start():], 'fsyncdata', 'in storage/core.rs')
        if 'fsync_in_progress' in b:
            body = b
    if not body:
        raise Fail('Inner::fsyncdata (the one that handles fsync_in_progress) not found')
    mloop = re.search(r"\bloop\s*\{", body)
    mguard = re.search(r"let\s+_flag\s*=\s*ResetableFlag", body)
    shape = []
    if mloop and mguard and mloop.start() < mguard.start():
        # find the end of the block that holds the guard
        depth, j, start = 0, mguard.start(), None
        k = body.rfind('{', 0, mguard.start())
        depth, j = 1, k + 1
        while depth and j < len(body):
            depth += {'{': 1, '}': -1}.get(body[j], 0)
            j += 1
        after = body[j:]
        shape = ['loop', 'guard-in-inner-scope',
                 'recheck-after-release' if 'too_many_dirty_bytes' in after and re.search(r"return\s+Ok\(\(\)\)", after) else 'no-recheck']
    else:
        shape = ['single-pass']
    g['BACKGROUND_SYNC_SHAPE'] = shape + ['cas' if 'compare_exchange(false, true' in body else 'no-cas']
    # `IndexStruct::load_in_memory` (reached from `Blob::load_index`: delete into a closed blob, restore of the active blob):
    # the order of its suspension points and of its assignments to `self` (the repair of E24: every awaited read precedes
    # the switch of the state, so that a dropped future leaves the on-disk state untouched)
    ic = read(repo, 'src/blob/index/core.rs')
    body = fn_body(ic, 'load_in_memory', 'in blob/index/core.rs')
    body_nc = re.sub(r'//[^\n]*', '', body)
    evs = [(m.start(), 'await') for m in re.finditer(r'\.await\b', body_nc)] + \
          [(m.start(), 'set') for m in re.finditer(r'\bself\.\w+\s*=[^=]', body_nc)]
    g['LOAD_INDEX_SEGMENTS'] = [k for _, k in sorted(evs)]
    # `Inner::ensure_active_blob_exists`: the "is there an active blob" test comes first, the id is taken inside the branch
    # that creates the blob, then the file is created, then the blob is installed (the order `Model/ConcCreate.lean` steps
    # through; the seeded change C15-6 took the id before the test)
    body = re.sub(r'//[^\n]*', '', fn_body(sc, 'ensure_active_blob_exists', 'in storage/core.rs'))
    evs = []
    for tag, pat in (('test', r'active_blob'), ('take-id', r'next_blob_name\s*\('), ('create', r'open_new\s*\('),
                     ('install', r'active_blob\s*=\s*Some')):
        m = re.search(pat, body)
        if not m:
            raise Fail(f'ensure_active_blob_exists: {tag} not found')
        evs.append((m.start(), tag))
    g['ENSURE_ACTIVE_ORDER'] = [t for _, t in sorted(evs)]
    # `Inner::merge_filters` (node filters of the container): whenever either side has no filter, or the merge is refused,
    # the node falls back to `None` ("unknown": passes every key) - the fallback value of the `zip(..).map(..)` chain
    hf = read(repo, 'src/filter/hierarchical.rs')
    body = re.sub(r'\s+', '', fn_body(hf, 'merge_filters', 'in filter/hierarchical.rs'))
    m = re.search(r'\.unwrap_or\((true|false)\)', body)
    if not m or 'checked_add_assign' not in body or '*dest=None' not in body or not body.startswith('if!dest'):
        raise Fail('merge_filters: shape not recognised')
    g['MERGE_FILTERS_NO_FILTER_MERGES'] = (m.group(1) == 'true')
    # the writer's rotation test
    body = fn_body(sc, 'should_update_active_blob', 'in storage/core.rs')
    m1 = re.search(r'active_blob\.file_size\(\)\s*(>=|>|==|<=|<)\s*config_max_size', body)
    m2 = re.search(r'active_blob\.records_count\(\)\s*as\s+u64\s*(>=|>|==|<=|<)\s*config_max_count', body)
    m3 = re.search(r'dur\.as_millis\(\)\s*(>=|>|==|<=|<)\s*self\.inner\.config\.debounce_interval_ms\(\)', body)
    m4 = re.search(r'config_max_size\s*(\|\||&&)\s*active_blob\.records_count', body)
    if not (m1 and m2 and m3 and m4):
        raise Fail('should_update_active_blob: rotation test not recognised')
    g['ROTATE_TEST'] = [m1.group(1), m4.group(1), m2.group(1), m3.group(1)]
    rr = read(repo, 'src/storage/read_result.rs')
    ops = re.findall(r'if\s+other\.timestamp\(\)\s*(>=|>|<=|<|==)\s*self\.timestamp\(\)\s*\{\s*other\s*\}\s*else\s*\{\s*self\s*\}', rr)
    if len(ops) != 2 or len(set(ops)) != 1:
        raise Fail('ReadResult::latest comparison not recognised')
    g['LATEST_OTHER_WINS_IF'] = ops[0]
    return g


class LeanFn:
    """a Rust arithmetic function translated to a Lean definition over Nat"""
    def __init__(self, params, lets, result):
        self.params, self.lets, self.result = params, lets, result


_TOK = re.compile(r"\s*(?:(\d[\d_]*)(?:usize|u64|u32)?|([A-Za-z_][A-Za-z0-9_:<>]*(?:\(\))?)|(.))")


def arith_expr(expr, known, where):
    """translate `+ - * /`, parentheses, integer literals, identifiers and `as <int type>` casts; every identifier must
    be in `known` (parameters, earlier lets, constants); anything else fails (the translator refuses to guess)"""
    expr = re.sub(r"\bas\s+(usize|u64|u32|i32|i64)\b", "", expr)
    expr = re.sub(r"(?:std::mem::)?size_of::<u64>\(\)", "8", expr)
    expr = re.sub(r"(?:std::mem::)?size_of::<u32>\(\)", "4", expr)
    out = []
    pos = 0
    while pos < len(expr):
        m = _TOK.match(expr, pos)
        if not m:
            break
        pos = m.end()
        num, ident, sym = m.groups()
        if num is not None:
            out.append(num.replace('_', ''))
        elif ident is not None:
            ident = ident.split('::')[-1]
            if ident not in known:
                raise Fail(f'{where}: unknown identifier `{ident}` in `{expr.strip()}`')
            out.append(ident)
        elif sym in '+-*/()':
            out.append(sym)
        elif sym.strip() == '':
            continue
        else:
            raise Fail(f'{where}: unsupported token `{sym}` in `{expr.strip()}`')
    return ' '.join(out).replace('( ', '(').replace(' )', ')')


def arith_fn(src, name, where, extern=None, consts=()):
    """`fn name(a: usize, ..) -> .. { let x = e; ...; e }` (optionally `Ok(e)`) -> LeanFn.  `extern` maps a let whose
    right-hand side is a call the translator does not look into (e.g. `NodeMeta::serialized_size_default()`) to a
    parameter of the Lean definition: the pattern must match or the translation fails"""
    extern = extern or {}
    m = re.search(r"\bfn\s+" + name + r"\s*(?:<[^>]*>)?\s*\(([^)]*)\)", src)
    if not m:
        raise Fail(f'fn {name} not found {where}')
    params = [a.split(':')[0].strip() for a in m.group(1).split(',') if a.strip() and not a.strip().startswith(('&self', 'self'))]
    body = fn_body(src, name, where)
    stmts = [x.strip() for x in body.split(';')]
    result = stmts.pop()
    known = set(params) | set(consts)
    lets = []
    extra = []
    for st in stmts:
        if not st:
            continue
        lm = re.fullmatch(r"let\s+([a-z_][a-z0-9_]*)\s*(?::\s*\w+)?\s*=\s*(.+)", st, re.S)
        if not lm:
            raise Fail(f'fn {name}: statement not recognised: `{st}`')
        var, rhs = lm.group(1), ' '.join(lm.group(2).split())
        hit = None
        for pat, pname in extern.items():
            if re.fullmatch(pat, rhs):
                hit = pname
        if hit:
            if hit not in extra:
                extra.append(hit)
            known.add(hit)
            lets.append((var, hit))
        else:
            lets.append((var, arith_expr(rhs, known, f'fn {name}')))
        known.add(var)
    rm = re.fullmatch(r"Ok\((.*)\)", result.strip(), re.S)
    if rm:
        result = rm.group(1)
    return LeanFn(list(consts) + params + extra, lets, arith_expr(result, known, f'fn {name}'))


def straight_line(src, name, where, nth=0):
    """a function whose body is a straight line of calls (`a.b()?;` / `.with_context(..)?` / final `Ok(..)` or a final
    call): the list of called names, `?` kept.  Any control flow (`if`, `match`, `return`, loops) makes the
    translation fail: the model has none there"""
    hits = [m.start() for m in re.finditer(r"\bfn\s+" + name + r"\b", src)]
    if len(hits) <= nth:
        raise Fail(f'fn {name} (occurrence {nth}) not found {where}')
    body = fn_body(src[hits[nth]:], name, where)
    if re.search(r"\b(if|match|return|while|for|loop)\b", body):
        raise Fail(f'fn {name} {where}: control flow in a function the model treats as a straight line')
    body = re.sub(r"\.with_context\(\s*\|\|\s*\"[^\"]*\"\s*\)", "", body)
    out = []
    for st in [' '.join(x.split()).replace(' ?', '?') for x in body.split(';') if x.strip()]:
        if re.fullmatch(r"Ok\((\(\)|self)\)", st):
            continue
        m = re.fullmatch(r"(?:self\.)?((?:\w+\(?\)?\.)*)(\w+)\(([^()]*)\)(\??)", st)
        if not m:
            raise Fail(f'fn {name} {where}: statement not recognised: `{st}`')
        out.append(m.group(1).replace('()', '') + m.group(2) + '(' + m.group(3).replace('&', '').replace('self.', '').strip() + ')' + m.group(4))
    return out


def lean_val(v):
    if isinstance(v, bool):
        return 'true' if v else 'false'
    if isinstance(v, int):
        return str(v)
    if isinstance(v, str):
        return '"' + v + '"'
    if isinstance(v, list) and v and isinstance(v[0], tuple):
        return '[' + ', '.join(f'("{a}", "{b}")' for a, b in v) + ']'
    if isinstance(v, list):
        return '[' + ', '.join(lean_val(x) for x in v) + ']'
    raise Fail(f'cannot render {v!r}')


def lean_type(v):
    if isinstance(v, bool):
        return 'Bool'
    if isinstance(v, int):
        return 'Nat'
    if isinstance(v, str):
        return 'String'
    if isinstance(v, list) and v and isinstance(v[0], tuple):
        return 'List (String × String)'
    if isinstance(v, list) and v and isinstance(v[0], str):
        return 'List String'
    return 'List Nat'


def render(g, namespace, header):
    lines = [header, f'namespace {namespace}', '']
    for k in sorted(g):
        v = g[k]
        if isinstance(v, LeanFn):
            lines.append(f'def {k} ' + ' '.join(f'({q} : Nat)' for q in v.params) + ' : Nat :=')
            for var, e in v.lets:
                lines.append(f'  let {var} := {e}')
            lines.append(f'  {v.result}')
        else:
            lines.append(f'def {k} : {lean_type(v)} := {lean_val(v)}')
    lines += ['', f'end {namespace}', '']
    return '\n'.join(lines)


def main():
    ap = argparse.ArgumentParser()
    ap.add_argument('--repo', default='/repo')
    ap.add_argument('--out', required=True)
    ap.add_argument('--namespace', default='Pearl.Gen')
    ap.add_argument('--file', default='Consts.lean')
    args = ap.parse_args()
    try:
        g = extract(args.repo)
    except Fail as e:
        print(f'rs2lean: {e}', file=sys.stderr)
        return 1
    os.makedirs(args.out, exist_ok=True)
    text = render(g, args.namespace, '/- GENERATED by tools/rs2lean.py from the Rust source on every run. Do not edit. -/')
    path = os.path.join(args.out, args.file)
    old = open(path).read() if os.path.exists(path) else None
    if old != text:
        open(path, 'w').write(text)
    return 0


if __name__ == '__main__':
    sys.exit(main())
