#!/bin/sh
# usage: tools/seedcheck.sh <patch.diff> <ID> [<ID>...]   -- applies a seeded change to /repo, runs the quick checks, reverts
set -u
PATCH="$1"; shift
cd /repo || exit 2
if ! git apply --ignore-whitespace "$PATCH"; then echo "patch does not apply"; exit 2; fi
cd /verif
for id in "$@"; do
  echo "== $id"
  ./check "$id" --tier quick 2>&1 | grep -E "^VIOLATION|^KNOWN|quick:|^# " | head -8
done
git -C /repo checkout -- . 
git -C /repo status --short | head -3
